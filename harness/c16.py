"""C16 — The same seed and budget reproduce the same test suite.

Two ties to the code (design_notes/C16.md):

1. In-process correspondence with `Driver/C16.lean` (model `Model/Repro.lean`, Part B): random
   receivers/donors/split points for the REAL `TestCase.append_test_case_from` (single-point
   crossover), real libcst statements, `randomness.choice` fed from the case's draw list, and the hash
   iteration order of every `Statement.used_variables()` frozenset *chosen by the case* (a frozenset
   subclass whose `__iter__` yields the given permutation — exactly the freedom PYTHONHASHSEED has).
   The oracle re-runs the real code under other permutations: the offspring must not change.
   `sort` cases tie `sortNames` to Python's `sorted` on identifier strings.

2. Pipeline histories (`extra_checks`): whole Pynguin runs (`pynguin.cli.main`) on small deterministic
   modules in child interpreters, one server process per PYTHONHASHSEED which imports pynguin once and
   forks once per run (a run starts from the state "pynguin imported", nothing else).  Every run
   carries an RNG-call recorder on `randomness.RNG` (call, call site, len / order-insensitive hash /
   order-sensitive hash of the candidate sequence, hash of the result) and suite snapshots around
   assertion generation, minimisation and export.  Runs of one configuration are compared pairwise:
   same seed & configuration under different hash seeds, and under two *schedule perturbations*
   (a sleep before every zero-timeout `Thread.join` of the executor resp. a late start of the thread
   that executes an empty test case — both semantically neutral).  The
   written files must be byte-identical; on a difference the first divergent record names the place.
   Wall-clock inner budgets (per-statement execution timeout, local-search time) are set so high
   that they cannot fire: the property is about iteration-bounded budgets.
"""
from __future__ import annotations

import concurrent.futures
import difflib
import hashlib
import json
import os
import re
import shutil
import subprocess
import sys
import tempfile
import textwrap

sys.path.insert(0, os.path.dirname(os.path.abspath(__file__)))
import vcommon  # noqa: E402
from vcommon import Failure, PropertyCheck, run_main  # noqa: E402

# ---------------------------------------------------------------------------------------------
# modules under test for the pipeline runs (deterministic, small, not fully coverable at once)
# ---------------------------------------------------------------------------------------------
SUTS = {
    "tiny": '''
        def classify(x: int, y: int) -> int:
            if x > y:
                return 1
            if x == y:
                return 0
            return -1


        def ratio(a: int, b: int) -> float:
            if b == 0:
                return 0.0
            return a / b
        ''',
    "hard": '''
        def gate(x: int, y: int, s: str) -> int:
            if x == 48213 and y == -77123:
                if s == "open sesame":
                    return 3
                return 2
            if x > y:
                if s.startswith("ab"):
                    return 1
                return 0
            return -1


        def bucket(v: float, lo: float, hi: float) -> str:
            if lo > hi:
                lo, hi = hi, lo
            if v < lo:
                return "below"
            if v > hi:
                return "above"
            if v == 1234.5:
                return "magic"
            return "inside"
        ''',
    "acct": '''
        class BadAmount(Exception):
            pass


        class InsufficientFunds(Exception):
            pass


        class Account:
            def __init__(self, owner: str, balance: int = 0) -> None:
                self.owner = owner
                self.balance = balance
                self.log: list[int] = []

            def deposit(self, amount: int) -> int:
                if amount <= 0:
                    raise BadAmount("amount")
                self.balance += amount
                self.log.append(amount)
                return self.balance

            def withdraw(self, amount: int) -> int:
                if amount > self.balance:
                    raise InsufficientFunds("funds")
                if amount == 31337:
                    self.log.clear()
                self.balance -= amount
                self.log.append(-amount)
                return self.balance

            def transfer(self, other: "Account", amount: int) -> bool:
                if other is self:
                    return False
                if len(self.log) > 3 and other.balance > 1000:
                    return False
                self.withdraw(amount)
                other.deposit(amount)
                return True


        def richest(a: Account, b: Account) -> Account:
            if a.balance >= b.balance:
                return a
            return b
        ''',
    "coll": '''
        def longest(words: list[str]) -> str:
            best = ""
            for w in words:
                if len(w) > len(best):
                    best = w
            if best == "pneumonoultramicroscopic":
                return "!"
            return best


        def merge(a: dict[str, int], b: dict[str, int]) -> dict[str, int]:
            out = dict(a)
            for k, v in b.items():
                if k in out:
                    out[k] += v
                else:
                    out[k] = v
            if len(out) > 5 and "zeta" in out:
                out.pop("zeta")
            return out


        def span(t: tuple[int, int], s: set[int]) -> int:
            lo, hi = t
            n = 0
            for x in sorted(s):
                if lo <= x <= hi:
                    n += 1
            if n == 7:
                return -1
            return n
        ''',
    "shapes": '''
        import enum
        from dataclasses import dataclass


        class Kind(enum.Enum):
            CIRCLE = 1
            SQUARE = 2
            TRI = 3


        @dataclass
        class Shape:
            kind: Kind
            size: float

            def area(self) -> float:
                if self.kind is Kind.CIRCLE:
                    return 3.0 * self.size * self.size
                if self.kind is Kind.SQUARE:
                    return self.size * self.size
                return self.size * self.size / 2.0

            def scaled(self, k: float) -> "Shape":
                if k <= 0:
                    raise ValueError("k")
                if k == 2.5 and self.kind is Kind.TRI:
                    return Shape(Kind.SQUARE, self.size)
                return Shape(self.kind, self.size * k)


        def bigger(a: Shape, b: Shape) -> Shape:
            if a.area() > b.area():
                return a
            return b


        def describe(s: Shape, verbose: bool = False) -> str:
            base = s.kind.name.lower()
            if verbose:
                if s.size > 100:
                    return base + ":huge"
                return base + ":" + str(int(s.size))
            return base
        ''',
    "strs": '''
        def tokens(text: str, sep: str = ",") -> list[str]:
            if not sep:
                raise ValueError("sep")
            out = []
            for part in text.split(sep):
                part = part.strip()
                if part:
                    out.append(part)
            if len(out) == 4 and out[0] == "key":
                out.reverse()
            return out


        def mask(s: str, keep: int) -> str:
            if keep < 0:
                raise ValueError("keep")
            if keep >= len(s):
                return s
            if s.endswith("@example.org"):
                return "*" * len(s)
            return s[:keep] + "*" * (len(s) - keep)


        def is_version(s: str) -> bool:
            parts = s.split(".")
            if len(parts) != 3:
                return False
            for p in parts:
                if not p.isdigit():
                    return False
            return parts[0] != "0"
        ''',
    "stack": '''
        class Stack:
            def __init__(self, limit: int = 4) -> None:
                self.items: list[int] = []
                self.limit = limit

            def push(self, x: int) -> None:
                if len(self.items) >= self.limit:
                    raise OverflowError("full")
                self.items.append(x)

            def pop(self) -> int:
                if not self.items:
                    raise IndexError("empty")
                return self.items.pop()

            def peek(self) -> int | None:
                if self.items:
                    return self.items[-1]
                return None

            def drain(self, other: "Stack") -> int:
                if other is self:
                    return -1
                n = 0
                while other.items and len(self.items) < self.limit:
                    self.items.append(other.items.pop())
                    n += 1
                if n == 3 and self.items[0] == 99:
                    self.items.clear()
                return n


        def total(s: Stack, bonus: float = 0.0) -> float:
            t = bonus
            for x in s.items:
                t += x
            if t > 1000:
                return 1000.0
            return t
        ''',
    "opt": '''
        from typing import Optional


        def pick(a: Optional[int], b: Optional[str] = None, *rest: int) -> str:
            if a is None:
                if b is None:
                    return "none"
                return b
            if rest:
                if sum(rest) == a:
                    return "sum"
                return "rest"
            if b is not None and len(b) == a:
                return "len"
            return str(a)


        def clamp(x: int | float, lo: int = 0, hi: int = 10) -> int | float:
            if lo > hi:
                raise ValueError("bounds")
            if x < lo:
                return lo
            if x > hi:
                return hi
            if isinstance(x, float) and x == 5.5:
                return 5
            return x
        ''',
    # Callable-annotated and unannotated parameters: the factory has to pick callables
    # (classes, builtin functions, functions of the module, lambdas) from candidate lists
    "hof": '''
        from typing import Callable


        def apply_twice(func: Callable, value: int) -> str:
            try:
                first = func(value)
            except Exception:
                return "error"
            if first is None:
                return "none"
            if isinstance(first, bool):
                return "flag" if first else "noflag"
            if isinstance(first, int):
                if first > 10:
                    return "big"
                return "small"
            if isinstance(first, str):
                return "text:" + first[:3]
            return "other"


        def fold(items: list[int], step, start=0):
            acc = start
            for it in items:
                acc = step(acc, it) if callable(step) else acc + it
            if acc == 42:
                return "answer"
            return acc


        def pick(flag: bool, left: int, right: int) -> int:
            if flag and left > right:
                return left
            if right == 17:
                return -1
            return right


        def compose(f: Callable[[int], int], g: Callable[[int], int], x: int) -> int:
            y = g(x)
            if y == x:
                return f(y) + 1
            return f(y)
        ''',
    # sets of str as module-level state, as object attributes and inside dicts: exact assertions on
    # them are exported (`assert tagsets_.KNOWN == {...}`, `assert var_1.tags == {...}`)
    "tagsets": '''
        KNOWN = {"north", "south", "east", "west"}


        class Bag:
            def __init__(self, n: int) -> None:
                if n > 2:
                    self.tags = {"red", "green", "blue", "black"}
                else:
                    self.tags = {"cyan", "magenta"}
                self.count = n
                self.index = {"a": {"ant", "ape", "asp"}, "b": {"bee", "bat"}}

            def add(self, tag: str) -> int:
                if tag in self.tags:
                    return 0
                self.tags.add(tag)
                self.count += 1
                return len(self.tags)

            def initials(self) -> list[str]:
                return sorted({t[0] for t in self.tags})


        def register(name: str) -> bool:
            if name in KNOWN:
                return False
            if len(name) > 3:
                KNOWN.add(name[:3])
                return True
            return False
        ''',
    # many small arithmetic functions: far more first-order mutants than a small --maximum-mutants
    "calc": '''
        def area(width: int, height: int) -> int:
            return width * height + 1


        def perimeter(width: int, height: int) -> int:
            return 2 * (width + height) - 3


        def scale(value: int, factor: int) -> int:
            return value * factor - factor + 7


        def offset(value: int, delta: int) -> int:
            return value + delta + 11


        def mix(first: int, second: int, third: int) -> int:
            return first - second * 2 + third * 5 - 13


        def clamp(value: int, low: int, high: int) -> int:
            if value < low:
                return low - 1
            if value > high:
                return high + 1
            return value * 3


        def parity(value: int) -> int:
            if value % 2 == 0:
                return value // 2 + 19
            return value * 3 + 1


        def weight(count: int, unit: int) -> int:
            return count * unit * 2 + count - unit + 23
        ''',
}

# (module, algorithm, iterations, extra command-line options); the search seed is derived from
# VERIF_SEED and the job index.  "cap" stands for a small --maximum-mutants (mutant sampling).
SIMPLE = ["--assertion-generation", "SIMPLE"]
QUICK_JOBS = [
    ("hard", "DYNAMOSA", 6, []), ("acct", "MIO", 60, []), ("coll", "MOSA", 6, []),
    ("shapes", "WHOLE_SUITE", 5, []),
    ("hof", "DYNAMOSA", 5, SIMPLE), ("tagsets", "MOSA", 5, SIMPLE), ("calc", "WHOLE_SUITE", 5, "cap"),
]
ALGOS_T = [("DYNAMOSA", 8), ("MOSA", 8), ("MIO", 80), ("WHOLE_SUITE", 6), ("RANDOM", 30)]
# generation-only histories (no test execution): set-up + N random test cases + M mutations/crossovers
QUICK_FACTORY = [("hof", 40, 120), ("shapes", 25, 60)]
# mutant selection for a capped mutation analysis: (module, cap)
QUICK_MUTSEL = [("calc", 12), ("hard", 9)]

SERVER = r'''
import hashlib, json, os, re, sys, threading, time
sys.path.insert(0, os.environ["C16_SRC"])
os.environ.setdefault("PYNGUIN_DANGER_AWARE", "1")
import pynguin.utils.randomness as randomness

LOG = []
STAGES = []
_DEPTH = [0]
_ADDR = re.compile(r"0x[0-9a-fA-F]+")
_SKIP = (os.sep + "random.py", os.sep + "randomness.py")

def _sha(s):
    return hashlib.sha1(s.encode("utf-8", "replace")).hexdigest()[:10]

def _rep(x):
    try:
        return _ADDR.sub("0x", repr(x))[:400]
    except Exception as e:
        return "<unrepr " + type(e).__name__ + ">"

def _site():
    f = sys._getframe(2)
    while f is not None and (f.f_code.co_filename.endswith(_SKIP) or f.f_code.co_filename == __file__):
        f = f.f_back
    if f is None:
        return "?"
    fn = f.f_code.co_filename
    i = fn.rfind("pynguin" + os.sep)
    return (fn[i:] if i >= 0 else os.path.basename(fn)) + ":" + str(f.f_lineno)

def _seqinfo(seq):
    try:
        items = [_rep(x) for x in seq]
    except Exception:
        return [-1, "?", "?"]
    return [len(items), _sha("\x00".join(sorted(items))), _sha("\x00".join(items))]

def _wrap(name, seqarg):
    base = getattr(randomness.Random, name, None) or getattr(randomness.Random.__mro__[1], name)
    def method(self, *a, **k):
        if _DEPTH[0]:
            return base(self, *a, **k)
        rec = [name, _site()]
        if self is not randomness.RNG:
            rec[0] = name + "~private"  # a private stream (`randomness.Random(x)`), not the global RNG
        if seqarg and a:
            rec += _seqinfo(a[0])
        else:
            rec += [_rep(a)]
        _DEPTH[0] += 1
        try:
            r = base(self, *a, **k)
        finally:
            _DEPTH[0] -= 1
        rec.append(_sha(_rep(r)) if name != "shuffle" else _sha(_rep(list(a[0]))))
        LOG.append(rec)
        return r
    method.__name__ = name
    return method

# every stream of the code base is a `randomness.Random`: record on the class, so that private
# streams (e.g. the mutant sampling of FirstOrderMutator) are seen as well
for _n, _s in (("choice", True), ("choices", True), ("sample", True), ("shuffle", True),
               ("randrange", False), ("randint", False), ("uniform", False), ("gauss", False),
               ("random", False), ("getrandbits", False), ("betavariate", False), ("triangular", False),
               ("normalvariate", False), ("expovariate", False)):
    setattr(randomness.Random, _n, _wrap(_n, _s))

SEEDS = []
_o_seed = randomness.Random.seed
def _seed(self, a=None, *rest, **k):
    # which value seeds which stream, and where: `Random(hash(a_string))` shows up here
    if not _DEPTH[0]:
        rec = ["seed" if self is randomness.RNG else "seed~private", _site(), _rep(a)]
        LOG.append(rec)
        SEEDS.append([rec[1], a if isinstance(a, int) else _rep(a)])
    return _o_seed(self, a, *rest, **k)
randomness.Random.seed = _seed

import pynguin.cli
import pynguin.generator as gen
import pynguin.testcase.execution as ex

def _suite_code(suite):
    try:
        return [c.test_case.to_code() for c in suite.test_case_chromosomes]
    except Exception as e:
        return ["<" + type(e).__name__ + ">"]

def _stage(name):
    orig = getattr(gen, name)
    def wrapper(*a, **k):
        suite = next((x for x in a if hasattr(x, "test_case_chromosomes")), None)
        if suite is not None:
            code = _suite_code(suite)
            LOG.append(["stage", "before" + name, len(code), _sha("\x01".join(code))])
            STAGES.append(["before" + name, code])
        r = orig(*a, **k)
        if suite is not None:
            code = _suite_code(suite)
            LOG.append(["stage", "after" + name, len(code), _sha("\x01".join(code))])
            STAGES.append(["after" + name, code])
        return r
    setattr(gen, name, wrapper)

for _n in ("_track_search_metrics", "_generate_assertions", "_minimize", "_export_chromosome"):
    if hasattr(gen, _n):
        _stage(_n)

_o_execute = ex.TestCaseExecutor.execute
WALLCLOCK = []
WAITED = 15.0  # an execution that reports a timeout after waiting this long really ran into the wall-clock limit
def _execute(self, test_case, *a, **k):
    t0 = time.monotonic()
    r = _o_execute(self, test_case, *a, **k)
    if r.timeout:
        # timeout=True is also how the executor reports e.g. ModuleNotImportedError (deterministic)
        LOG.append(["timeout", test_case.size(), _sha(test_case.to_code())])
        if time.monotonic() - t0 > WAITED:
            WALLCLOCK.append([test_case.size(), round(time.monotonic() - t0, 1), test_case.to_code()[:200]])
    return r
ex.TestCaseExecutor.execute = _execute


try:
    import pynguin.testcase.localsearchtimer as _lst
    _o_limit = _lst.LocalSearchTimer.limit_reached
    def _limit(self):
        r = _o_limit(self)
        if r:  # the (huge) wall-clock budget of a local search ran out: environment, not the property
            WALLCLOCK.append(["local-search-time", 0, ""])
        return r
    _lst.LocalSearchTimer.limit_reached = _limit
except Exception:
    pass

PERTURB = [None]
_o_join = threading.Thread.join
def _join(self, timeout=None):
    # schedule "main-slow": let the other thread finish before a join that does not wait at all
    if PERTURB[0] == "main-slow" and timeout is not None and timeout <= 0:
        if sys._getframe(1).f_code.co_filename.endswith(os.path.join("testcase", "execution.py")):
            time.sleep(0.05)
    return _o_join(self, timeout)
threading.Thread.join = _join

_o_start = threading.Thread.start
def _start(self):
    # schedule "thread-slow": the thread executing an EMPTY test case starts 50 ms late
    if PERTURB[0] == "thread-slow":
        tgt = getattr(self, "_target", None)
        args = getattr(self, "_args", ())
        if (tgt is not None and getattr(tgt, "__name__", "") == "_execute_test_case" and args
                and hasattr(args[0], "size") and args[0].size() == 0):
            def slow(*a, _t=tgt, **k):
                time.sleep(0.05)
                return _t(*a, **k)
            self._target = slow
    return _o_start(self)
threading.Thread.start = _start

def _configure(argv):
    """What `pynguin.cli.main` does with the command line, up to `set_configuration`."""
    parsed = pynguin.cli._create_argument_parser().parse_args(pynguin.cli._expand_arguments_if_necessary(argv))
    gen.set_configuration(parsed.config)
    return parsed.config

def factory_history(job):
    """Generation-only history: the set-up of `generator._setup_and_check` (path, constant seeding,
    import hook, SUT, test cluster, RNG seed), then the chromosome factory of the search: N random test
    cases, M mutations / crossovers -- no test is executed.  Written to <out>/factory.txt."""
    import pynguin.configuration as config
    import pynguin.ga.testcasechromosome as tcc
    import pynguin.ga.testcasefactory as tcf
    import pynguin.testcase.testfactory as tf
    from pynguin.ga.operators.crossover import SinglePointRelativeCrossOver
    _configure(job["argv"])
    if not gen._setup_path():
        return 11
    provider, dyn = gen._setup_constant_seeding()
    props = gen._setup_import_hook(dyn)
    gen._patch_random()
    if not gen._load_sut(props):
        return 12
    with props.instrumentation_tracer.temporarily_disable():
        cluster = gen._setup_test_cluster()
    if cluster is None:
        return 13
    gen._setup_random_number_generator()
    factory = tf.TestFactory(cluster, constant_provider=provider)
    tcfactory = tcf.RandomLengthTestCaseFactory(factory, cluster)
    pop = [tcc.TestCaseChromosome(tcfactory.get_test_case(), factory) for _ in range(job["n"])]
    LOG.append(["stage", "population", len(pop), _sha("\x01".join(c.test_case.to_code() for c in pop))])
    xo = SinglePointRelativeCrossOver()
    for i in range(job["muts"]):
        c = pop[randomness.RNG.randrange(len(pop))]
        if i % 4 == 3:
            d = pop[randomness.RNG.randrange(len(pop))]
            if c is not d:
                a, b = c.clone(), d.clone()
                xo.cross_over(a, b)
                pop[pop.index(c)] = a
                pop[pop.index(d)] = b
        else:
            c.mutate()
    os.makedirs(job["out"], exist_ok=True)
    with open(os.path.join(job["out"], "factory.txt"), "w") as f:
        for c in pop:
            f.write(c.test_case.to_code() + "\n# ----\n")
    return 0

def mutant_selection(job):
    """The mutants the configured mutant generator (`generator._setup_mutant_generator`) selects for the
    module, in execution order.  Written to <out>/mutants.txt; the seeds of all streams to seeds.json."""
    import ast, importlib, inspect
    from pynguin.assertion.mutation_analysis.transformer import ParentNodeTransformer
    cfg = _configure(job["argv"])
    sys.path.insert(0, cfg.project_path)
    module = importlib.import_module(cfg.module_name)
    tree = ParentNodeTransformer.create_ast(inspect.getsource(module))
    gen._setup_random_number_generator()
    mutator = gen._setup_mutant_generator()
    lines = []
    for mutations, mutant in mutator.mutate(tree, module):
        m = mutations[0]
        lines.append("%s %s line %s %s" % (m.operator.__name__, m.visitor_name,
                                           getattr(m.node, "lineno", "?"), _sha(ast.unparse(mutant))))
    os.makedirs(job["out"], exist_ok=True)
    with open(os.path.join(job["out"], "mutants.txt"), "w") as f:
        f.write("\n".join(lines) + "\n")
    return 0

def one_job(job):
    LOG.clear(); STAGES.clear(); WALLCLOCK.clear(); SEEDS.clear()
    t_start = time.monotonic()
    PERTURB[0] = job.get("perturb")
    rc = None
    try:
        mode = job.get("mode", "run")
        if mode == "factory":
            rc = factory_history(job)
        elif mode == "mutsel":
            rc = mutant_selection(job)
        else:
            rc = pynguin.cli.main([sys.argv[0], *job["argv"]])
    except SystemExit as e:
        rc = e.code
    except BaseException as e:
        import traceback
        rc = "exc:" + type(e).__name__ + ":" + str(e)[:300] + traceback.format_exc()[-800:]
    try:
        rc = int(rc)
    except Exception:
        rc = str(rc)
    with open(job["report"] + ".log", "w") as f:
        json.dump({"log": LOG, "stages": STAGES}, f)
    with open(job["report"], "w") as f:
        json.dump({"rc": rc, "nlog": len(LOG), "log_sha": _sha(json.dumps(LOG)),
                   "timeouts": sum(1 for r in LOG if r[0] == "timeout"), "wallclock_timeouts": WALLCLOCK[:5],
                   "seeds": SEEDS[:40], "wall_s": round(time.monotonic() - t_start, 1),
                   "hashseed": os.environ.get("PYTHONHASHSEED")}, f)

def _die_with_parent():
    try:  # Linux: deliver SIGKILL to this process when its parent goes away (PR_SET_PDEATHSIG)
        import ctypes, signal
        ctypes.CDLL(None).prctl(1, int(signal.SIGKILL))
    except Exception:
        pass

def main():
    import signal
    _die_with_parent()
    with open(os.environ["C16_JOBS"]) as f:
        jobs = json.load(f)
    deadline = float(os.environ.get("C16_JOB_DEADLINE", "900"))
    for job in jobs:
        pid = os.fork()
        if pid == 0:
            code = 0
            try:
                os.setsid()  # own process group: everything the run starts can be removed with it
                _die_with_parent()
                out = os.open(job["report"] + ".out", os.O_WRONLY | os.O_CREAT | os.O_TRUNC)
                os.dup2(out, 1); os.dup2(out, 2)
                one_job(job)
            except BaseException:
                code = 3
            finally:
                os._exit(code)
        t0 = time.monotonic()
        while True:
            done, _ = os.waitpid(pid, os.WNOHANG)
            if done:
                break
            if time.monotonic() - t0 > deadline:
                # the run exceeded its wall-clock deadline (load, a hanging execution): environment
                try:
                    os.killpg(pid, signal.SIGKILL)
                except OSError:
                    pass
                os.waitpid(pid, 0)
                with open(job["report"] + ".log", "w") as f:
                    json.dump({"log": [], "stages": []}, f)
                with open(job["report"], "w") as f:
                    json.dump({"rc": "deadline", "nlog": 0, "log_sha": "", "timeouts": 0, "seeds": [],
                               "wallclock_timeouts": [["job-deadline", deadline, ""]], "wall_s": deadline,
                               "hashseed": os.environ.get("PYTHONHASHSEED")}, f)
                break
            time.sleep(0.1)
        try:  # processes the run left behind (executor subprocesses)
            os.killpg(pid, signal.SIGKILL)
        except OSError:
            pass

main()
'''

# ---------------------------------------------------------------------------------------------
# in-process part: TestCase.append_test_case_from under a chosen hash order
# ---------------------------------------------------------------------------------------------
VARS = [f"var_{i}" for i in range(13)]
OTHER_NAMES = ["f", "g", "h", "mod_", "Var_1", "_x", "zeta", "été", "A", "var_", "var_1_"]
_IDENT = re.compile(r"[^\W\d]\w*")
_ADDRESS = re.compile(r"\bat 0x[0-9a-fA-F]{6,}")


class PermFrozenSet(frozenset):
    """A frozenset that iterates in a given order — the freedom the hash seed has."""

    def __new__(cls, order):
        o = super().__new__(cls, order)
        o._order = tuple(order)
        return o

    def __iter__(self):
        return iter(self._order)


class _OutOfDraws(Exception):
    pass


def stmt_code(s) -> str:
    names = s["names"]
    form = s.get("form", "call")
    if not names:
        expr = "0"
    elif form == "attr" and len(names) >= 2:
        expr = f"{names[0]}.{names[1]}({', '.join(names[2:])})"
    elif form == "kw" and len(names) >= 3:
        expr = f"{names[0]}({', '.join(names[1:-2] + [names[-2] + '=' + names[-1]])})"
    else:
        expr = f"{names[0]}({', '.join(names[1:])})"
    return f"{s['bound']} = {expr}" if s["bound"] is not None else expr


# ---------------------------------------------------------------------------------------------
# in-process part 2: the text of an exact assertion on a value that contains sets, rendered by the
# REAL renderer in child interpreters with different PYTHONHASHSEEDs (line protocol, JSON)
# ---------------------------------------------------------------------------------------------
RENDER_CHILD = r"""
import copy, json, os, sys
sys.path.insert(0, os.environ["C16_SRC"])
out = os.fdopen(os.dup(1), "w")
os.dup2(os.open(os.devnull, os.O_WRONLY), 1)
import libcst as cst
import pynguin.assertion.assertion as ass
from pynguin.assertion.assertion_to_ast import assertion_to_cst

MOD = cst.Module(body=[])

def build(e):
    (k, v), = e.items()
    if k == "s": return v
    if k == "i": return int(v)
    if k == "b": return v.encode("latin-1")
    if k == "n": return None
    if k == "t": return bool(v)
    if k == "L": return [build(x) for x in v]
    if k == "T": return tuple(build(x) for x in v)
    if k == "S":
        r = set()
        for x in v:
            r.add(build(x))
        return r
    if k == "D": return {build(a): build(b) for a, b in v}
    raise ValueError(k)

def code(value):
    # the right-hand side of the exported `assert v == <value>` / `assert v is <value>`
    stmt = assertion_to_cst(ass.ObjectAssertion("v", value))
    return MOD.code_for_node(stmt.body[0].test.comparisons[0].comparator)

def tree(v):
    # structure as the renderer sees it: set members in iteration order, leaves as rendered text
    t = type(v)
    if t is list: return {"list": {"elems": [tree(x) for x in v]}}
    if t is tuple: return {"tuple": {"elems": [tree(x) for x in v]}}
    if t is set: return {"set": {"elems": [tree(x) for x in list(v)]}}
    if t is dict: return {"dict": {"keys": [tree(k) for k in v], "vals": [tree(x) for x in v.values()]}}
    return {"atom": {"text": code(v)}}

for line in sys.stdin:
    try:
        value = copy.deepcopy(build(json.loads(line)))  # the trace observer stores a deep copy
        res = {"code": code(value), "tree": tree(value)}
    except Exception as e:
        res = {"err": type(e).__name__ + ": " + str(e)[:200]}
    out.write(json.dumps(res) + "\n")
    out.flush()
"""

WORDS = ["a", "b", "c", "ab", "north", "south", "east", "west", "red", "green", "blue", "été", "Zeta", "zeta",
         "", " ", "it's", 'say "hi"', "tab\there", "new\nline", "back\\slash", "x" * 30, "0", "None", "var_0",
         "日本", "\x0c^Q", "k//", "{", "}", ", "]


def _enc_atom(rng, hashable_only=True):
    r = rng.random()
    if r < 0.62:
        return {"s": rng.choice(WORDS) + (str(rng.randrange(100)) if rng.random() < 0.3 else "")}
    if r < 0.8:
        return {"i": rng.choice([0, 1, 2, 7, 8, 16, -1, -8, 255, 1024, rng.randrange(-10**6, 10**6)])}
    if r < 0.87:
        return {"b": rng.choice(["", "a", "ab", "\x00\xff", "north"])}
    if r < 0.93:
        return {"n": None}
    return {"t": rng.random() < 0.5}


def _enc_set(rng, kmax=8):
    n = rng.choice([0, 1, 2, 3, 3, 4, 5, 6, kmax])
    elems = []
    for _ in range(n):
        if rng.random() < 0.12:
            elems.append({"T": [_enc_atom(rng) for _ in range(rng.choice([0, 1, 2, 3]))]})
        else:
            elems.append(_enc_atom(rng))
    return {"S": elems}


def _enc_value(rng, depth=0):
    r = rng.random()
    if depth >= 3 or r < 0.45:
        return _enc_set(rng)
    if r < 0.55:
        return _enc_atom(rng)
    n = rng.choice([0, 1, 2, 2, 3])
    if r < 0.7:
        return {"L": [_enc_value(rng, depth + 1) for _ in range(n)]}
    if r < 0.85:
        return {"T": [_enc_value(rng, depth + 1) for _ in range(n)]}
    return {"D": [[_enc_atom(rng), _enc_value(rng, depth + 1)] for _ in range(n)]}


def _has_set(e, k=2):
    (key, v), = e.items()
    if key == "S":
        return len(v) >= k
    if key in ("L", "T"):
        return any(_has_set(x, k) for x in v)
    if key == "D":
        return any(_has_set(b, k) for _, b in v)
    return False


class C16(PropertyCheck):
    prop_id = "C16"
    level = "proof"
    prop_modules = ["PynguinModel.Props.C16"]
    extra_modules = ["PynguinModel.Model.Repro"]
    driver = "Driver/C16.lean"
    n_quick = 500
    n_thorough = 20000
    n_search = 3000
    rule = ("in-process cases: random receiver/donor/split/draws/hash orders for the real "
            "TestCase.append_test_case_from, non-trivial = at least one draw consumed or one statement "
            "dropped; pipeline runs: whole pynguin runs compared under different PYTHONHASHSEEDs and "
            "schedules (counted in real_runs)")
    assumptions = [
        "whole-program fact NOT proved: that every draw-consuming choice point of pynguin iterates an "
        "ordered collection; the pipeline runs search for counterexamples",
        "wall-clock inner budgets (execution timeout per statement, local-search time) are configured so "
        "large that they never fire; iteration budgets only; master/worker off",
        "a forked child of an interpreter that has only imported pynguin counts as a fresh interpreter",
    ]
    trusted_base_extra = [
        "RNG-call recorder and suite snapshots installed by monkeypatching in the child interpreters",
        "PermFrozenSet (frozenset subclass with a chosen iteration order) stands for hash-seed freedom",
    ]

    def __init__(self, tier, seed):
        super().__init__(tier, seed)
        self._seen = {}

    # -- generators ------------------------------------------------------------------------------
    def _gen_stmt(self, rng, bound_pool, name_pool):
        bound = rng.choice(bound_pool) if rng.random() < 0.7 else None
        k = rng.choice([0, 1, 2, 2, 3, 3, 4])
        names = [rng.choice(name_pool) for _ in range(k)]
        ty = rng.choice([0, 0, 1, 1, 2, 3]) if (bound is not None and rng.random() < 0.85) else None
        form = rng.choice(["call", "call", "attr", "kw"])
        return {"bound": bound, "ty": ty, "names": names, "form": form}

    def gen_case(self, rng):
        r = rng.random()
        if r < 0.06:
            pool = VARS + OTHER_NAMES
            return {"kind": "sort", "names": [rng.choice(pool) for _ in range(rng.randrange(0, 9))]}
        if r < 0.26:
            return {"kind": "render", "value": _enc_value(rng)}
        if r < 0.275:
            m = rng.choice(["calc", "calc", "hard", "tiny", "strs", "stack"])
            return {"kind": "mutsel", "module": m, "seed": rng.randrange(0, 1 << 20),
                    "cap": rng.choice([-1, 0, 1, 3, 5, 8, 12, 20, 40, 10000])}
        nself = rng.choice([0, 1, 2, 3, 3, 4, 4, 5, 6])
        unique = rng.random() < 0.8
        self_stmts = []
        for i in range(nself):
            s = self._gen_stmt(rng, [VARS[i]] if unique else VARS[:4], VARS[:max(i, 1)] + OTHER_NAMES[:3])
            if unique and s["bound"] is None and rng.random() < 0.7:
                s["bound"], s["ty"] = VARS[i], rng.choice([0, 0, 1, 2])
            self_stmts.append(s)
        counter = nself if rng.random() < 0.8 else rng.randrange(0, 8)
        nother = rng.choice([1, 2, 3, 4, 5, 6, 7, 8])
        other = []
        for i in range(nother):
            s = self._gen_stmt(rng, [VARS[i]] if unique else VARS[:5],
                               VARS[:max(i, 1)] * 4 + OTHER_NAMES[:3] + VARS[:4])
            if i >= 2 and not s["names"] and rng.random() < 0.7:
                s["names"] = [rng.choice(OTHER_NAMES[:3]), rng.choice(VARS[:i]), rng.choice(VARS[:i])]
            if s["bound"] is None and rng.random() < 0.6:
                s["bound"], s["ty"] = (VARS[i] if unique else rng.choice(VARS[:5])), rng.choice([0, 0, 1, 2])
            other.append(s)
        start = rng.choice([0, 1, 2, 2, 3, 3, 4, nother - 1, nother, nother + 1, rng.randrange(0, nother + 1)])
        tail = other[start:]

        def orders():
            out = []
            for s in tail:
                u = sorted(set(s["names"]))
                rng.shuffle(u)
                out.append(u)
            return out
        total = sum(len(set(s["names"])) for s in tail)
        ndraws = total + 2 if rng.random() < 0.95 else rng.randrange(0, total + 1)
        return {"kind": "append", "self": {"stmts": self_stmts, "counter": counter}, "other": other,
                "start": start, "orders": orders(), "alt_orders": [orders(), [sorted(o, reverse=True) for o in orders()]],
                "draws": [rng.randrange(0, 12) for _ in range(ndraws)]}

    # -- implementation adapter ------------------------------------------------------------------
    TYPES = [int, str, float, bool]

    def _mk_tc(self, stmts, counter):
        import libcst as cst
        from pynguin.testcase.testcase import Statement, TestCase
        tc = TestCase()
        for s in stmts:
            st = Statement(node=cst.parse_statement(stmt_code(s)), bound_variable=s["bound"],
                           bound_type=None if s["ty"] is None else self.TYPES[s["ty"]])
            real = st.used_variables()
            if set(real) != set(s["names"]):
                raise RuntimeError(f"adapter: used_variables {sorted(real)} != names {s['names']} for {stmt_code(s)!r}")
            tc.add_statement(st)
        tc._var_counter = counter
        return tc

    def _run_append(self, case, orders):
        import libcst as cst
        import pynguin.utils.randomness as randomness
        from pynguin.testcase.testcase import TestCase
        me = self._mk_tc(case["self"]["stmts"], case["self"]["counter"])
        other = self._mk_tc(case["other"], len(case["other"]))
        for st, order in zip(other.statements()[case["start"]:], orders):
            st._used_vars = PermFrozenSet(order)
        draws = list(case["draws"])
        seen = {"rename": {}, "dropped": set()}

        def choice(seq):
            if not draws:
                raise _OutOfDraws
            return seq[draws.pop(0) % len(seq)]

        orig_resolve = TestCase._resolve_head_references

        def resolve(tc_self, stmt, head_types, rename, dropped):
            seen["rename"], seen["dropped"] = rename, dropped
            return orig_resolve(tc_self, stmt, head_types, rename, dropped)

        orig_choice = randomness.choice
        randomness.choice = choice
        TestCase._resolve_head_references = resolve
        try:
            me.append_test_case_from(other, case["start"])
        except _OutOfDraws:
            return {"err": "outOfDraws"}
        finally:
            randomness.choice = orig_choice
            TestCase._resolve_head_references = orig_resolve
        out = []
        for st in me.statements():
            code = cst.Module(body=[st.node]).code.strip()
            expr = code.split(" = ", 1)[1] if st.bound_variable is not None else code
            out.append({"bound": st.bound_variable,
                        "ty": None if st.bound_type is None else self.TYPES.index(st.bound_type),
                        "names": _IDENT.findall(expr)})
        return {"stmts": out, "counter": me._var_counter, "rename": dict(seen["rename"]),
                "dropped": sorted(seen["dropped"]), "draws_left": len(draws)}

    def impl(self, case):
        if case.get("kind") == "sort":
            return {"sorted": sorted(case["names"])}
        if case.get("kind") == "pipeline":
            return self._impl_pipeline(case)
        if case.get("kind") in ("render", "mutsel"):
            io = self._impl_render(case) if case["kind"] == "render" else self._impl_mutsel(case)
            self._seen[id(case)] = io
            return io
        return {"out": self._run_append(case, case["orders"]),
                "alts": [self._run_append(case, o) for o in case.get("alt_orders", [])]}

    # -- set values in exported assertions: the real renderer under three hash seeds ---------------
    def _render_hashseeds(self):
        return [1 + 3 * self.seed, 2 + 3 * self.seed, 3 + 3 * self.seed]

    def _children(self):
        if getattr(self, "_kids", None) is None:
            import atexit
            self._kid_dir = tempfile.mkdtemp(prefix="c16r-")
            script = os.path.join(self._kid_dir, "render_child.py")
            with open(script, "w") as f:
                f.write(RENDER_CHILD)
            self._kids = []
            for h in self._render_hashseeds():
                env = dict(os.environ, C16_SRC=str(vcommon.REPO / "src"), PYTHONHASHSEED=str(h))
                env.pop("PYTHONPATH", None)
                self._kids.append(subprocess.Popen([vcommon.PY, script], env=env, stdin=subprocess.PIPE,
                                                   stdout=subprocess.PIPE, stderr=subprocess.DEVNULL, text=True))
            atexit.register(self._close_children)
        return self._kids

    def _close_children(self):
        for k in getattr(self, "_kids", None) or []:
            try:
                k.stdin.close()
                k.wait(timeout=20)
            except Exception:
                k.kill()
        self._kids = None
        for d in (getattr(self, "_kid_dir", None), getattr(self, "_sut_dir", None)):
            if d:
                shutil.rmtree(d, ignore_errors=True)

    def _impl_render(self, case):
        kids = self._children()
        line = json.dumps(case["value"]) + "\n"
        for k in kids:
            k.stdin.write(line)
            k.stdin.flush()
        res = []
        for k, h in zip(kids, self._render_hashseeds()):
            ans = k.stdout.readline()
            if not ans:
                raise RuntimeError(f"render child (PYTHONHASHSEED={h}) died")
            res.append(json.loads(ans))
        if any("err" in r for r in res):
            return {"err": sorted({r.get("err", "")[:80] for r in res})}
        return {"codes": [r["code"] for r in res], "tree": res[0]["tree"], "hashseeds": self._render_hashseeds()}

    # -- mutant selection of a capped mutation analysis, in-process: which streams are created ----
    def _impl_mutsel(self, case):
        import ast
        import importlib
        import inspect
        import pynguin.configuration as config
        import pynguin.generator as gen
        import pynguin.utils.randomness as randomness
        from pynguin.assertion.mutation_analysis.transformer import ParentNodeTransformer
        if getattr(self, "_sut_dir", None) is None:
            self._sut_dir = tempfile.mkdtemp(prefix="c16m-")
            for name, src in SUTS.items():
                with open(os.path.join(self._sut_dir, f"c16sut_{name}.py"), "w") as f:
                    f.write(textwrap.dedent(src).lstrip())
            sys.path.insert(0, self._sut_dir)
            import atexit
            atexit.register(self._close_children)
        module = importlib.import_module("c16sut_" + case["module"])
        out_cfg = config.configuration.test_case_output
        saved = (config.configuration.seeding.seed, out_cfg.maximum_mutants, out_cfg.maximum_mutation_time)
        seeds = []
        o_init = randomness.Random.__init__

        def init(rself, x=None):
            seeds.append(x if isinstance(x, int) and not isinstance(x, bool) else repr(x))
            o_init(rself, x)
        config.configuration.seeding.seed = case["seed"]
        out_cfg.maximum_mutants = case["cap"]
        out_cfg.maximum_mutation_time = -1
        randomness.Random.__init__ = init
        try:
            fps = []
            for _ in range(2):
                tree = ParentNodeTransformer.create_ast(inspect.getsource(module))
                mutator = gen._setup_mutant_generator()
                total = mutator.mutation_count(tree, module)
                sel = [f"{ms[0].operator.__name__}:{ms[0].visitor_name}:{getattr(ms[0].node, 'lineno', '?')}:"
                       + hashlib.sha1(ast.unparse(mutant).encode()).hexdigest()[:8]
                       for ms, mutant in mutator.mutate(tree, module)]
                fps.append(sel)
        finally:
            randomness.Random.__init__ = o_init
            config.configuration.seeding.seed, out_cfg.maximum_mutants, out_cfg.maximum_mutation_time = saved
        half = len(seeds) // 2
        return {"total": total, "selected": len(fps[0]), "seeds": seeds[:half], "seeds_again": seeds[half:],
                "same_twice": fps[0] == fps[1], "first": fps[0][:3]}

    # -- model -----------------------------------------------------------------------------------
    def model_line(self, case):
        if case.get("kind") == "sort":
            return vcommon.jdump({"sort": {"names": case["names"]}})
        if case.get("kind") == "pipeline":
            return None
        if case.get("kind") in ("render", "mutsel"):
            # the model is given what the implementation saw (iteration order of the sets / number of mutants)
            io = self._seen.get(id(case)) or self.impl(case)
            if case["kind"] == "render":
                return None if "err" in io else vcommon.jdump({"render": {"v": io["tree"]}})
            return vcommon.jdump({"subseed": {"seed": case["seed"], "total": io["total"], "cap": case["cap"]}})
        strip = lambda s: {"bound": s["bound"], "ty": s["ty"], "names": s["names"]}
        return vcommon.jdump({"append": {"c": {
            "self": {"stmts": [strip(s) for s in case["self"]["stmts"]], "counter": case["self"]["counter"]},
            "other": [strip(s) for s in case["other"]], "start": case["start"], "orders": case["orders"],
            "draws": case["draws"]}}})

    def compare(self, case, io, mo):
        if case.get("kind") == "sort":
            return io == mo
        if case.get("kind") == "render":
            if "err" in io or "sorted" not in mo:
                return False
            # the repaired renderer (elements in the order of their text) or the original one (hash order)
            if io["codes"][0] == mo["sorted"]:
                self.count("render:impl-emits-canonical-order")
                return True
            self.count("render:impl-emits-hash-order")
            return io["codes"][0] == mo["hashorder"]
        if case.get("kind") == "mutsel":
            return io["seeds"] == mo.get("seeds") and io["seeds_again"] == mo.get("seeds")
        out = io["out"]
        if "err" in out or "err" in mo:
            return out == mo
        if "rename" not in mo:
            return False
        m = dict(mo)
        m["rename"] = dict(reversed([tuple(p) for p in mo["rename"]]))
        m["dropped"] = sorted(set(mo["dropped"]))
        return out == m

    # -- oracle: the property on the implementation ----------------------------------------------
    def oracle(self, case, io):
        if case.get("kind") == "sort":
            return []
        if case.get("kind") == "pipeline":
            return self._oracle_pipeline(case, io)
        if case.get("kind") == "render":
            if "err" in io:
                return []
            for h, c in zip(io["hashseeds"][1:], io["codes"][1:]):
                if c != io["codes"][0]:
                    return [Failure(
                        {"where": "assertion_to_ast._value_to_cst", "class": "set-rendered-in-hash-order"},
                        "the text of an exact assertion on a value that contains a set depends on PYTHONHASHSEED: "
                        f"value {vcommon.jdump(case['value'])[:300]} is written as {io['codes'][0][:200]!r} under "
                        f"PYTHONHASHSEED={io['hashseeds'][0]} and as {c[:200]!r} under PYTHONHASHSEED={h}",
                        detail={"hashseeds": io["hashseeds"], "codes": io["codes"]})]
            return []
        if case.get("kind") == "mutsel":
            if not io["same_twice"]:
                return [Failure({"where": "FirstOrderMutator._select_mutations", "class": "same-seed-different-sample"},
                                f"the mutant generator of seed {case['seed']} with --maximum-mutants {case['cap']} selects "
                                f"different mutants of module {case['module']} when asked twice")]
            return []
        fs = []
        for alt, orders in zip(io["alts"], case.get("alt_orders", [])):
            if alt != io["out"]:
                fs.append(Failure(
                    {"where": "TestCase.append_test_case_from", "class": "hash-order-dependent"},
                    "crossover offspring depends on the iteration order of Statement.used_variables() "
                    f"(a frozenset[str], ordered by PYTHONHASHSEED): orders {case['orders']} give "
                    f"{vcommon.jdump(io['out'])[:300]} but orders {orders} give {vcommon.jdump(alt)[:300]}",
                    detail={"orders_a": case["orders"], "out_a": io["out"], "orders_b": orders, "out_b": alt}))
                break
        return fs

    def classify(self, case, io):
        k = case.get("kind")
        self.count(f"kind:{k}")
        if k == "sort":
            return vcommon.jdump(case) if len(set(case["names"])) > 1 else None
        if k == "pipeline":
            return vcommon.jdump(case)
        if k == "render":
            if "err" in io:
                self.count("render:not-renderable")
                return None
            if len(set(io["codes"])) > 1:
                self.count("render:differs-between-hashseeds")
            return vcommon.jdump(case) if _has_set(case["value"]) else None
        if k == "mutsel":
            self.count("mutsel:sampled" if io["seeds"] else "mutsel:all-mutants")
            return vcommon.jdump(case) if io["seeds"] else None
        out = io["out"]
        if "err" in out:
            self.count("append:out-of-draws")
            return vcommon.jdump({k2: case[k2] for k2 in ("self", "other", "start", "draws")})
        consumed = len(case["draws"]) - out["draws_left"]
        if consumed:
            self.count("append:draws-consumed")
        if out["dropped"]:
            self.count("append:dropped-statement")
        if any(len(o) > 1 for o in case["orders"]):
            self.count("append:multi-name-statement")
        if len(out["stmts"]) > len(case["self"]["stmts"]):
            self.count("append:appended")
        if consumed or out["dropped"]:
            return vcommon.jdump({k2: case[k2] for k2 in ("self", "other", "start", "draws")})
        return None

    # -- pipeline runs ---------------------------------------------------------------------------
    @staticmethod
    def _argv(proj, out, job):
        return ["--project-path", proj, "--module-name", job["module"], "--output-path", out,
                "--algorithm", job["algorithm"], "--maximum-iterations", str(job["iterations"]),
                "--seed", str(job["seed"]),
                "--use-master-worker", "False", "--local-search-time", "3600000",
                "--maximum-test-execution-timeout", "90", "--test-execution-time-per-statement", "30",
                *job.get("extra", [])]

    def _prepare(self, tmp):
        proj = os.path.join(tmp, "proj")
        os.makedirs(proj, exist_ok=True)
        for name, src in SUTS.items():
            with open(os.path.join(proj, name + ".py"), "w") as f:
                f.write(textwrap.dedent(src).lstrip())
        with open(os.path.join(tmp, "server.py"), "w") as f:
            f.write(SERVER)

    def _run_server(self, tmp, tag, hashseed, runs):
        """runs: list of (job, perturb); one interpreter with this PYTHONHASHSEED, one fork per run.
        Returns a report per run."""
        d = os.path.join(tmp, f"g{tag}")
        os.makedirs(d)
        spec = []
        for i, (j, perturb) in enumerate(runs):
            out = os.path.join(d, f"out{i}")
            spec.append({"argv": self._argv(os.path.join(tmp, "proj"), out, j),
                         "report": os.path.join(d, f"rep{i}.json"), "out": out, "perturb": perturb,
                         "mode": j.get("mode", "run"), "n": j.get("n", 0), "muts": j.get("muts", 0)})
        with open(os.path.join(d, "jobs.json"), "w") as f:
            json.dump(spec, f)
        env = dict(os.environ, C16_SRC=str(vcommon.REPO / "src"), C16_JOBS=os.path.join(d, "jobs.json"),
                   PYTHONHASHSEED=str(hashseed), PYNGUIN_DANGER_AWARE="1")
        env.pop("PYTHONPATH", None)
        deadline = int(os.environ.get("C16_JOB_DEADLINE", "900"))
        env["C16_JOB_DEADLINE"] = str(deadline)
        proc = subprocess.Popen([vcommon.PY, os.path.join(tmp, "server.py")], env=env, stdout=subprocess.PIPE,
                                stderr=subprocess.PIPE, text=True, cwd=tmp, start_new_session=True)
        try:
            _, err = proc.communicate(timeout=len(runs) * (deadline + 30) + 300)
        except subprocess.TimeoutExpired:
            import signal
            try:
                os.killpg(proc.pid, signal.SIGKILL)
            except OSError:
                pass
            proc.communicate()
            raise
        r = subprocess.CompletedProcess(proc.args, proc.returncode, "", err)
        reps = []
        for (j, perturb), sp in zip(runs, spec):
            if not os.path.exists(sp["report"]):
                tail = ""
                if os.path.exists(sp["report"] + ".out"):
                    with open(sp["report"] + ".out", errors="replace") as f:
                        tail = f.read()[-1200:]
                raise RuntimeError(f"pipeline run {j} (PYTHONHASHSEED={hashseed}) produced no report; "
                                   f"server rc={r.returncode} {r.stderr[-800:]} {tail}")
            with open(sp["report"]) as f:
                rep = json.load(f)
            if j.get("mode", "run") != "run" and rep["rc"] not in (0, "deadline"):
                raise RuntimeError(f"{j.get('mode')} history {j} (PYTHONHASHSEED={hashseed}) failed: {rep['rc']}")
            files = {}
            if os.path.isdir(sp["out"]):
                for fn in sorted(os.listdir(sp["out"])):
                    p = os.path.join(sp["out"], fn)
                    if os.path.isfile(p):
                        with open(p, "rb") as f:
                            files[fn] = f.read().decode("utf-8", "replace")
            rep["files"] = files
            rep["logfile"] = sp["report"] + ".log"
            rep["variant"] = {"hashseed": hashseed, "perturb": perturb}
            reps.append(rep)
        return reps

    @staticmethod
    def _first_divergence(a, b):
        with open(a["logfile"]) as f:
            la = json.load(f)
        with open(b["logfile"]) as f:
            lb = json.load(f)
        k = next((i for i, (x, y) in enumerate(zip(la["log"], lb["log"])) if x != y),
                 min(len(la["log"]), len(lb["log"])))
        ra = la["log"][k] if k < len(la["log"]) else None
        rb = lb["log"][k] if k < len(lb["log"]) else None
        stage = None
        for (n1, c1), (n2, c2) in zip(la["stages"], lb["stages"]):
            if c1 != c2:
                stage = n1
                break
        return {"index": k, "a": ra, "b": rb, "first_differing_stage": stage,
                "log_lengths": [len(la["log"]), len(lb["log"])]}

    @staticmethod
    def _site_of(rec):
        if rec is None:
            return "end-of-log"
        if rec[0] == "stage":
            return "stage:" + rec[1]
        if rec[0] == "timeout":
            return "execution-timeout(size=%s)" % rec[1]
        return f"{rec[0]}@{re.sub(r':[0-9]+$', '', rec[1])}"

    @staticmethod
    def _canon_set_displays(files):
        """The files with the elements of every set display put into a canonical order (None if a file
        does not parse): equal results = the files differ in nothing but the order inside `{...}`."""
        import ast

        class Canon(ast.NodeTransformer):
            def visit_Set(self, node):
                self.generic_visit(node)
                node.elts = sorted(node.elts, key=ast.dump)
                return node
        out = {}
        for fn, text in files.items():
            if not fn.endswith(".py"):
                out[fn] = text
                continue
            try:
                out[fn] = ast.dump(Canon().visit(ast.parse(text)))
            except SyntaxError:
                return None
        return out

    def _judge(self, job, reps):
        """Compare the runs of one configuration. Returns (summary, failures)."""
        base = reps[0]
        mode = job.get("mode", "run")
        summary = {"identical_files": True, "identical_logs": True, "rcs": [r["rc"] for r in reps],
                   "nlog": base["nlog"], "file_bytes": sum(len(v) for v in base["files"].values())}
        fs = []
        for r in reps:
            if r["wallclock_timeouts"]:  # an execution really ran into the (huge) wall-clock limit: environment
                summary["discarded"] = "wall-clock-timeout"
                return summary, []
        for r in reps[1:]:
            same_files = r["files"] == base["files"] and r["rc"] == base["rc"]
            same_log = r["log_sha"] == base["log_sha"]
            if not same_log:
                summary["identical_logs"] = False
                if same_files and "log_divergence" not in summary:
                    d = self._first_divergence(base, r)
                    summary["log_divergence"] = {"variants": [base["variant"], r["variant"]], "index": d["index"],
                                                 "a": d["a"], "b": d["b"], "log_lengths": d["log_lengths"]}
            if same_files:
                continue
            summary["identical_files"] = False
            div = self._first_divergence(base, r)
            factor = ("schedule" if r["variant"]["perturb"] != base["variant"]["perturb"] else
                      "hashseed" if r["variant"]["hashseed"] != base["variant"]["hashseed"] else "repeat")
            site = self._site_of(div["a"] if div["a"] is not None else div["b"])
            if site == "end-of-log" and r["rc"] == base["rc"]:
                # same RNG history, same suite snapshots up to the export: what differs is the text
                ca, cb = self._canon_set_displays(base["files"]), self._canon_set_displays(r["files"])
                if ca is not None and ca == cb:
                    site = "export:set-display-order"
            diff, full = [], []
            for fn in sorted(set(base["files"]) | set(r["files"])):
                d = list(difflib.unified_diff(base["files"].get(fn, "").splitlines(),
                                              r["files"].get(fn, "").splitlines(),
                                              f"{fn}@{base['variant']}", f"{fn}@{r['variant']}", lineterm="", n=1))
                diff += d[:30]
                full += d
            if any(l[:1] in "+-" and not l.startswith(("+++", "---")) and _ADDRESS.search(l) for l in full):
                # an exported assertion compares with a text that embeds an object address
                # (`<function <lambda> at 0x7f…>`): it survives pynguin's flaky-assertion filter only when the
                # address happens to coincide in the filtering subprocess -- a defect of its own class
                factor, site = "memory-address", "export:assertion-on-memory-address"
            summary["first_divergence"] = div
            where = {"run": "pipeline", "factory": "factory-history", "mutsel": "mutant-selection"}[mode]
            what = {"run": "writes different test files",
                    "factory": "(set-up and chromosome factory only, no execution: %s random test cases, %s "
                               "mutations/crossovers) builds different test cases" % (job.get("n"), job.get("muts")),
                    "mutsel": "(mutant generator of this configuration only) selects different mutants"}[mode]
            seeds = ""
            if base.get("seeds") != r.get("seeds"):
                seeds = f"; PRNG streams were seeded with {base.get('seeds')} vs {r.get('seeds')}"
            fs.append(Failure(
                {"where": where, "factor": factor, "first_divergence": site},
                f"pynguin --module-name {job['module']} --algorithm {job['algorithm']} --maximum-iterations "
                f"{job['iterations']} --seed {job['seed']} {' '.join(job.get('extra', []))} {what} under "
                f"{base['variant']} and {r['variant']}; first divergent record #{div['index']}: {div['a']} vs "
                f"{div['b']} (first differing suite snapshot: {div['first_differing_stage']}){seeds}; "
                f"diff: {' | '.join(diff[2:8])[:400]}",
                case={"kind": "pipeline", "job": job, "variants": [base["variant"], r["variant"]]},
                detail={"divergence": div, "diff": diff[:60], "seeds": [base.get("seeds"), r.get("seeds")]}))
            break
        return summary, fs

    def _pipeline(self, plan, workers):
        """plan: [(job, [variant])], variant = dict(hashseed, perturb).  One server interpreter per
        (PYTHONHASHSEED, chunk); returns [(job, reps, judgement)]."""
        tmp = tempfile.mkdtemp(prefix="c16-")
        try:
            self._prepare(tmp)
            cost = {"run": 10, "factory": 4, "mutsel": 1}
            by_hash = {}
            for ji, (job, variants) in enumerate(plan):
                for vi, v in enumerate(variants):
                    by_hash.setdefault(v["hashseed"], []).append((ji, vi))
            total = sum(len(x) for x in by_hash.values())
            tasks = []
            for h, runs in sorted(by_hash.items()):
                k = max(1, min(len(runs), round(workers * len(runs) / max(total, 1))))
                runs = sorted(runs, key=lambda r: -cost[plan[r[0]][0].get("mode", "run")])
                for c in range(k):
                    tasks.append((h, runs[c::k]))
            def serve(t):
                i, (h, runs) = t
                return self._run_server(tmp, f"{i}-{h}", h, [(plan[ji][0], plan[ji][1][vi]["perturb"]) for ji, vi in runs])
            with concurrent.futures.ThreadPoolExecutor(max_workers=max(workers, 1)) as ex:
                results = list(ex.map(serve, enumerate(tasks)))
            got = {}
            for (h, runs), reps in zip(tasks, results):
                for (ji, vi), rep in zip(runs, reps):
                    got[ji, vi] = rep
            out = []
            for ji, (job, variants) in enumerate(plan):
                reps = [got[ji, vi] for vi in range(len(variants))]
                out.append((job, reps, self._judge(job, reps)))
            return out
        finally:
            shutil.rmtree(tmp, ignore_errors=True)

    def _plan(self):
        """The configurations of this run with their variants.  [0] vs [1]: PYTHONHASHSEED only; [0] vs [2]:
        schedule only (both schedules are semantically neutral sleeps)."""
        h = 1 + 2 * self.seed
        quick = self.tier == "quick"
        cap = ["--maximum-mutants", str(8 + self.seed % 5)]
        if quick:
            base = [(m, a, it, cap if x == "cap" else x) for (m, a, it, x) in QUICK_JOBS]
        else:
            base = []
            for m in SUTS:
                for k, (a, it) in enumerate(ALGOS_T):
                    x = SIMPLE if m == "tagsets" else cap if m == "calc" else [[], SIMPLE, cap][(k + len(base)) % 3]
                    base.append((m, a, it, x))
            # every third configuration (rotating with the seed): the full 75 x 4 pipeline runs take far more
            # than the 15-20 min a thorough tier may use; VERIF_SEED=0,1,2 together cover all of them
            base = [b for i, b in enumerate(base) if (i + self.seed) % 3 == 0]
        jobs = []
        for r in range(1 if quick else 2):
            for i, (m, a, it, x) in enumerate(base):
                if r == 1 and m not in ("hof", "tagsets", "calc", "hard"):
                    continue  # a second search seed only for these modules
                jobs.append({"module": m, "algorithm": a, "iterations": it, "extra": list(x),
                             "seed": 1 + self.seed * 7919 + 31 * i + 1009 * r})
        n = os.environ.get("VERIF_RUNS")
        jobs = jobs[:int(n)] if n else jobs
        plan = []
        for i, j in enumerate(jobs):
            v = [{"hashseed": h, "perturb": "main-slow"}, {"hashseed": h + 1, "perturb": "main-slow"}]
            if not quick or (i < 4 and (i + self.seed) % 2 == 0):
                v.append({"hashseed": h, "perturb": "thread-slow"})
            if not quick:
                v.append({"hashseed": h + 1000, "perturb": None})
            plan.append((j, v))
        if n is None or int(n) > 0:
            hv = [{"hashseed": h, "perturb": None}, {"hashseed": h + 1, "perturb": None}]
            if not quick:
                hv.append({"hashseed": h + 1000, "perturb": None})
            fact = QUICK_FACTORY if quick else [(m, 40, 150) for m in SUTS]
            for i, (m, npop, muts) in enumerate(fact):
                plan.append(({"mode": "factory", "module": m, "algorithm": "DYNAMOSA", "iterations": 1, "extra": [],
                              "seed": 11 + self.seed * 104729 + 17 * i, "n": npop, "muts": muts}, hv))
            sel = QUICK_MUTSEL if quick else [(m, c) for m in SUTS for c in (3, 12)]
            for i, (m, c) in enumerate(sel):
                plan.append(({"mode": "mutsel", "module": m, "algorithm": "DYNAMOSA", "iterations": 1,
                              "extra": ["--maximum-mutants", str(c + self.seed % 3)],
                              "seed": 5 + self.seed * 613 + i}, hv))
        return plan

    def extra_checks(self):
        plan = self._plan()
        if not plan:
            return []
        workers = int(os.environ.get("VERIF_WORKERS", 8 if self.tier == "quick" else 12))
        stats = {"configurations": 0, "runs": 0, "identical_files": 0, "identical_logs": 0, "discarded": 0,
                 "rng_calls": 0, "file_bytes": 0, "nonzero_rc": 0,
                 "hashseeds": sorted({v["hashseed"] for _, vs in plan for v in vs}),
                 "factory_histories": 0, "mutant_selections": 0}
        fs = []
        run_bytes = 0
        for j, reps, (summary, failures) in self._pipeline(plan, workers):
            mode = j.get("mode", "run")
            if mode == "run":
                stats["configurations"] += 1
                stats["runs"] += len(reps)
                self.count(f"run:{j['algorithm']}", len(reps))
                self.count(f"module:{j['module']}", len(reps))
                self.count("run-option:" + (" ".join(j.get("extra", [])[:2]) or "(defaults)"), len(reps))
            else:
                stats["factory_histories" if mode == "factory" else "mutant_selections"] += len(reps)
                self.count(f"{mode}:{j['module']}", len(reps))
            stats.setdefault("wall_s", []).append(
                [f"{mode}:{j['module']}:{j['algorithm']}", [r.get("wall_s") for r in reps]])
            if "discarded" in summary:
                stats["discarded"] += 1
                continue
            stats["identical_files"] += summary["identical_files"]
            stats["identical_logs"] += summary["identical_logs"]
            if "log_divergence" in summary:  # files identical, recorder logs not: reported, not a violation
                stats.setdefault("benign_log_divergences", []).append(dict(summary["log_divergence"], job=j))
            stats["rng_calls"] += summary["nlog"]
            stats["file_bytes"] += summary["file_bytes"]
            run_bytes += summary["file_bytes"] if mode == "run" else 0
            stats["nonzero_rc"] += any(rc != 0 for rc in summary["rcs"])
            if summary["identical_files"] and summary["file_bytes"] > 0:
                self.nontrivial.add(hashlib.sha1(vcommon.jdump(j).encode()).hexdigest())
            fs += failures
            self.evaluations += len(reps)
        if stats["configurations"] and run_bytes == 0:
            raise RuntimeError("no pipeline run wrote a test file — the history tie is vacuous")
        self.extra_coverage["real_runs"] = stats
        return fs

    # replay support for pipeline failures
    def _impl_pipeline(self, case):
        res = self._pipeline([(case["job"], case["variants"])], 2)
        (j, reps, (summary, failures)) = res[0]
        self._replay_failures = failures
        return {k: summary.get(k) for k in ("identical_files", "identical_logs", "rcs", "first_divergence")}

    def _oracle_pipeline(self, case, io):
        return list(getattr(self, "_replay_failures", []))


if __name__ == "__main__":
    run_main(C16)
