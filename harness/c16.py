"""C16 — The same seed and budget reproduce the same test suite.

Two ties to the code (design_notes/C16.md):

1. In-process correspondence with `Driver/C16.lean` (model `Model/Repro.lean`, Part B): random
   receivers/donors/split points for the REAL `TestCase.append_test_case_from` (single-point
   crossover), real libcst statements, `randomness.choice` fed from the case's draw list, and the hash
   iteration order of every `Statement.used_variables()` frozenset *chosen by the case* (a frozenset
   subclass whose `__iter__` yields the given permutation — exactly the freedom PYTHONHASHSEED has).
   The oracle re-runs the real code under other permutations: the offspring must not change.
   `sort` cases tie `sortNames` to Python's `sorted` on identifier strings.

2. Pipeline histories (`extra_checks`): whole Pynguin runs (`pynguin.cli.main`) on small deterministic
   modules in child interpreters, one server process per PYTHONHASHSEED which imports pynguin once and
   forks once per run (a run starts from the state "pynguin imported", nothing else).  Every run
   carries an RNG-call recorder on `randomness.RNG` (call, call site, len / order-insensitive hash /
   order-sensitive hash of the candidate sequence, hash of the result) and suite snapshots around
   assertion generation, minimisation and export.  Runs of one configuration are compared pairwise:
   same seed & configuration under different hash seeds, and under two *schedule perturbations*
   (a sleep before every zero-timeout `Thread.join` of the executor resp. a late start of the thread
   that executes an empty test case — both semantically neutral).  The
   written files must be byte-identical; on a difference the first divergent record names the place.
   Wall-clock inner budgets (per-statement execution timeout, local-search time) are set so high
   that they cannot fire: the property is about iteration-bounded budgets.
"""
from __future__ import annotations

import concurrent.futures
import difflib
import hashlib
import json
import os
import re
import shutil
import subprocess
import sys
import tempfile
import textwrap

sys.path.insert(0, os.path.dirname(os.path.abspath(__file__)))
import vcommon  # noqa: E402
from vcommon import Failure, PropertyCheck, run_main  # noqa: E402

# ---------------------------------------------------------------------------------------------
# modules under test for the pipeline runs (deterministic, small, not fully coverable at once)
# ---------------------------------------------------------------------------------------------
SUTS = {
    "tiny": '''
        def classify(x: int, y: int) -> int:
            if x > y:
                return 1
            if x == y:
                return 0
            return -1


        def ratio(a: int, b: int) -> float:
            if b == 0:
                return 0.0
            return a / b
        ''',
    "hard": '''
        def gate(x: int, y: int, s: str) -> int:
            if x == 48213 and y == -77123:
                if s == "open sesame":
                    return 3
                return 2
            if x > y:
                if s.startswith("ab"):
                    return 1
                return 0
            return -1


        def bucket(v: float, lo: float, hi: float) -> str:
            if lo > hi:
                lo, hi = hi, lo
            if v < lo:
                return "below"
            if v > hi:
                return "above"
            if v == 1234.5:
                return "magic"
            return "inside"
        ''',
    "acct": '''
        class BadAmount(Exception):
            pass


        class InsufficientFunds(Exception):
            pass


        class Account:
            def __init__(self, owner: str, balance: int = 0) -> None:
                self.owner = owner
                self.balance = balance
                self.log: list[int] = []

            def deposit(self, amount: int) -> int:
                if amount <= 0:
                    raise BadAmount("amount")
                self.balance += amount
                self.log.append(amount)
                return self.balance

            def withdraw(self, amount: int) -> int:
                if amount > self.balance:
                    raise InsufficientFunds("funds")
                if amount == 31337:
                    self.log.clear()
                self.balance -= amount
                self.log.append(-amount)
                return self.balance

            def transfer(self, other: "Account", amount: int) -> bool:
                if other is self:
                    return False
                if len(self.log) > 3 and other.balance > 1000:
                    return False
                self.withdraw(amount)
                other.deposit(amount)
                return True


        def richest(a: Account, b: Account) -> Account:
            if a.balance >= b.balance:
                return a
            return b
        ''',
    "coll": '''
        def longest(words: list[str]) -> str:
            best = ""
            for w in words:
                if len(w) > len(best):
                    best = w
            if best == "pneumonoultramicroscopic":
                return "!"
            return best


        def merge(a: dict[str, int], b: dict[str, int]) -> dict[str, int]:
            out = dict(a)
            for k, v in b.items():
                if k in out:
                    out[k] += v
                else:
                    out[k] = v
            if len(out) > 5 and "zeta" in out:
                out.pop("zeta")
            return out


        def span(t: tuple[int, int], s: set[int]) -> int:
            lo, hi = t
            n = 0
            for x in sorted(s):
                if lo <= x <= hi:
                    n += 1
            if n == 7:
                return -1
            return n
        ''',
    "shapes": '''
        import enum
        from dataclasses import dataclass


        class Kind(enum.Enum):
            CIRCLE = 1
            SQUARE = 2
            TRI = 3


        @dataclass
        class Shape:
            kind: Kind
            size: float

            def area(self) -> float:
                if self.kind is Kind.CIRCLE:
                    return 3.0 * self.size * self.size
                if self.kind is Kind.SQUARE:
                    return self.size * self.size
                return self.size * self.size / 2.0

            def scaled(self, k: float) -> "Shape":
                if k <= 0:
                    raise ValueError("k")
                if k == 2.5 and self.kind is Kind.TRI:
                    return Shape(Kind.SQUARE, self.size)
                return Shape(self.kind, self.size * k)


        def bigger(a: Shape, b: Shape) -> Shape:
            if a.area() > b.area():
                return a
            return b


        def describe(s: Shape, verbose: bool = False) -> str:
            base = s.kind.name.lower()
            if verbose:
                if s.size > 100:
                    return base + ":huge"
                return base + ":" + str(int(s.size))
            return base
        ''',
    "strs": '''
        def tokens(text: str, sep: str = ",") -> list[str]:
            if not sep:
                raise ValueError("sep")
            out = []
            for part in text.split(sep):
                part = part.strip()
                if part:
                    out.append(part)
            if len(out) == 4 and out[0] == "key":
                out.reverse()
            return out


        def mask(s: str, keep: int) -> str:
            if keep < 0:
                raise ValueError("keep")
            if keep >= len(s):
                return s
            if s.endswith("@example.org"):
                return "*" * len(s)
            return s[:keep] + "*" * (len(s) - keep)


        def is_version(s: str) -> bool:
            parts = s.split(".")
            if len(parts) != 3:
                return False
            for p in parts:
                if not p.isdigit():
                    return False
            return parts[0] != "0"
        ''',
    "stack": '''
        class Stack:
            def __init__(self, limit: int = 4) -> None:
                self.items: list[int] = []
                self.limit = limit

            def push(self, x: int) -> None:
                if len(self.items) >= self.limit:
                    raise OverflowError("full")
                self.items.append(x)

            def pop(self) -> int:
                if not self.items:
                    raise IndexError("empty")
                return self.items.pop()

            def peek(self) -> int | None:
                if self.items:
                    return self.items[-1]
                return None

            def drain(self, other: "Stack") -> int:
                n = 0
                while other.items and len(self.items) < self.limit:
                    self.items.append(other.items.pop())
                    n += 1
                if n == 3 and self.items[0] == 99:
                    self.items.clear()
                return n


        def total(s: Stack, bonus: float = 0.0) -> float:
            t = bonus
            for x in s.items:
                t += x
            if t > 1000:
                return 1000.0
            return t
        ''',
    "opt": '''
        from typing import Optional


        def pick(a: Optional[int], b: Optional[str] = None, *rest: int) -> str:
            if a is None:
                if b is None:
                    return "none"
                return b
            if rest:
                if sum(rest) == a:
                    return "sum"
                return "rest"
            if b is not None and len(b) == a:
                return "len"
            return str(a)


        def clamp(x: int | float, lo: int = 0, hi: int = 10) -> int | float:
            if lo > hi:
                raise ValueError("bounds")
            if x < lo:
                return lo
            if x > hi:
                return hi
            if isinstance(x, float) and x == 5.5:
                return 5
            return x
        ''',
}

# (module, algorithm, iterations); the search seed is derived from VERIF_SEED and the job index
QUICK_JOBS = [
    ("hard", "DYNAMOSA", 6), ("acct", "MIO", 60), ("coll", "MOSA", 6), ("shapes", "WHOLE_SUITE", 5),
]
ALGOS_T = [("DYNAMOSA", 8), ("MOSA", 8), ("MIO", 80), ("WHOLE_SUITE", 6), ("RANDOM", 30)]

SERVER = r'''
import hashlib, json, os, re, sys, threading, time
sys.path.insert(0, os.environ["C16_SRC"])
os.environ.setdefault("PYNGUIN_DANGER_AWARE", "1")
import pynguin.utils.randomness as randomness

LOG = []
STAGES = []
_DEPTH = [0]
_ADDR = re.compile(r"0x[0-9a-fA-F]+")
_SKIP = (os.sep + "random.py", os.sep + "randomness.py")

def _sha(s):
    return hashlib.sha1(s.encode("utf-8", "replace")).hexdigest()[:10]

def _rep(x):
    try:
        return _ADDR.sub("0x", repr(x))[:400]
    except Exception as e:
        return "<unrepr " + type(e).__name__ + ">"

def _site():
    f = sys._getframe(2)
    while f is not None and (f.f_code.co_filename.endswith(_SKIP) or f.f_code.co_filename == __file__):
        f = f.f_back
    if f is None:
        return "?"
    fn = f.f_code.co_filename
    i = fn.rfind("pynguin" + os.sep)
    return (fn[i:] if i >= 0 else os.path.basename(fn)) + ":" + str(f.f_lineno)

def _seqinfo(seq):
    try:
        items = [_rep(x) for x in seq]
    except Exception:
        return [-1, "?", "?"]
    return [len(items), _sha("\x00".join(sorted(items))), _sha("\x00".join(items))]

def _wrap(name, seqarg):
    base = getattr(randomness.Random, name)
    def method(self, *a, **k):
        if _DEPTH[0]:
            return base(self, *a, **k)
        rec = [name, _site()]
        if seqarg and a:
            rec += _seqinfo(a[0])
        else:
            rec += [_rep(a)]
        _DEPTH[0] += 1
        try:
            r = base(self, *a, **k)
        finally:
            _DEPTH[0] -= 1
        rec.append(_sha(_rep(r)) if name != "shuffle" else _sha(_rep(list(a[0]))))
        LOG.append(rec)
        return r
    method.__name__ = name
    return method

class RecRandom(randomness.Random):
    pass

for _n, _s in (("choice", True), ("choices", True), ("sample", True), ("shuffle", True),
               ("randrange", False), ("randint", False), ("uniform", False), ("gauss", False),
               ("random", False), ("getrandbits", False), ("betavariate", False), ("triangular", False),
               ("normalvariate", False), ("expovariate", False)):
    setattr(RecRandom, _n, _wrap(_n, _s))
randomness.RNG.__class__ = RecRandom

import pynguin.cli
import pynguin.generator as gen
import pynguin.testcase.execution as ex

def _suite_code(suite):
    try:
        return [c.test_case.to_code() for c in suite.test_case_chromosomes]
    except Exception as e:
        return ["<" + type(e).__name__ + ">"]

def _stage(name):
    orig = getattr(gen, name)
    def wrapper(*a, **k):
        suite = next((x for x in a if hasattr(x, "test_case_chromosomes")), None)
        if suite is not None:
            code = _suite_code(suite)
            LOG.append(["stage", "before" + name, len(code), _sha("\x01".join(code))])
            STAGES.append(["before" + name, code])
        r = orig(*a, **k)
        if suite is not None:
            code = _suite_code(suite)
            LOG.append(["stage", "after" + name, len(code), _sha("\x01".join(code))])
            STAGES.append(["after" + name, code])
        return r
    setattr(gen, name, wrapper)

for _n in ("_track_search_metrics", "_generate_assertions", "_minimize", "_export_chromosome"):
    if hasattr(gen, _n):
        _stage(_n)

_o_execute = ex.TestCaseExecutor.execute
WALLCLOCK = []
def _execute(self, test_case, *a, **k):
    t0 = time.monotonic()
    r = _o_execute(self, test_case, *a, **k)
    if r.timeout:
        # timeout=True is also how the executor reports e.g. ModuleNotImportedError (deterministic)
        LOG.append(["timeout", test_case.size(), _sha(test_case.to_code())])
        if time.monotonic() - t0 > 100:
            WALLCLOCK.append([test_case.size(), round(time.monotonic() - t0, 1), test_case.to_code()[:200]])
    return r
ex.TestCaseExecutor.execute = _execute

PERTURB = [None]
_o_join = threading.Thread.join
def _join(self, timeout=None):
    # schedule "main-slow": let the other thread finish before a join that does not wait at all
    if PERTURB[0] == "main-slow" and timeout is not None and timeout <= 0:
        if sys._getframe(1).f_code.co_filename.endswith(os.path.join("testcase", "execution.py")):
            time.sleep(0.05)
    return _o_join(self, timeout)
threading.Thread.join = _join

_o_start = threading.Thread.start
def _start(self):
    # schedule "thread-slow": the thread executing an EMPTY test case starts 50 ms late
    if PERTURB[0] == "thread-slow":
        tgt = getattr(self, "_target", None)
        args = getattr(self, "_args", ())
        if (tgt is not None and getattr(tgt, "__name__", "") == "_execute_test_case" and args
                and hasattr(args[0], "size") and args[0].size() == 0):
            def slow(*a, _t=tgt, **k):
                time.sleep(0.05)
                return _t(*a, **k)
            self._target = slow
    return _o_start(self)
threading.Thread.start = _start

def one_job(job):
    LOG.clear(); STAGES.clear(); WALLCLOCK.clear()
    PERTURB[0] = job.get("perturb")
    rc = None
    try:
        rc = pynguin.cli.main([sys.argv[0], *job["argv"]])
    except SystemExit as e:
        rc = e.code
    except BaseException as e:
        import traceback
        rc = "exc:" + type(e).__name__ + ":" + str(e)[:300] + traceback.format_exc()[-800:]
    try:
        rc = int(rc)
    except Exception:
        rc = str(rc)
    with open(job["report"] + ".log", "w") as f:
        json.dump({"log": LOG, "stages": STAGES}, f)
    with open(job["report"], "w") as f:
        json.dump({"rc": rc, "nlog": len(LOG), "log_sha": _sha(json.dumps(LOG)),
                   "timeouts": sum(1 for r in LOG if r[0] == "timeout"), "wallclock_timeouts": WALLCLOCK[:5],
                   "hashseed": os.environ.get("PYTHONHASHSEED")}, f)

def main():
    with open(os.environ["C16_JOBS"]) as f:
        jobs = json.load(f)
    for job in jobs:
        pid = os.fork()
        if pid == 0:
            code = 0
            try:
                out = os.open(job["report"] + ".out", os.O_WRONLY | os.O_CREAT | os.O_TRUNC)
                os.dup2(out, 1); os.dup2(out, 2)
                one_job(job)
            except BaseException:
                code = 3
            finally:
                os._exit(code)
        os.waitpid(pid, 0)

main()
'''

# ---------------------------------------------------------------------------------------------
# in-process part: TestCase.append_test_case_from under a chosen hash order
# ---------------------------------------------------------------------------------------------
VARS = [f"var_{i}" for i in range(13)]
OTHER_NAMES = ["f", "g", "h", "mod_", "Var_1", "_x", "zeta", "été", "A", "var_", "var_1_"]
_IDENT = re.compile(r"[^\W\d]\w*")


class PermFrozenSet(frozenset):
    """A frozenset that iterates in a given order — the freedom the hash seed has."""

    def __new__(cls, order):
        o = super().__new__(cls, order)
        o._order = tuple(order)
        return o

    def __iter__(self):
        return iter(self._order)


class _OutOfDraws(Exception):
    pass


def stmt_code(s) -> str:
    names = s["names"]
    form = s.get("form", "call")
    if not names:
        expr = "0"
    elif form == "attr" and len(names) >= 2:
        expr = f"{names[0]}.{names[1]}({', '.join(names[2:])})"
    elif form == "kw" and len(names) >= 3:
        expr = f"{names[0]}({', '.join(names[1:-2] + [names[-2] + '=' + names[-1]])})"
    else:
        expr = f"{names[0]}({', '.join(names[1:])})"
    return f"{s['bound']} = {expr}" if s["bound"] is not None else expr


class C16(PropertyCheck):
    prop_id = "C16"
    level = "proof"
    prop_modules = ["PynguinModel.Props.C16"]
    extra_modules = ["PynguinModel.Model.Repro"]
    driver = "Driver/C16.lean"
    n_quick = 500
    n_thorough = 20000
    n_search = 3000
    rule = ("in-process cases: random receiver/donor/split/draws/hash orders for the real "
            "TestCase.append_test_case_from, non-trivial = at least one draw consumed or one statement "
            "dropped; pipeline runs: whole pynguin runs compared under different PYTHONHASHSEEDs and "
            "schedules (counted in real_runs)")
    assumptions = [
        "whole-program fact NOT proved: that every draw-consuming choice point of pynguin iterates an "
        "ordered collection; the pipeline runs search for counterexamples",
        "wall-clock inner budgets (execution timeout per statement, local-search time) are configured so "
        "large that they never fire; iteration budgets only; master/worker off",
        "a forked child of an interpreter that has only imported pynguin counts as a fresh interpreter",
    ]
    trusted_base_extra = [
        "RNG-call recorder and suite snapshots installed by monkeypatching in the child interpreters",
        "PermFrozenSet (frozenset subclass with a chosen iteration order) stands for hash-seed freedom",
    ]

    # -- generators ------------------------------------------------------------------------------
    def _gen_stmt(self, rng, bound_pool, name_pool):
        bound = rng.choice(bound_pool) if rng.random() < 0.7 else None
        k = rng.choice([0, 1, 2, 2, 3, 3, 4])
        names = [rng.choice(name_pool) for _ in range(k)]
        ty = rng.choice([0, 0, 1, 1, 2, 3]) if (bound is not None and rng.random() < 0.85) else None
        form = rng.choice(["call", "call", "attr", "kw"])
        return {"bound": bound, "ty": ty, "names": names, "form": form}

    def gen_case(self, rng):
        if rng.random() < 0.06:
            pool = VARS + OTHER_NAMES
            return {"kind": "sort", "names": [rng.choice(pool) for _ in range(rng.randrange(0, 9))]}
        nself = rng.choice([0, 1, 2, 3, 3, 4, 4, 5, 6])
        unique = rng.random() < 0.8
        self_stmts = []
        for i in range(nself):
            s = self._gen_stmt(rng, [VARS[i]] if unique else VARS[:4], VARS[:max(i, 1)] + OTHER_NAMES[:3])
            if unique and s["bound"] is None and rng.random() < 0.7:
                s["bound"], s["ty"] = VARS[i], rng.choice([0, 0, 1, 2])
            self_stmts.append(s)
        counter = nself if rng.random() < 0.8 else rng.randrange(0, 8)
        nother = rng.choice([1, 2, 3, 4, 5, 6, 7, 8])
        other = []
        for i in range(nother):
            s = self._gen_stmt(rng, [VARS[i]] if unique else VARS[:5],
                               VARS[:max(i, 1)] * 4 + OTHER_NAMES[:3] + VARS[:4])
            if i >= 2 and not s["names"] and rng.random() < 0.7:
                s["names"] = [rng.choice(OTHER_NAMES[:3]), rng.choice(VARS[:i]), rng.choice(VARS[:i])]
            if s["bound"] is None and rng.random() < 0.6:
                s["bound"], s["ty"] = (VARS[i] if unique else rng.choice(VARS[:5])), rng.choice([0, 0, 1, 2])
            other.append(s)
        start = rng.choice([0, 1, 2, 2, 3, 3, 4, nother - 1, nother, nother + 1, rng.randrange(0, nother + 1)])
        tail = other[start:]

        def orders():
            out = []
            for s in tail:
                u = sorted(set(s["names"]))
                rng.shuffle(u)
                out.append(u)
            return out
        total = sum(len(set(s["names"])) for s in tail)
        ndraws = total + 2 if rng.random() < 0.95 else rng.randrange(0, total + 1)
        return {"kind": "append", "self": {"stmts": self_stmts, "counter": counter}, "other": other,
                "start": start, "orders": orders(), "alt_orders": [orders(), [sorted(o, reverse=True) for o in orders()]],
                "draws": [rng.randrange(0, 12) for _ in range(ndraws)]}

    # -- implementation adapter ------------------------------------------------------------------
    TYPES = [int, str, float, bool]

    def _mk_tc(self, stmts, counter):
        import libcst as cst
        from pynguin.testcase.testcase import Statement, TestCase
        tc = TestCase()
        for s in stmts:
            st = Statement(node=cst.parse_statement(stmt_code(s)), bound_variable=s["bound"],
                           bound_type=None if s["ty"] is None else self.TYPES[s["ty"]])
            real = st.used_variables()
            if set(real) != set(s["names"]):
                raise RuntimeError(f"adapter: used_variables {sorted(real)} != names {s['names']} for {stmt_code(s)!r}")
            tc.add_statement(st)
        tc._var_counter = counter
        return tc

    def _run_append(self, case, orders):
        import libcst as cst
        import pynguin.utils.randomness as randomness
        from pynguin.testcase.testcase import TestCase
        me = self._mk_tc(case["self"]["stmts"], case["self"]["counter"])
        other = self._mk_tc(case["other"], len(case["other"]))
        for st, order in zip(other.statements()[case["start"]:], orders):
            st._used_vars = PermFrozenSet(order)
        draws = list(case["draws"])
        seen = {"rename": {}, "dropped": set()}

        def choice(seq):
            if not draws:
                raise _OutOfDraws
            return seq[draws.pop(0) % len(seq)]

        orig_resolve = TestCase._resolve_head_references

        def resolve(tc_self, stmt, head_types, rename, dropped):
            seen["rename"], seen["dropped"] = rename, dropped
            return orig_resolve(tc_self, stmt, head_types, rename, dropped)

        orig_choice = randomness.choice
        randomness.choice = choice
        TestCase._resolve_head_references = resolve
        try:
            me.append_test_case_from(other, case["start"])
        except _OutOfDraws:
            return {"err": "outOfDraws"}
        finally:
            randomness.choice = orig_choice
            TestCase._resolve_head_references = orig_resolve
        out = []
        for st in me.statements():
            code = cst.Module(body=[st.node]).code.strip()
            expr = code.split(" = ", 1)[1] if st.bound_variable is not None else code
            out.append({"bound": st.bound_variable,
                        "ty": None if st.bound_type is None else self.TYPES.index(st.bound_type),
                        "names": _IDENT.findall(expr)})
        return {"stmts": out, "counter": me._var_counter, "rename": dict(seen["rename"]),
                "dropped": sorted(seen["dropped"]), "draws_left": len(draws)}

    def impl(self, case):
        if case.get("kind") == "sort":
            return {"sorted": sorted(case["names"])}
        if case.get("kind") == "pipeline":
            return self._impl_pipeline(case)
        return {"out": self._run_append(case, case["orders"]),
                "alts": [self._run_append(case, o) for o in case.get("alt_orders", [])]}

    # -- model -----------------------------------------------------------------------------------
    def model_line(self, case):
        if case.get("kind") == "sort":
            return vcommon.jdump({"sort": {"names": case["names"]}})
        if case.get("kind") == "pipeline":
            return None
        strip = lambda s: {"bound": s["bound"], "ty": s["ty"], "names": s["names"]}
        return vcommon.jdump({"append": {"c": {
            "self": {"stmts": [strip(s) for s in case["self"]["stmts"]], "counter": case["self"]["counter"]},
            "other": [strip(s) for s in case["other"]], "start": case["start"], "orders": case["orders"],
            "draws": case["draws"]}}})

    def compare(self, case, io, mo):
        if case.get("kind") == "sort":
            return io == mo
        out = io["out"]
        if "err" in out or "err" in mo:
            return out == mo
        if "rename" not in mo:
            return False
        m = dict(mo)
        m["rename"] = dict(reversed([tuple(p) for p in mo["rename"]]))
        m["dropped"] = sorted(set(mo["dropped"]))
        return out == m

    # -- oracle: the property on the implementation ----------------------------------------------
    def oracle(self, case, io):
        if case.get("kind") == "sort":
            return []
        if case.get("kind") == "pipeline":
            return self._oracle_pipeline(case, io)
        fs = []
        for alt, orders in zip(io["alts"], case.get("alt_orders", [])):
            if alt != io["out"]:
                fs.append(Failure(
                    {"where": "TestCase.append_test_case_from", "class": "hash-order-dependent"},
                    "crossover offspring depends on the iteration order of Statement.used_variables() "
                    f"(a frozenset[str], ordered by PYTHONHASHSEED): orders {case['orders']} give "
                    f"{vcommon.jdump(io['out'])[:300]} but orders {orders} give {vcommon.jdump(alt)[:300]}",
                    detail={"orders_a": case["orders"], "out_a": io["out"], "orders_b": orders, "out_b": alt}))
                break
        return fs

    def classify(self, case, io):
        k = case.get("kind")
        self.count(f"kind:{k}")
        if k == "sort":
            return vcommon.jdump(case) if len(set(case["names"])) > 1 else None
        if k == "pipeline":
            return vcommon.jdump(case)
        out = io["out"]
        if "err" in out:
            self.count("append:out-of-draws")
            return vcommon.jdump({k2: case[k2] for k2 in ("self", "other", "start", "draws")})
        consumed = len(case["draws"]) - out["draws_left"]
        if consumed:
            self.count("append:draws-consumed")
        if out["dropped"]:
            self.count("append:dropped-statement")
        if any(len(o) > 1 for o in case["orders"]):
            self.count("append:multi-name-statement")
        if len(out["stmts"]) > len(case["self"]["stmts"]):
            self.count("append:appended")
        if consumed or out["dropped"]:
            return vcommon.jdump({k2: case[k2] for k2 in ("self", "other", "start", "draws")})
        return None

    # -- pipeline runs ---------------------------------------------------------------------------
    @staticmethod
    def _argv(proj, out, module, algorithm, seed, iterations):
        return ["--project-path", proj, "--module-name", module, "--output-path", out,
                "--algorithm", algorithm, "--maximum-iterations", str(iterations), "--seed", str(seed),
                "--use-master-worker", "False", "--local-search-time", "3600000",
                "--maximum-test-execution-timeout", "900", "--test-execution-time-per-statement", "300"]

    def _prepare(self, tmp):
        proj = os.path.join(tmp, "proj")
        os.makedirs(proj, exist_ok=True)
        for name, src in SUTS.items():
            with open(os.path.join(proj, name + ".py"), "w") as f:
                f.write(textwrap.dedent(src).lstrip())
        with open(os.path.join(tmp, "server.py"), "w") as f:
            f.write(SERVER)

    def _run_server(self, tmp, tag, hashseed, jobs):
        """jobs: list of dict(module, algorithm, seed, iterations, perturb). Returns a report per job."""
        d = os.path.join(tmp, f"g{tag}")
        os.makedirs(d)
        spec = []
        for i, j in enumerate(jobs):
            out = os.path.join(d, f"out{i}")
            spec.append({"argv": self._argv(os.path.join(tmp, "proj"), out, j["module"], j["algorithm"],
                                            j["seed"], j["iterations"]),
                         "report": os.path.join(d, f"rep{i}.json"), "out": out, "perturb": j.get("perturb")})
        with open(os.path.join(d, "jobs.json"), "w") as f:
            json.dump(spec, f)
        env = dict(os.environ, C16_SRC=str(vcommon.REPO / "src"), C16_JOBS=os.path.join(d, "jobs.json"),
                   PYTHONHASHSEED=str(hashseed), PYNGUIN_DANGER_AWARE="1")
        env.pop("PYTHONPATH", None)
        r = subprocess.run([vcommon.PY, os.path.join(tmp, "server.py")], env=env, capture_output=True,
                           text=True, timeout=5400, cwd=tmp)
        reps = []
        for j, sp in zip(jobs, spec):
            if not os.path.exists(sp["report"]):
                tail = ""
                if os.path.exists(sp["report"] + ".out"):
                    with open(sp["report"] + ".out", errors="replace") as f:
                        tail = f.read()[-1200:]
                raise RuntimeError(f"pipeline run {j} (PYTHONHASHSEED={hashseed}) produced no report; "
                                   f"server rc={r.returncode} {r.stderr[-800:]} {tail}")
            with open(sp["report"]) as f:
                rep = json.load(f)
            files = {}
            if os.path.isdir(sp["out"]):
                for fn in sorted(os.listdir(sp["out"])):
                    p = os.path.join(sp["out"], fn)
                    if os.path.isfile(p):
                        with open(p, "rb") as f:
                            files[fn] = f.read().decode("utf-8", "replace")
            rep["files"] = files
            rep["logfile"] = sp["report"] + ".log"
            rep["variant"] = {"hashseed": hashseed, "perturb": j.get("perturb")}
            reps.append(rep)
        return reps

    @staticmethod
    def _first_divergence(a, b):
        with open(a["logfile"]) as f:
            la = json.load(f)
        with open(b["logfile"]) as f:
            lb = json.load(f)
        k = next((i for i, (x, y) in enumerate(zip(la["log"], lb["log"])) if x != y),
                 min(len(la["log"]), len(lb["log"])))
        ra = la["log"][k] if k < len(la["log"]) else None
        rb = lb["log"][k] if k < len(lb["log"]) else None
        stage = None
        for (n1, c1), (n2, c2) in zip(la["stages"], lb["stages"]):
            if c1 != c2:
                stage = n1
                break
        return {"index": k, "a": ra, "b": rb, "first_differing_stage": stage,
                "log_lengths": [len(la["log"]), len(lb["log"])]}

    @staticmethod
    def _site_of(rec):
        if rec is None:
            return "end-of-log"
        if rec[0] == "stage":
            return "stage:" + rec[1]
        if rec[0] == "timeout":
            return "execution-timeout(size=%s)" % rec[1]
        return f"{rec[0]}@{re.sub(r':[0-9]+$', '', rec[1])}"

    def _judge(self, job, reps):
        """Compare the runs of one configuration. Returns (summary, failures)."""
        base = reps[0]
        summary = {"identical_files": True, "identical_logs": True, "rcs": [r["rc"] for r in reps],
                   "nlog": base["nlog"], "file_bytes": sum(len(v) for v in base["files"].values())}
        fs = []
        for r in reps:
            if r["wallclock_timeouts"]:  # an execution really ran into the (huge) wall-clock limit: environment
                summary["discarded"] = "wall-clock-timeout"
                return summary, []
        for r in reps[1:]:
            same_files = r["files"] == base["files"] and r["rc"] == base["rc"]
            same_log = r["log_sha"] == base["log_sha"]
            if not same_log:
                summary["identical_logs"] = False
                if same_files and "log_divergence" not in summary:
                    d = self._first_divergence(base, r)
                    summary["log_divergence"] = {"variants": [base["variant"], r["variant"]], "index": d["index"],
                                                 "a": d["a"], "b": d["b"], "log_lengths": d["log_lengths"]}
            if same_files:
                continue
            summary["identical_files"] = False
            div = self._first_divergence(base, r)
            factor = ("schedule" if r["variant"]["perturb"] != base["variant"]["perturb"] else
                      "hashseed" if r["variant"]["hashseed"] != base["variant"]["hashseed"] else "repeat")
            site = self._site_of(div["a"] if div["a"] is not None else div["b"])
            diff = []
            for fn in sorted(set(base["files"]) | set(r["files"])):
                diff += list(difflib.unified_diff(base["files"].get(fn, "").splitlines(),
                                                  r["files"].get(fn, "").splitlines(),
                                                  f"{fn}@{base['variant']}", f"{fn}@{r['variant']}", lineterm="", n=1))[:30]
            summary["first_divergence"] = div
            fs.append(Failure(
                {"where": "pipeline", "factor": factor, "first_divergence": site},
                f"pynguin --module-name {job['module']} --algorithm {job['algorithm']} --maximum-iterations "
                f"{job['iterations']} --seed {job['seed']} writes different test files under {base['variant']} and "
                f"{r['variant']}; first divergent record #{div['index']}: {div['a']} vs {div['b']} "
                f"(first differing suite snapshot: {div['first_differing_stage']})",
                case={"kind": "pipeline", "job": job, "variants": [base["variant"], r["variant"]]},
                detail={"divergence": div, "diff": diff[:60]}))
            break
        return summary, fs

    def _pipeline(self, jobs, variants, workers):
        """jobs × variants; variants: list of dict(hashseed, perturb). Returns [(job, reps)]."""
        tmp = tempfile.mkdtemp(prefix="c16-")
        try:
            self._prepare(tmp)
            nchunks = max(1, min(len(jobs), workers // max(1, len(variants)) or 1))
            chunks = [jobs[i::nchunks] for i in range(nchunks)]
            tasks = []
            for vi, v in enumerate(variants):
                for ci, ch in enumerate(chunks):
                    tasks.append((vi, ci, v, [dict(j, perturb=v["perturb"]) for j in ch]))
            with concurrent.futures.ThreadPoolExecutor(max_workers=workers) as ex:
                results = list(ex.map(lambda t: self._run_server(tmp, f"{t[0]}-{t[1]}", t[2]["hashseed"], t[3]), tasks))
            per_job = {}
            for (vi, ci, v, ch), reps in zip(tasks, results):
                for j, rep in zip(chunks[ci], reps):
                    per_job.setdefault(vcommon.jdump(j), (j, {}))[1][vi] = rep
            out = []
            for key, (j, byv) in per_job.items():
                reps = [byv[i] for i in range(len(variants))]
                out.append((j, reps, self._judge(j, reps)))
            return out
        finally:
            shutil.rmtree(tmp, ignore_errors=True)

    def _variants(self):
        h = 1 + 2 * self.seed
        # both schedules are semantically neutral sleeps; [0] vs [1]: hash seed only, [0] vs [2]: schedule only
        v = [{"hashseed": h, "perturb": "main-slow"}, {"hashseed": h + 1, "perturb": "main-slow"},
             {"hashseed": h, "perturb": "thread-slow"}]
        if self.tier == "thorough":
            v.append({"hashseed": h + 1000, "perturb": None})
        return v

    def _jobs(self):
        if self.tier == "quick":
            base = QUICK_JOBS
        else:
            base = [(m, a, it) for m in SUTS for (a, it) in ALGOS_T]
        reps = 1 if self.tier == "quick" else 2
        jobs = []
        for r in range(reps):
            for i, (m, a, it) in enumerate(base):
                jobs.append({"module": m, "algorithm": a, "iterations": it,
                             "seed": 1 + self.seed * 7919 + 31 * i + 1009 * r})
        n = os.environ.get("VERIF_RUNS")
        return jobs[:int(n)] if n else jobs

    def extra_checks(self):
        jobs = self._jobs()
        if not jobs:
            return []
        variants = self._variants()
        workers = int(os.environ.get("VERIF_WORKERS", 6 if self.tier == "quick" else 12))
        stats = {"configurations": 0, "runs": 0, "identical_files": 0, "identical_logs": 0, "discarded": 0,
                 "rng_calls": 0, "file_bytes": 0, "nonzero_rc": 0, "variants": variants}
        fs = []
        for j, reps, (summary, failures) in self._pipeline(jobs, variants, workers):
            stats["configurations"] += 1
            stats["runs"] += len(reps)
            self.count(f"run:{j['algorithm']}", len(reps))
            self.count(f"module:{j['module']}", len(reps))
            if "discarded" in summary:
                stats["discarded"] += 1
                continue
            stats["identical_files"] += summary["identical_files"]
            stats["identical_logs"] += summary["identical_logs"]
            if "log_divergence" in summary:  # files identical, recorder logs not: reported, not a violation
                stats.setdefault("benign_log_divergences", []).append(dict(summary["log_divergence"], job=j))
            stats["rng_calls"] += summary["nlog"]
            stats["file_bytes"] += summary["file_bytes"]
            stats["nonzero_rc"] += any(rc != 0 for rc in summary["rcs"])
            if summary["identical_files"] and summary["file_bytes"] > 0:
                self.nontrivial.add(hashlib.sha1(vcommon.jdump(j).encode()).hexdigest())
            fs += failures
        if stats["configurations"] and stats["file_bytes"] == 0:
            raise RuntimeError("no pipeline run wrote a test file — the history tie is vacuous")
        self.extra_coverage["real_runs"] = stats
        self.evaluations += stats["runs"]
        return fs

    # replay support for pipeline failures
    def _impl_pipeline(self, case):
        res = self._pipeline([case["job"]], case["variants"], 2)
        (j, reps, (summary, failures)) = res[0]
        self._replay_failures = failures
        return {k: summary.get(k) for k in ("identical_files", "identical_logs", "rcs", "first_divergence")}

    def _oracle_pipeline(self, case, io):
        return list(getattr(self, "_replay_failures", []))


if __name__ == "__main__":
    run_main(C16)
