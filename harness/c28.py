"""C28 — mutation analysis yields genuine mutants and leaves the original intact (DESIGN §5 C28).

Correspondence: the real `MutationOperator.mutate/visit/_generic_visit*` protocol, `FirstOrderMutator`
(historical path, sampled / reordered path), `HighOrderMutator` (all four HOM strategies) and
`MutationController.mutant_count` are run on generated modules (progen programs and `PlaceholderGen` modules
whose child lists mix nodes with `None` placeholders / identifiers at random positions), hand-written
operator-rich snippets and small pure stdlib modules; every yielded (mutations, mutant tree at yield time), the tree after the (full
or early-stopped) enumeration and the first-order count are compared with `Driver/C28.lean`, which
executes `Model/Mutants.lean`.  The model gets from the implementation only what the property does not
talk about: which nodes each operator's visitors rewrite into what (read off the real visitor methods,
called directly, not through `visit`), the `rng.sample` draws and the groups the HOM strategy formed.

Oracle (independent of the model, the property in its own words): the original tree's `ast.dump` is the
same after every enumeration (also one the consumer abandons, as `_execute_test_case_on_mutants` does
on its time budget); every mutant differs from the original only inside the subtrees of its mutated
nodes; a sampled / reordered enumeration yields a sub-multiset (a permutation when nothing is cut) of the
full enumeration; `mutant_count()` equals the number of mutants the uncapped enumeration of the same
mutator yields.
"""
from __future__ import annotations

import ast
import hashlib
import importlib
import random

import progen
from vcommon import Failure, PropertyCheck, jdump, run_main

M61 = 2305843009213693951

SNIPPETS = [
    # inheritance / super / decorators / hiding variables
    '''
import functools
class Base:
    X = 1
    Y, Z = 2, 3
    def f(self, a, b=2, *args, k=3, **kw):
        return a + b
    def g(self):
        return self.X
class Child(Base):
    X = 5
    Y, Z = 7, 8
    def f(self, a, b=2, *args, k=3, **kw):
        super().f(a, b)
        self.t = a * b
        return a - b
    def g(self):
        v = self.X
        return v
    @staticmethod
    def s(q):
        return not q
    @functools.lru_cache(maxsize=None)
    def h(self, n):
        return -n if n > 0 else +n
''',
    # loops, break/continue, slices, exceptions, f-strings
    '''
def walk(xs, lo, hi):
    out = []
    for i, x in enumerate(xs[lo:hi:2]):
        if x is None:
            continue
        if x in (1, 2) or x not in out:
            out.append(x ** 2 // 3)
        elif x >= hi and not x < lo:
            break
        out += [x % 2, x << 1, x >> 1, x & 3, x | 4, x ^ 5, ~x]
    while lo < hi:
        lo += 1
        hi -= 1
    try:
        y = xs[1:]
        raise ValueError(f"bad {y!r:>{lo}}")
    except KeyError as e:
        y = "mutpy"
    except (ValueError, RuntimeError):
        raise RuntimeError
    finally:
        z = True
    return f"{y}-{z}" if z else ""
''',
    # match, nested functions, lambdas, comprehension, augmented assignments
    '''
def classify(v, w=0.5):
    """docstring"""
    match v:
        case 0:
            r = "zero"
        case [a, b]:
            r = a + b
        case {"k": k}:
            r = k
        case _:
            r = None
    def inner(q):
        nonlocal r
        r = q
        return lambda t: t * w
    total = 0
    total += sum(i for i in range(3) if i != 1)
    total *= 2
    total /= 4
    print("unobservable", total)
    return [inner(e)(1) for e in (1, 2)], r, total == 1.0, 1 < total <= 3
''',
    # child lists that mix nodes with non-node entries: `None` placeholders in arguments.kw_defaults (keyword-only
    # parameter without default before / between / after defaulted ones) and Dict.keys (`**` unpacking), identifier
    # lists (global / nonlocal / MatchClass.kwd_attrs), optional fields that are None (slices, MatchAs, MatchStar)
    '''
BASE = {"x": 1, "y": 2}
MERGED = {**BASE, "k": 2 + 3, **{"z": 3}, "w": -1}
TOTAL = 0
def scale(value, *, factor, offset=10, unit, digits=2 * 3, **rest):
    global TOTAL, BASE
    TOTAL += value * factor + offset
    return {**rest, "unit": unit, **BASE, "value": round(value / factor, digits)}
def window(xs, lo=None, *more, hi, step=1 + 1):
    cut = lambda seq, *, start, stop=None, by=1: seq[start:stop:by]
    acc = 0
    def bump(*, by, twice=False):
        nonlocal acc, lo
        acc += by * 2 if twice else by
        return acc
    match xs:
        case Pair(0, right=r, left=None):
            out = r
        case Pair(left=l) | {"left": l}:
            out = l
        case {"left": l, **others}:
            out = l, others
        case [first, *_, last] if first < last:
            out = cut(xs, start=first)[:hi]
        case [*_] | None:
            out = xs[lo:hi], xs[::step], xs[:]
        case _ as whole:
            out = whole
    return out, bump(by=1), bump(by=2, twice=not lo)
class Box:
    async def get(self, key, /, default=0, *, strict, fallback=None):
        return {key: default, **{"strict": strict}} if strict else fallback
    def put(self, *, key, value="v", ttl):
        self.d = {**getattr(self, "d", {}), key: (value, ttl > 0)}
''',
]

SMALL_STDLIB = ["colorsys", "bisect", "keyword", "fnmatch", "reprlib", "sched", "heapq", "textwrap",
                "shlex", "graphlib", "copy", "string", "stat", "genericpath", "numbers"]


class PlaceholderGen:
    """Random small modules whose syntax trees have child lists mixing nodes and non-node entries at random
    positions (`arguments.kw_defaults` with `None` for keyword-only parameters without default, `Dict.keys` with
    `None` for `**` unpacking), identifier lists (`global` / `nonlocal` / `MatchClass.kwd_attrs`) and optional
    node fields that are `None` (slice parts, `MatchAs` / `MatchStar` / `MatchMapping.rest`), with operator-rich
    expressions before and after the placeholders.  Only definitions and constant expressions run at import."""

    BIN = ["+", "-", "*", "//", "%", "**", "<<", ">>", "&", "|", "^"]
    CMP = ["<", "<=", "==", "!=", ">", ">=", "is", "is not", "in", "not in"]

    def __init__(self, rng):
        self.r = rng
        self.n = 0

    def const(self):
        return self.r.choice(["0", "1", "2", "3", "10", "-1", "1.5", "'k'", "'mutpy'", "True", "False", "None"])

    def const_expr(self, d=0):
        """safe to evaluate at definition time (parameter defaults, module-level values)"""
        r, x = self.r, self.r.random()
        if d >= 2 or x < 0.35:
            return r.choice(["0", "1", "2", "3", "10", "True", "False", "None", "'k'", "1.5"])
        if x < 0.55:
            return f"({r.choice(['1', '2', '7'])} {r.choice(['+', '-', '*', '//', '%', '<<', '&', '|'])} {r.choice(['1', '2', '3'])})"
        if x < 0.65:
            return f"({r.choice(['1', '2'])} {r.choice(['<', '<=', '==', '!=', '>', '>='])} {r.choice(['1', '3'])})"
        if x < 0.75:
            return r.choice(["-1", "+2", "~3", "not True", "not 0"])
        if x < 0.9:
            return self.dict_lit(lambda: self.const_expr(d + 1), ["BASE", "{'z': 3}", "{}"])
        return r.choice(["(1, 2)[0:1]", "'abc'[1:]", "[1, 2, 3][::2]", "(1, 2)", "[]"])

    def expr(self, names, d=0):
        r, x = self.r, self.r.random()
        if d >= 2 or x < 0.3 or not names:
            return r.choice(names) if names and r.random() < 0.7 else self.const()
        a, b = self.expr(names, d + 1), self.expr(names, d + 1)
        if x < 0.5:
            return f"({a} {r.choice(self.BIN)} {b})"
        if x < 0.65:
            op = r.choice(self.CMP)
            if op.startswith("is"):     # no `is` with a literal (SyntaxWarning)
                a, b = r.choice(names), r.choice(names + ["None"])
            return f"({a} {op} {b})"
        if x < 0.72:
            return f"({r.choice(['-', '+', '~', 'not '])}{a})"
        if x < 0.8:
            return f"({a} {r.choice(['and', 'or'])} {b})"
        if x < 0.9:
            return self.dict_lit(lambda: self.expr(names, d + 1), names + ["BASE"])
        lo, hi, st = (r.choice(["", a, "1", "None"]), r.choice(["", b, "-1"]), r.choice(["", "", ":2", ":" + r.choice(names)]))
        return f"{r.choice(names)}[{lo}:{hi}{st}]"

    def dict_lit(self, value, unpackable):
        r = self.r
        items = []
        for i in range(r.randint(1, 5)):
            if r.random() < 0.45:
                items.append("**" + r.choice(unpackable))
            else:
                items.append(f"{r.choice([repr('k' + str(i)), str(i), repr('x')])}: {value()}")
        return "{" + ", ".join(items) + "}"

    def params(self, lead):
        """parameter list with 1-5 keyword-only parameters, each with or without default, in random order"""
        r = self.r
        ps, names = list(lead), [x for x in lead if x not in ("self", "/")]
        if "/" in ps:
            ps = [x for x in ps if x != "/"]
            ps.insert(r.randint(1, len(ps)), "/")
        for i in range(r.randint(0, 2)):
            nm = f"p{i}"
            names.append(nm)
            ps.append(f"{nm}={self.const_expr()}" if r.random() < 0.5 else nm)
        # a defaulted positional may not be followed by a non-defaulted one
        seen = False
        for j, q in enumerate(ps):
            if "=" in q:
                seen = True
            elif seen and q not in ("/",):
                ps[j] = f"{q}={self.const()}"
        if r.random() < 0.4:
            ps.append("*args")
            names.append("args")
        else:
            ps.append("*")
        for i in range(r.randint(1, 5)):
            nm = f"k{i}"
            names.append(nm)
            ps.append(f"{nm}={self.const_expr()}" if r.random() < 0.5 else nm)
        if r.random() < 0.3:
            ps.append("**kw")
            names.append("kw")
        return ", ".join(ps), names

    def match_stmt(self, subject, names):
        r = self.r
        cases = r.sample([
            f"case Pair({r.choice(['0, ', ''])}left={r.choice(['a0', 'None', '1'])}, right={r.choice(['b0', '2', '_'])}):",
            "case Pair(left=l0) | {'left': l0}:",
            "case {'left': l1, **others}:",
            "case {'a': 1, 'b': b1}:",
            "case {**everything}:",
            f"case [first, *_, last] if first {r.choice(self.CMP[:6])} last:",
            "case [*_] | None:",
            "case (1 | 2) as small:",
            "case str() | bytes():",
        ], r.randint(1, 3)) + ["case _:"]
        out = [f"match {subject}:"]
        for c in cases:
            out += ["    " + c, f"        res = {self.expr(names)}"]
        return out

    def body(self, names, globs, outer_locals, depth=0):
        r = self.r
        out = []
        if globs and r.random() < 0.5:
            out.append("global " + ", ".join(r.sample(globs, r.randint(1, len(globs)))))
        if outer_locals and r.random() < 0.7:
            nl = r.sample(outer_locals, r.randint(1, len(outer_locals)))
            out.append("nonlocal " + ", ".join(nl))
            out.append(f"{nl[0]} = {self.expr(names)}")
        out.append(f"res = {self.expr(names)}")
        for _ in range(r.randint(1, 2)):
            x = r.random()
            if x < 0.3:
                out.append(f"d{len(out)} = {self.dict_lit(lambda: self.expr(names), names + ['BASE'])}")
            elif x < 0.45:
                ps, nn = self.params([])
                out.append(f"fn{len(out)} = lambda {ps}: {self.expr(nn)}")
            elif x < 0.6 and depth == 0:
                ps, nn = self.params(["u"])
                loc = ["res"]
                out += [f"def inner{len(out)}({ps}):"] + ["    " + l for l in self.body(nn + ["res"], globs, loc, depth + 1)]
            elif x < 0.75:
                out += self.match_stmt(r.choice(names), names + ["res"])
            elif x < 0.9:
                out += [f"if {self.expr(names)}:", f"    res = {self.expr(names + ['res'])}"]
            else:
                out.append(f"res {r.choice(['+=', '-=', '*=', '//='])} {self.expr(names)}")
        out.append(f"return {self.expr(names + ['res'])}")
        return out

    def function(self, name, lead=("a", "b"), indent="", decorator=None, is_async=False):
        ps, names = self.params(list(lead))
        head = ([indent + decorator] if decorator else []) + [f"{indent}{'async ' if is_async else ''}def {name}({ps}):"]
        return head + [indent + "    " + l for l in self.body(names, ["TOTAL", "BASE"], [])]

    def module(self):
        r = self.r
        lines = ["BASE = {'x': 1, 'y': 2}", f"MERGED = {self.dict_lit(self.const_expr, ['BASE', '{}'])}", "TOTAL = 0"]
        for i in range(r.randint(1, 2)):
            lines += self.function(f"f{i}", is_async=r.random() < 0.15)
        if r.random() < 0.4:
            lines += ["class Box:"] + self.function("get", lead=("self", "key", "/"), indent="    ")
            if r.random() < 0.5:
                lines += self.function("make", lead=("cls",), indent="    ", decorator="@classmethod")
        return "\n".join(lines) + "\n"


class NestGen:
    """Random functions whose expressions NEST several mutation sites of ONE operator through plain (non-list)
    fields: a node an operator rewrites directly (`not …`, `-…`, `+…`, `~…`, a slice, an f-string, a lambda) sits
    in a node-valued field (`If.test`, `Return.value`, `Assign.value`, `UnaryOp.operand`, `BinOp.left`,
    `Subscript.slice`, `Slice.lower`, `FormattedValue.value`, `Lambda.body`, `IfExp.test`, `keyword.value` …) and
    contains, 1-3 levels further down, more nodes the SAME operator rewrites.  While the enumeration is below the
    outer node, `_generic_visit_real_node` must have re-linked the original outer node into its field: these are
    the shapes on which a stale replacement in a plain field becomes visible.  Nothing generated here is ever
    executed (function bodies only)."""

    FAMILIES = ["not", "neg", "inv", "slice", "fstr", "lam"]
    BIN = ["+", "-", "*", "//", "%", "**", "<<", ">>", "&", "|", "^"]
    CMP = ["<", "<=", "==", "!=", ">", ">=", "in", "not in"]

    def __init__(self, rng):
        self.r = rng
        self.q = 0

    def atom(self, names):
        r = self.r
        return r.choice(names) if r.random() < 0.75 else r.choice(["0", "1", "2", "10", "1.5", "'k'", "True", "None"])

    def connect(self, names, inner):
        """0-2 layers that are NOT rewritten by the family's operator around `inner` (plain and list fields)"""
        r = self.r
        for _ in range(r.choice([0, 1, 1, 2])):
            a = self.atom(names)
            x = r.randrange(9)
            if x == 0:
                inner = f"({a} {r.choice(self.BIN)} {inner})"
            elif x == 1:
                inner = f"({inner} {r.choice(self.BIN)} {a})"
            elif x == 2:
                inner = f"({a} {r.choice(['and', 'or'])} {inner})"
            elif x == 3:
                inner = f"({inner} {r.choice(self.CMP)} {a})"
            elif x == 4:
                inner = f"({a} if {inner} else {self.atom(names)})"
            elif x == 5:
                inner = f"abs({inner})" if r.random() < 0.5 else f"max({a}, key={inner})"
            elif x == 6:
                inner = f"{r.choice(names)}[{inner}]"
            elif x == 7:
                inner = f"({inner}).real"
            else:
                inner = f"({inner}, {a})[0]"
        return inner

    def wrap(self, fam, names, inner):
        """one node of the family with `inner` below it"""
        r = self.r
        if fam == "not":
            return f"(not {inner})"
        if fam == "neg":
            return f"({r.choice(['-', '+'])}{inner})"
        if fam == "inv":
            return f"(~{inner})"
        if fam == "slice":
            n, a = r.choice(names), self.atom(names)
            return r.choice([f"{n}[{inner}:{a}]", f"{n}[{a}:{inner}]", f"{n}[{inner}:]", f"{n}[:{inner}:{a}]",
                             f"{n}[{a}:{a}:{inner}]", f"{n}[{inner}:{a}:{self.atom(names)}]"])
        if fam == "fstr":
            self.q += 1
            quote = "'" if self.q % 2 else '"'
            return r.choice([f"f{quote}<{{{inner}}}>{quote}", f"f{quote}{{{inner}!r}}-{{{self.atom(names)}}}{quote}",
                             f"f{quote}a{{{inner}:>4}}{quote}"])
        v = f"v{self.q}"
        self.q += 1
        return r.choice([f"(lambda {v}: {inner})", f"(lambda {v}, w=1: ({v}, {inner}))", f"(lambda: {inner})"])

    def expr(self, names, depth, fam=None):
        """`depth` nested nodes of (mostly) one family"""
        r = self.r
        fam = fam or r.choice(self.FAMILIES)
        if depth <= 0:
            return self.atom(names)
        nxt = fam if r.random() < 0.8 else r.choice(self.FAMILIES)
        inner = self.expr(names, depth - 1, nxt)
        if fam in ("fstr",) and "'" in inner and '"' in inner and depth > 3:
            inner = self.atom(names)
        return self.wrap(fam, names, self.connect(names, inner) if depth > 1 or r.random() < 0.5 else inner)

    def function(self, name, indent=""):
        r = self.r
        names = ["a", "b", "xs"]
        out = [f"{indent}def {name}(a, b=2, *xs):"]
        body = []
        for _ in range(r.randint(1, 3)):
            e = self.expr(names, r.randint(2, 4))
            x = r.randrange(10)
            if x == 0:
                body.append(f"if {e}:")
                body.append(f"    a = {self.expr(names, 2)}")
            elif x == 1:
                body.append(f"b = {e}")
            elif x == 2:
                body.append(f"b += {e}")
            elif x == 3:
                body.append(f"while {e}:")
                body.append("    break")
            elif x == 4:
                body.append(f"assert {e}, {self.expr(names, 2)}")
            elif x == 5:
                body.append(f"b = a if {e} else {self.expr(names, 2)}")
            elif x == 6:
                body.append(f"for i in {e}:")
                body.append(f"    b = {self.expr(names + ['i'], 2)}")
            elif x == 7:
                body.append(f"b = sorted(xs, key={e})")
            elif x == 8:
                body.append(f"c: int = {e}")
            else:
                body.append(f"b = [{e} for i in xs if {self.expr(names + ['i'], 2)}]")
        body.append(f"return {self.expr(names, r.randint(2, 4))}")
        return out + [indent + "    " + l for l in body]

    def module(self):
        return "\n".join(sum((self.function(f"n{i}") for i in range(self.r.randint(1, 2))), [])) + "\n"


class Interner:
    def __init__(self):
        self.d: dict[str, int] = {}

    def __call__(self, s: str) -> int:
        i = self.d.get(s)
        if i is None:
            i = self.d[s] = len(self.d)
        return i


def enc(node: ast.AST, intern) -> list:
    """AST node -> [label, [kids]]; label = class + non-node fields + field layout (which fields hold a node,
    how many entries each list has); kids = the child SLOTS in
    `_fields` order (the order `_generic_visit` walks them): one per node-valued field, one per entry of a
    list-valued field.  A list entry that is not a node (`None` in `arguments.kw_defaults` / `Dict.keys`, the
    strings of `Global.names` / `MatchClass.kwd_attrs`) is a placeholder `[v]` (`Tree.hole`): it keeps its
    position, so slot paths are positions in the REAL lists."""
    parts = [type(node).__name__]
    kids = []
    for f in node._fields:
        v = getattr(node, f, None)
        if isinstance(v, list):
            for x in v:
                if isinstance(x, ast.AST):
                    kids.append(enc(x, intern))
                else:
                    kids.append([intern("hole|" + type(x).__name__ + ":" + repr(x))])
            parts.append(f"{f}=[{len(v)}]")      # the entries themselves are slots; the length delimits the field
        elif isinstance(v, ast.AST):
            kids.append(enc(v, intern))
            parts.append(f + "=N")
        else:
            parts.append(f"{f}={type(v).__name__}:{v!r}")
    return [intern("|".join(parts)), kids]


def thash(t) -> int:
    if len(t) == 1:
        return (999983 * (t[0] + 1) + 3) % M61
    acc = 17
    for k in t[1]:
        acc = (acc * 1000033 + thash(k) + 7) % M61
    return (1000003 * (t[0] + 1) + acc) % M61


def node_paths(root: ast.AST) -> dict[int, tuple]:
    out = {}

    def go(n, p):
        out[id(n)] = p
        i = 0
        for f in n._fields:
            v = getattr(n, f, None)
            if isinstance(v, list):
                for x in v:
                    if isinstance(x, ast.AST):
                        go(x, p + (i,))
                    i += 1          # a non-node entry occupies its position
            elif isinstance(v, ast.AST):
                go(v, p + (i,))
                i += 1
    go(root, ())
    return out


def diff_paths(a, b, p=()) -> list[tuple]:
    """minimal paths at which two encoded trees differ"""
    if len(a) != len(b) or a[0] != b[0] or (len(a) == 2 and len(a[1]) != len(b[1])):
        return [p]
    if len(a) == 1:
        return []
    out = []
    for i, (x, y) in enumerate(zip(a[1], b[1])):
        out += diff_paths(x, y, p + (i,))
    return out


class C28(PropertyCheck):
    prop_id = "C28"
    prop_modules = ["PynguinModel.Props.C28"]
    extra_modules = ["PynguinModel.Model.Mutants"]
    driver = "Driver/C28.lean"
    n_quick = 16
    n_thorough = 40   # the interpreted driver needs ~10 s per abandoned higher-order round; 120 cases exceeded the 1800 s driver timeout under load
    n_search = 60
    rule = ("one case = one module (progen program, module with mixed node/placeholder child lists, operator-rich "
            "snippet or small stdlib module) x one mutator "
            "configuration (operator subset, cap, reorder, sampling seed, HOM strategy + order, optional early "
            "stop); non-trivial = distinct case whose enumeration yields at least one mutant")
    assumptions = [
        "which nodes an operator's visitors rewrite and into what is read off the real visitor methods (not modelled)",
        "rng.sample draws and the HOM strategy's groups are taken from the implementation and validated by the model",
        "a replacement node is a value in the model (object sharing between a replacement and the original subtree, "
        "e.g. `node.operand`, is only exercised by the real runs)",
        "early-stopped enumerations are dropped by the consumer; CPython closes a dropped generator immediately",
    ]
    trusted_base_extra = [
        "the AST -> labelled rose tree encoding of harness/c28.py (labels = class + non-node fields + layout; "
        "non-node list entries are placeholder slots)",
        "61-bit polynomial tree hash used to compare mutants (same definition in Model/Mutants.lean and c28.py)",
    ]

    def __init__(self, tier, seed):
        super().__init__(tier, seed)
        self._lines: dict[str, str | None] = {}
        self._stdlib_ok: list[str] | None = None

    # -- generation ---------------------------------------------------------------------------
    def _stdlib(self):
        if self._stdlib_ok is None:
            ok = []
            for name in SMALL_STDLIB:
                try:
                    m = importlib.import_module(name)
                    src = open(m.__file__, encoding="utf-8").read()
                    n = sum(1 for _ in ast.walk(ast.parse(src)))
                    if n <= 2500:
                        ok.append(name)
                except Exception:  # noqa: BLE001
                    pass
            self._stdlib_ok = ok
        return self._stdlib_ok

    def gen_case(self, rng):
        r = rng.random()
        if r < 0.22:
            # several mutation sites of ONE operator nested through plain fields (alone, or behind other code)
            src = NestGen(rng).module()
            kind = "nest"
            if rng.random() < 0.3:
                src = "BASE = {'x': 1}\nTOTAL = 0\n" + "\n".join(PlaceholderGen(rng).function("mixed")) + "\n" + src
                kind = "nest+ph"
        elif r < 0.42:
            src = progen.gen_module(rng, n_funcs=1, with_class=rng.random() < 0.3, with_generator=False)
            kind = "gen"
            if rng.random() < 0.4:      # a generated module that also has mixed child lists
                src = src + "\n" + "BASE = {'x': 1}\nTOTAL = 0\n" + "\n".join(PlaceholderGen(rng).function("mixed")) + "\n"
                kind = "gen+ph"
        elif r < 0.62:
            src = PlaceholderGen(rng).module()
            kind = "ph"
        elif r < 0.9 or not self._stdlib():
            k = rng.randrange(len(SNIPPETS))
            src = SNIPPETS[k]
            x = rng.random()
            if x < 0.35:
                src = src + "\n" + "\n".join(progen.Gen(rng).function("extra"))+ "\n"
            elif x < 0.6:
                src = src + "\n" + ("" if k == 3 else "BASE = {'x': 1}\nTOTAL = 0\n") + "\n".join(PlaceholderGen(rng).function("mixed")) + "\n"
            elif x < 0.8:
                src = src + "\n" + "\n".join(NestGen(rng).function("nested")) + "\n"
            kind = f"snippet{k}"
        else:
            name = rng.choice(self._stdlib())
            src = None
            kind = "stdlib:" + name
        c = {"kind": kind, "src": src}
        nops = rng.choice([0, 0, 1, 2, 3, 5, 8, 12])   # 0 = all
        c["ops"] = sorted(rng.sample(range(28), nops)) if nops else []
        if kind.startswith("stdlib") and not c["ops"]:
            c["ops"] = sorted(rng.sample(range(28), 6))
        if kind.startswith("nest") and c["ops"]:
            # keep some of the operators that rewrite the nested families (deletion of not / - / ~, slices,
            # f-strings, lambdas) among the selected ones
            fam = self._family_ops()
            c["ops"] = sorted(set(c["ops"]) | set(rng.sample(fam, rng.randint(2, len(fam)))))
        m = rng.random()
        if m < 0.25:
            c.update(mode="first", cap=-1, reorder=False)
        elif m < 0.6:
            c.update(mode="first", cap=rng.choice([-1, -1, 0, 1, 2, 3, 5, 8, 13, 30, 1000]),
                     reorder=rng.random() < 0.7, sseed=rng.randint(0, 10**6))
            if c["cap"] < 0:
                c["reorder"] = True
        else:
            c.update(mode="hom", strategy=rng.choice(["FirstToLast", "EachChoice", "BetweenOperators", "Random"]),
                     order=rng.choice([1, 2, 2, 3, 4]), rngseed=rng.randint(0, 10**6))
        c["stop"] = rng.randint(1, 12) if rng.random() < 0.3 else -1
        if c["mode"] == "hom" and c["stop"] > 4:
            # the interpreted driver needs seconds per abandoned higher-order round on large modules with many operators
            c["stop"] = 1 + c["stop"] % 4
        # a history of calls on ONE MutationController wrapping this mutator: -2 = mutant_count(), -1 =
        # create_mutants() consumed to the end, k >= 1 = create_mutants() abandoned after k mutants
        if rng.random() < 0.75:
            n = rng.randint(2, 3 if kind.startswith("stdlib") else 5)
            calls = [rng.choice([-2, -2, -1, -1, rng.randint(1, 9)]) for _ in range(n)]
            if rng.random() < 0.6:      # count asked (again) after a complete run
                i = rng.randrange(len(calls))
                calls[i:i + 1] = [-1, -2]
            if -2 not in calls:
                calls.insert(rng.randint(0, len(calls)), -2)
            if c["mode"] == "hom":      # abandoned higher-order rounds are slow in the interpreted driver
                calls = [min(x, 2) if x > 0 else x for x in calls]
            c["calls"] = calls
        return c

    def _family_ops(self):
        import pynguin.assertion.mutation_analysis.operators as mo
        allops = [*mo.standard_operators, *mo.experimental_operators]
        want = {"ArithmeticOperatorDeletion", "ConditionalOperatorDeletion", "LogicalOperatorDeletion",
                "SliceIndexRemove", "FStringReplacement", "LambdaReplacement"}
        return [i for i, op in enumerate(allops) if op.__name__ in want]

    # -- implementation adapter ---------------------------------------------------------------
    def _load(self, case):
        from pynguin.assertion.mutation_analysis.transformer import create_module
        if case["kind"].startswith("stdlib:"):
            module = importlib.import_module(case["kind"].split(":", 1)[1])
            src = open(module.__file__, encoding="utf-8").read()
        else:
            src = case["src"]
            module = create_module(ast.parse(src), "c28_sut")
        return src, module

    def _operators(self, case):
        import pynguin.assertion.mutation_analysis.operators as mo
        allops = [*mo.standard_operators, *mo.experimental_operators]
        if case["ops"]:
            return [allops[i % len(allops)] for i in case["ops"]]
        return allops

    def _mutator(self, case, ops, *, uncapped=False):
        import pynguin.assertion.mutation_analysis.mutators as mu
        import pynguin.assertion.mutation_analysis.strategies as ms
        if case["mode"] == "hom":
            cls = {"FirstToLast": ms.FirstToLastHOMStrategy, "EachChoice": ms.EachChoiceHOMStrategy,
                   "BetweenOperators": ms.BetweenOperatorsHOMStrategy, "Random": ms.RandomHOMStrategy}[case["strategy"]]
            return mu.HighOrderMutator(ops, cls(case["order"]))
        if uncapped or (case["cap"] < 0 and not case["reorder"]):
            return mu.FirstOrderMutator(ops)
        return mu.FirstOrderMutator(ops, maximum_mutants=case["cap"], sampling_seed=case.get("sseed", 0),
                                    reorder=case["reorder"])

    def impl(self, case):
        import pynguin.assertion.mutation_analysis.mutators as mu
        from pynguin.assertion.mutation_analysis.controller import MutationController
        from pynguin.assertion.mutation_analysis.transformer import ParentNodeTransformer
        from pynguin.utils import randomness

        src, module = self._load(case)
        ops = self._operators(case)
        intern = Interner()
        names = sorted({a for op in ops for a in dir(op) if a.startswith("mutate_")})
        name_id = {n: i for i, n in enumerate(names)}
        self.count("kind:" + case["kind"].split(":")[0].rstrip("0123456789"))
        self.count("mode:" + case["mode"] + ("" if case["mode"] == "hom" else
                                             ("+cap" if case["cap"] >= 0 else "") + ("+reorder" if case["reorder"] else "")))
        if case["mode"] == "hom":
            self.count(f"hom:{case['strategy']}/{case['order']}")
        if case["stop"] >= 0:
            self.count("early-stop")

        def fresh():
            tree = ParentNodeTransformer.create_ast(src)
            return tree, node_paths(tree)

        def key(m, paths):
            return [ops.index(m.operator), list(paths.get(id(m.node), (-1,))), name_id.get(m.visitor_name, -1)]

        def reseed():
            randomness.RNG.seed(case.get("rngseed", 0))

        # (0) the original tree and the operators' visitor tables (real visitor methods, called directly)
        tree, paths = fresh()
        orig = enc(tree, intern)
        orig_hash = thash(orig)
        dump0 = ast.dump(tree)
        optabs = []
        errs: list[str] = []

        def guarded(phase, fn, default):
            """pynguin code raising during an enumeration is a finding (reported by the oracle), not a harness error"""
            try:
                return fn()
            except Exception as e:  # noqa: BLE001
                errs.append(f"{phase}: {type(e).__name__}: {str(e)[:80]}")
                return default
        for op in ops:
            inst = op(module, None)
            rows = []
            for n in ast.walk(tree):
                if id(n) not in paths:
                    continue
                reps = []
                for visitor in inst._find_visitors(n):
                    r = visitor(n)
                    if r is not None:
                        reps.append([name_id[visitor.__name__], enc(r, intern)])
                if reps:
                    rows.append([list(paths[id(n)]), reps])
            optabs.append({"prone": op in mu._TIMEOUT_PRONE_OPERATORS, "vis": rows})
        tables_pure = ast.dump(tree) == dump0

        # (1) full first-order enumeration (the reference of "full enumeration")
        tree, paths = fresh()
        full = []

        full_bad: list[dict] = []

        def outside_mutated(e, ks):
            """paths at which the mutant `e` differs from the original outside the subtrees of its mutated nodes"""
            mp = [tuple(k[1]) for k in ks]
            return mp, [list(x) for x in diff_paths(orig, e) if not any(x[:len(q)] == q for q in mp)]

        def run_full():
            for muts, mutant in mu.FirstOrderMutator(ops).mutate(tree, module):
                e = enc(mutant, intern)
                ks = [key(m, paths) for m in muts]
                full.append([ks, thash(e)])
                mp, outside = outside_mutated(e, ks)
                if outside:
                    full_bad.append({"at": len(full) - 1, "mutated": [list(q) for q in mp], "differs": outside[:4]})
        guarded("full", run_full, None)
        full_intact = ast.dump(tree) == dump0

        # (2) the reported count, and the number of mutants the uncapped enumeration of this mutator yields
        tree, paths = fresh()
        reseed()
        tree2 = tree
        reported = guarded("count", lambda: MutationController(self._mutator(case, ops), tree2, module).mutant_count(), -1)
        count_intact = ast.dump(tree) == dump0
        tree, paths = fresh()
        reseed()
        tree3 = tree
        uncapped_n = guarded("uncapped", lambda: sum(1 for _ in self._mutator(case, ops, uncapped=True).mutate(tree3, module)), -2)

        # (3) the configured enumeration, recorded at every yield; optionally abandoned by the consumer
        tree, paths = fresh()
        mutator = self._mutator(case, ops)
        draws, groups = [], []
        per_index: dict[tuple, int] = {}
        seen: dict[int, int] = {}
        for (k, _h) in full:
            o, p, nm = k[0]
            per_index[(o, tuple(p), nm)] = seen.get(o, 0)
            seen[o] = seen.get(o, 0) + 1

        class RecRandom(randomness.Random):
            def sample(self, population, k, **kw):  # noqa: ANN001
                out = super().sample(population, k, **kw)
                draws.append(list(out))
                return out

        if case["mode"] == "hom":
            strat = mutator.hom_strategy
            orig_generate = strat.generate

            def generate(mutations):
                for g in orig_generate(mutations):
                    groups.append([[ops.index(m.operator),
                                    per_index.get((ops.index(m.operator), paths.get(id(m.node), (-1,)),
                                                   name_id.get(m.visitor_name, -1)), -1)] for m in g])
                    yield g
            strat.generate = generate
        yields, bad_diffs, identical = [], [], 0
        stop = case["stop"]
        err = None
        saved_random = randomness.Random
        randomness.Random = RecRandom
        reseed()
        try:
            ident = [0]

            def consume():
                n = 0
                for muts, mutant in mutator.mutate(tree, module):
                    e = enc(mutant, intern)
                    ks = [key(m, paths) for m in muts]
                    yields.append([ks, thash(e)])
                    if yields[-1][1] == orig_hash:
                        ident[0] += 1
                    mp, outside = outside_mutated(e, ks)
                    if outside:
                        bad_diffs.append({"at": len(yields) - 1, "mutated": [list(q) for q in mp], "differs": outside[:4]})
                    n += 1
                    if stop >= 0 and n >= stop:
                        break
            consume()
            identical = ident[0]
        except Exception as e:  # noqa: BLE001
            errs.append(f"enumeration: {type(e).__name__}: {str(e)[:80]}")
        finally:
            randomness.Random = saved_random
        intact = ast.dump(tree) == dump0
        final = thash(enc(tree, intern))

        # (4) a history of calls on ONE real MutationController wrapping the configured mutator.  Only building the
        # mutant MODULES is stubbed (`create_module` compiles and executes every mutant: not part of the property,
        # and a mutated module body may not terminate); `create_mutants` / `mutant_count` are the real methods.
        calls = case.get("calls") or []
        ctl_out: list[int] = []
        ctl_changed: list[int] = []
        ctl_groups: list = []
        if calls:
            import types

            import pynguin.assertion.mutation_analysis.controller as cm
            tree, paths = fresh()
            mutator4 = self._mutator(case, ops)
            cur: list = []
            if case["mode"] == "hom":
                strat4 = mutator4.hom_strategy
                gen4, paths4 = strat4.generate, paths

                def generate4(mutations):
                    for g in gen4(mutations):
                        cur.append([[ops.index(m.operator),
                                     per_index.get((ops.index(m.operator), paths4.get(id(m.node), (-1,)),
                                                    name_id.get(m.visitor_name, -1)), -1)] for m in g])
                        yield g
                strat4.generate = generate4
            controller = MutationController(mutator4, tree, module)
            saved_create = cm.create_module
            cm.create_module = lambda _ast, name: types.ModuleType(name)
            have_groups = False
            try:
                for j, c in enumerate(calls):
                    reseed()
                    del cur[:]

                    def one_call(c=c):
                        if c == -2:
                            return controller.mutant_count()
                        n = 0
                        gen = controller.create_mutants()
                        try:
                            for _module, _mutations in gen:
                                n += 1
                                if c >= 0 and n >= c:
                                    break
                        finally:
                            gen.close()
                        return n
                    got = guarded(f"controller call {j} of {calls}", one_call, -1)
                    ctl_out.append(got)
                    if ast.dump(tree) != dump0:
                        ctl_changed.append(j)
                    if c < 0 and not have_groups and got >= 0:
                        ctl_groups, have_groups = [list(g) for g in cur], True
            finally:
                cm.create_module = saved_create
            self.count("controller-calls", len(calls))
            if case["mode"] == "first" and 0 <= case["cap"] < len(full) and any(
                    a == -1 and -2 in calls[i + 1:] for i, a in enumerate(calls)):
                self.count("controller:count-after-complete-capped-run")

        # model line
        sizes = [sum(1 for k, _ in full if k[0][0] == o) for o in range(len(ops))]
        hazard = False
        if case["mode"] == "first" and case["cap"] >= 0 and sum(sizes) > case["cap"]:
            total, cap = sum(sizes), case["cap"]
            rems = sorted(((s * cap) % total for s in sizes), reverse=True)
            r = cap - sum(s * cap // total for s in sizes)
            hazard = 0 < r < len(rems) and rems[r - 1] == rems[r]
        mode = "hom" if case["mode"] == "hom" else ("hist" if case["cap"] < 0 and not case["reorder"] else "sel")
        if hazard:
            self.count("skip:float-tie-in-stratified-counts")
            line = None
        else:
            line = jdump({"tree": orig, "ops": optabs, "mode": mode, "cap": case.get("cap", -1),
                          "draws": draws, "groups": groups, "stop": stop,
                          "calls": calls,
                          "ctlGroups": ctl_groups})
        self._lines[jdump(case)] = line
        self.count("mutants", len(yields))
        return {"full": full, "fullIntact": full_intact, "tablesPure": tables_pure, "reported": reported,
                "countIntact": count_intact, "uncapped": uncapped_n, "yields": yields, "intact": intact,
                "final": final, "orig": thash(orig), "badDiffs": bad_diffs, "identical": identical,
                "err": errs[0] if errs else err, "fullBad": full_bad, "ctl": ctl_out, "ctlChanged": ctl_changed,
                "mode": mode, "nodes": len(paths), "draws": draws, "ngroups": len(groups)}

    def model_line(self, case):
        return self._lines.get(jdump(case))

    # -- comparison with the model ------------------------------------------------------------
    def compare(self, case, io, mo):
        if "bad-op" in mo or mo.get("err") is not None or io["err"] is not None:
            return False
        return (mo["count"] == len(io["full"]) and mo["yields"] == io["yields"]
                and mo["intact"] == io["intact"] and mo["final"] == io["final"]
                and mo["ctl"] == io["ctl"])

    # -- the property on the implementation ---------------------------------------------------
    def oracle(self, case, io):
        fs = []
        mut = "hom" if case["mode"] == "hom" else "first-order"
        if not io["fullIntact"] or not io["countIntact"]:
            fs.append(Failure({"mutator": "first-order" if not io["fullIntact"] else mut, "class": "original-changed",
                               "enumeration": "full" if not io["fullIntact"] else "count"},
                              "the original tree's ast.dump differs after a complete enumeration"))
        if not io["intact"]:
            stopped = case["stop"] >= 0 and len(io["yields"]) >= case["stop"]
            fs.append(Failure({"mutator": mut, "class": "original-changed",
                               "enumeration": "abandoned" if stopped else "complete"},
                              f"the original tree's ast.dump differs after the enumeration "
                              f"({'consumer stopped after ' + str(case['stop']) + ' mutant(s)' if stopped else 'run to the end'})"))
        if io["err"] is not None:
            fs.append(Failure({"mutator": mut, "class": "enumeration-raised"}, io["err"]))
        if io["badDiffs"]:
            fs.append(Failure({"mutator": mut, "class": "mutant-differs-outside-mutated-nodes"},
                              f"mutant differs from the original outside its mutated nodes: {io['badDiffs'][0]}",
                              detail=io["badDiffs"][:3]))
        if case["mode"] == "first":
            fullc: dict[str, int] = {}
            for y in io["full"]:
                fullc[jdump(y)] = fullc.get(jdump(y), 0) + 1
            got: dict[str, int] = {}
            for y in io["yields"]:
                got[jdump(y)] = got.get(jdump(y), 0) + 1
            extra = [k for k, v in got.items() if v > fullc.get(k, 0)]
            if extra:
                fs.append(Failure({"mutator": mut, "class": "selected-not-in-full-enumeration"},
                                  f"sampled/reordered enumeration yields a mutant the full enumeration does not: {extra[0][:200]}"))
            cut = (case["cap"] >= 0 and len(io["full"]) > case["cap"]) or case["stop"] >= 0
            if not cut and not extra and got != fullc:
                fs.append(Failure({"mutator": mut, "class": "reordered-not-a-permutation"},
                                  f"reordered enumeration yields {len(io['yields'])} of the {len(io['full'])} mutants"))
        if io.get("fullBad"):
            fs.append(Failure({"mutator": "first-order", "class": "mutant-differs-outside-mutated-nodes",
                               "enumeration": "full"},
                              f"a mutant of the full enumeration differs from the original outside its mutated "
                              f"node: {io['fullBad'][0]}", detail=io["fullBad"][:3]))
        calls = case.get("calls") or []
        for j in io.get("ctlChanged", [])[:1]:
            fs.append(Failure({"mutator": mut, "class": "original-changed", "enumeration": "controller-call"},
                              f"the original tree's ast.dump differs after call {j} of the controller history {calls} "
                              f"(-2 = mutant_count(), -1 = create_mutants() to the end, k = abandoned after k mutants)"))
        for j, (c, got) in enumerate(zip(calls, io.get("ctl", []))):
            if c == -2 and got != io["uncapped"] and got >= 0:
                before = ["nothing" if j == 0 else ("count" if calls[j - 1] == -2 else
                                                    "complete-run" if calls[j - 1] == -1 else "abandoned-run")][0]
                fs.append(Failure({"mutator": mut, "class": "controller-count-differs-from-enumeration", "after": before},
                                  f"MutationController.mutant_count() = {got} as call {j} of the history {calls} on one "
                                  f"controller (-2 = mutant_count(), -1 = create_mutants() to the end, k = abandoned "
                                  f"after k mutants; mutant cap {case.get('cap', -1)}), but the full enumeration of the "
                                  f"same mutator yields {io['uncapped']} mutant(s)"))
                break
        if io["reported"] != io["uncapped"]:
            fs.append(Failure({"mutator": mut, "class": "count-differs-from-enumeration"},
                              f"mutant_count() = {io['reported']} but the uncapped enumeration of the same mutator "
                              f"yields {io['uncapped']} mutant(s)"))
        return fs

    def classify(self, case, io):
        if not io["yields"]:
            return None
        return jdump([hashlib.sha1((case.get("src") or case["kind"]).encode()).hexdigest(),
                      {k: v for k, v in case.items() if k != "src"}])

    def witnesses(self):
        """Replay the two findings of this property on the implementation (both repaired by proposed fixes)."""
        fs = []
        src = "def f(a, b):\n    if a > b:\n        return a - b\n    return a + b\n"
        c1 = {"kind": "witness", "src": src, "ops": [], "mode": "first", "cap": -1, "reorder": False, "stop": 1}
        c2 = {"kind": "witness", "src": src, "ops": [], "mode": "hom", "strategy": "FirstToLast", "order": 2,
              "rngseed": 0, "stop": -1}
        for c in (c1, c2):
            for f in self.oracle(c, self.impl(c)):
                f.case = c
                fs.append(f)
        return fs


if __name__ == "__main__":
    run_main(C28)
