"""C08 — Coverage exclusions remove exactly the excluded code from the goals.

Tie between the Lean model `PynguinModel.Model.Exclusions` (theorems in Props/C08.lean) and the real
`ModuleAstInfo.from_path`, `AstInfo.should_be_covered / should_cover_line /
should_cover_conditional_statement`, `ModuleAstInfo.get_scope`, the `ignore_methods -> no_cover`
step of `install_import_hook`, and the real line / branch adapters driven by
`InstrumentationTransformer.instrument_code`.

One case = one generated module (source text with random exclusion markers) + a configuration
(only-cover / no-cover names, the two inline switches, ignore_methods).  For every case

* `impl`   : the real classes answer every query (no_cover / only_cover line sets, get_scope for every
             line, should_be_covered for every scope, should_cover_line / ..._conditional_statement for
             every line of every scope) and the real instrumentation is run twice: once with the AST
             info switched off (file name that cannot be read -> `from_path` returns None: the goals
             without any exclusion) and once with the configuration (the goals with exclusions);
* `model`  : the Lean driver answers the same queries from the region tree (converted from `ast` by
             `to_tree`) and predicts the goals of the second run from the CFG data of the first;
* `oracle` : the property itself, evaluated on the goals of the real instrumentation by an independent
             structural walk over the `ast` (recursive descent, no flat scan, no pynguin code).
"""
from __future__ import annotations

import ast
import atexit
import io
import json
import logging
import os
import random
import shutil
import sys
import tempfile
import tokenize
import warnings

warnings.simplefilter("ignore")
logging.getLogger("pynguin").setLevel(logging.ERROR)

sys.path.insert(0, os.path.dirname(os.path.abspath(__file__)))
import progen  # noqa: E402
from vcommon import Failure, PropertyCheck, jdump, run_main  # noqa: E402

MODNAME = "c08sut"
SCOPES = (ast.Module, ast.ClassDef, ast.FunctionDef, ast.AsyncFunctionDef, ast.Lambda, ast.ListComp,
          ast.SetComp, ast.DictComp, ast.GeneratorExp)
DEFS = (ast.ClassDef, ast.FunctionDef, ast.AsyncFunctionDef)
TRY = (ast.Try, ast.TryStar)


# =============================================================================================
# Generator
# =============================================================================================
class SrcGen:
    """Random module text. Never executed (only compiled), so names need not be bound."""

    def __init__(self, rng: random.Random, p_mark: float):
        self.r = rng
        self.p_mark = p_mark
        self.n = 0

    def fresh(self, p: str) -> str:
        self.n += 1
        return f"{p}{self.n}"

    def mark(self, weight: float = 1.0) -> str:
        r = self.r
        if r.random() >= self.p_mark * weight:
            if r.random() < 0.03:  # decoys that must NOT count as markers
                return r.choice(["  # pragma: nocover", "  # no cover", "  #pragma: no cover",
                                 "  # pragma no cover", "  # pynguin:no cover"])
            return ""
        sp = lambda: " " * r.choice([1, 1, 1, 2])  # noqa: E731
        return f"  #{sp()}{r.choice(['pragma:', 'pynguin:'])}{sp()}no{sp()}cover" + r.choice(["", "", " - why"])

    def expr(self) -> str:
        r = self.r
        k = r.random()
        if k < 0.5:
            return r.choice(["a", "b", "x", "y", "1", "2"])
        if k < 0.8:
            return f"({r.choice('abxy')} {r.choice(['+', '-', '*'])} {r.randint(0, 5)})"
        return f"g({r.choice('abxy')})"

    def cond(self) -> str:
        r = self.r
        k = r.random()
        if k < 0.5:
            return f"{self.expr()} {r.choice(['<', '>', '==', '!=', '<=', 'in'])} {self.expr()}"
        if k < 0.7:
            return f"{r.choice('abxy')} {r.choice(['and', 'or'])} {r.choice('abxy')}"
        if k < 0.8:
            return f"not {r.choice('abxy')}"
        if k < 0.9:
            return f"{r.choice('abxy')} is None"
        return r.choice("abxy")

    def simple(self, in_loop: bool, in_func: bool) -> list[str]:
        r = self.r
        v = r.choice("xyz")
        kinds = ["assign"] * 4 + ["aug", "call", "ternary", "assert", "boolop", "lambda", "genexp", "listcomp",
                                   "pass", "two", "multiline"]
        if in_loop:
            kinds += ["break", "continue"]
        if in_func:
            kinds += ["return", "return"]
        k = r.choice(kinds)
        m = self.mark(0.5)
        if k == "assign":
            return [f"{v} = {self.expr()}{m}"]
        if k == "aug":
            return [f"{v} += {self.expr()}{m}"]
        if k == "call":
            return [f"g({self.expr()}){m}"]
        if k == "ternary":
            return [f"{v} = {self.expr()} if {self.cond()} else {self.expr()}{m}"]
        if k == "assert":
            return [f"assert {self.cond()}{m}"]
        if k == "boolop":
            return [f"{v} = {r.choice('abxy')} {r.choice(['and', 'or'])} g({r.choice('abxy')}){m}"]
        if k == "lambda":
            return [f"{v} = (lambda q: q + 1 if q > {self.expr()} else q)({self.expr()}){m}"]
        if k == "genexp":
            return [f"{v} = sum(j for j in range({self.expr()}) if j != {self.expr()}){m}"]
        if k == "listcomp":
            return [f"{v} = [k * 2 for k in range(3) if k > {self.expr()}]{m}"]
        if k == "pass":
            return [f"pass{m}"]
        if k == "two":
            return [f"{v} = {self.expr()}; z = {self.expr()}{m}"]
        if k == "multiline":
            return [f"{v} = g({self.expr()},{self.mark(0.3)}", f"      {self.expr()}){m}"]
        if k == "break":
            return [f"break{m}"]
        if k == "continue":
            return [f"continue{m}"]
        if k == "return":
            return [f"return {self.expr()}{m}"]
        raise AssertionError(k)

    @staticmethod
    def ind(ls: list[str]) -> list[str]:
        return ["    " + l if l else l for l in ls]

    def gap(self) -> list[str]:
        """Optional blank / comment lines (they become `inter lines` before else/finally)."""
        r = self.r
        k = r.random()
        if k < 0.85:
            return []
        if k < 0.93:
            return [""]
        return ["# note" + self.mark(0.6)]

    def block(self, depth: int, in_loop: bool, in_func: bool, n: int | None = None) -> list[str]:
        out: list[str] = []
        for _ in range(n if n is not None else self.r.choice([1, 1, 2, 2, 3])):
            st = self.stmt(depth, in_loop, in_func)
            out += st
            if st[0].split(" ")[0].split("#")[0].strip() in ("return", "break", "continue"):
                break  # no dead code after a terminator (pynguin's CFG builder does not accept all of it)
        return out

    def stmt(self, depth: int, in_loop: bool, in_func: bool) -> list[str]:
        r = self.r
        if depth >= 3 or r.random() < 0.35 + 0.2 * depth:
            return self.simple(in_loop, in_func)
        ind = self.ind
        H = 2.5  # headers carry markers more often
        B = lambda lp=in_loop: self.block(depth + 1, lp, in_func)  # noqa: E731
        k = r.choice(["if", "if", "ifelse", "ifelse", "elif", "elseif", "while", "for", "try", "try", "tryfinally",
                      "with", "match", "def", "class", "oneliner", "special", "gapstmt"])
        if k == "if":
            return [f"if {self.cond()}:{self.mark(H)}"] + ind(B())
        if k == "ifelse":
            return ([f"if {self.cond()}:{self.mark(H)}"] + ind(B()) + self.gap()
                    + [f"else:{self.mark(H)}"] + ind(B()))
        if k == "elif":
            out = [f"if {self.cond()}:{self.mark(H)}"] + ind(B())
            for _ in range(r.randint(1, 2)):
                out += self.gap() + [f"elif {self.cond()}:{self.mark(H)}"] + ind(B())
            if r.random() < 0.7:
                out += self.gap() + [f"else:{self.mark(H)}"] + ind(B())
            return out
        if k == "elseif":  # `else:` whose only statement is an `if` (looks like an elif in the AST)
            inner = [f"if {self.cond()}:{self.mark(H)}"] + ind(B())
            if r.random() < 0.5:
                inner += [f"else:{self.mark(H)}"] + ind(B())
            return [f"if {self.cond()}:{self.mark(H)}"] + ind(B()) + [f"else:{self.mark(H)}"] + ind(inner)
        if k == "while":
            out = [f"while {self.cond()}:{self.mark(H)}"] + ind(B(True))
            if r.random() < 0.35:
                out += self.gap() + [f"else:{self.mark(H)}"] + ind(B())
            return out
        if k == "for":
            out = [f"for {self.fresh('i')} in range({self.expr()}):{self.mark(H)}"] + ind(B(True))
            if r.random() < 0.35:
                out += self.gap() + [f"else:{self.mark(H)}"] + ind(B())
            return out
        if k == "try":
            out = [f"try:{self.mark(H)}"] + ind(B())
            for _ in range(r.randint(1, 2)):
                exc = r.choice(["ValueError", "KeyError", "(KeyError, ValueError)", "Exception"])
                out += self.gap() + [f"except {exc}{r.choice(['', ' as err'])}:{self.mark(H)}"] + ind(B())
            if r.random() < 0.4:
                out += self.gap() + [f"else:{self.mark(H)}"] + ind(B())
            if r.random() < 0.4:
                out += self.gap() + [f"finally:{self.mark(H)}"] + ind(B())
            return out
        if k == "tryfinally":
            return [f"try:{self.mark(H)}"] + ind(B()) + self.gap() + [f"finally:{self.mark(H)}"] + ind(B())
        if k == "with":
            return [f"with ctx({self.expr()}) as cm:{self.mark(H)}"] + ind(B())
        if k == "match":
            out = [f"match {self.expr()}:{self.mark(H)}"]
            pats = [str(r.randint(0, 3)), f"{r.randint(4, 5)} | {r.randint(6, 7)}", f"[p, q] if p > {self.expr()}",
                    "str() as s", "_"]
            for p in r.sample(pats[:-1], r.randint(1, 2)) + (["_"] if r.random() < 0.6 else []):
                out += ind([f"case {p}:{self.mark(H)}"] + ind(self.block(depth + 2, in_loop, in_func, 1)))
            return out
        if k == "def":
            return self.func(depth + 1)
        if k == "class":
            return self.klass(depth + 1)
        if k == "oneliner":
            kk = r.choice(["if", "ifelse", "for", "try"])
            if kk == "if":
                return [f"if {self.cond()}: x = {self.expr()}{self.mark(H)}"]
            if kk == "ifelse":
                return [f"if {self.cond()}: x = {self.expr()}{self.mark(H)}", f"else: y = {self.expr()}{self.mark(H)}"]
            if kk == "for":
                return [f"for {self.fresh('i')} in range(3): x += 1{self.mark(H)}"]
            return [f"try: x = g(a){self.mark(H)}", f"except ValueError: x = 0{self.mark(H)}",
                    f"finally: y = 1{self.mark(H)}"]
        if k == "special":
            test = r.choice(["TYPE_CHECKING", "typing.TYPE_CHECKING", "__name__ == \"__main__\"",
                             "__name__ == '__main__'", "types.TYPE_CHECKING", "not TYPE_CHECKING",
                             "\"__main__\" == __name__"])
            out = [f"if {test}:{self.mark(0.5)}"] + ind(B())
            if r.random() < 0.4:
                out += [f"else:{self.mark(0.5)}"] + ind(B())
            return out
        if k == "gapstmt":
            return ["", "# a comment" + self.mark(0.4)] + self.simple(in_loop, in_func)
        raise AssertionError(k)

    def decorators(self) -> list[str]:
        r = self.r
        if r.random() < 0.3:
            return [f"@{r.choice(['deco', 'deco2(1)', 'deco'])}{self.mark(0.8)}" for _ in range(r.randint(1, 2))]
        return []

    def func(self, depth: int, name: str | None = None, method: bool = False) -> list[str]:
        name = name or self.fresh("fn")
        args = "self, a, b" if method else "a, b"
        hdr = f"{self.r.choice(['def', 'def', 'def', 'async def'])} {name}({args}):{self.mark(1.5)}"
        body = self.block(depth, False, True, self.r.randint(1, 3))
        if self.r.random() < 0.2:
            body = ['"""Doc."""'] + body
        return self.decorators() + [hdr] + self.ind(body)

    def klass(self, depth: int, name: str | None = None) -> list[str]:
        name = name or self.fresh("Kl")
        body: list[str] = []
        if self.r.random() < 0.5:
            body += [f"attr = {self.expr()}{self.mark(0.5)}"]
        for _ in range(self.r.randint(1, 2)):
            body += self.func(depth + 1, method=True)
        if self.r.random() < 0.3:
            body += self.stmt(depth + 1, False, False)
        return self.decorators() + [f"class {name}:{self.mark(1.5)}"] + self.ind(body)

    def module(self) -> str:
        r = self.r
        out = ["import typing", "from typing import TYPE_CHECKING", "", "def deco(f):", "    return f", ""]
        for _ in range(r.choice([1, 2, 2, 3])):
            k = r.random()
            if k < 0.45:
                out += self.func(0) + [""]
            elif k < 0.65:
                out += self.klass(0) + [""]
            else:
                out += self.stmt(0, False, False)
        return "\n".join(out) + "\n"


def annotate(src: str, rng: random.Random, p: float) -> str:
    """Append markers to random lines of an existing program (progen modules)."""
    out = []
    for line in src.splitlines():
        s = line.strip()
        if s and not s.startswith("#") and rng.random() < (p * 2.5 if s.endswith(":") else p * 0.5):
            line += "  # " + rng.choice(["pragma", "pynguin"]) + ": no cover"
        out.append(line)
    return "\n".join(out) + "\n"


# =============================================================================================
# AST helpers of the harness (own code; nothing imported from pynguin)
# =============================================================================================
def first_line(n: ast.AST) -> int:
    ln = getattr(n, "lineno", 1)
    return min([ln, *(d.lineno for d in getattr(n, "decorator_list", []))])


def line_range(n: ast.AST) -> tuple[int, int]:
    if isinstance(n, ast.Module):
        return (0, (n.body[-1].end_lineno or 0) if n.body else 0)
    if isinstance(n, ast.match_case):
        s = n.pattern.lineno
        return (s, n.body[-1].end_lineno or s)
    s = getattr(n, "lineno", 1)
    return (s, getattr(n, "end_lineno", s) or s)


def preorder(tree: ast.AST) -> list[ast.AST]:
    out = [tree]
    for c in ast.iter_child_nodes(tree):
        out += preorder(c)
    return out


def scope_label(n: ast.AST) -> str:
    if isinstance(n, ast.Module):
        return ""
    if isinstance(n, ast.Lambda):
        return "<lambda>"
    if isinstance(n, (ast.ListComp, ast.SetComp, ast.DictComp, ast.GeneratorExp)):
        return f"<generator-{n.lineno}>"
    return n.name


def is_special_if(n: ast.If) -> bool:
    t = n.test
    if isinstance(t, ast.Name):
        return t.id == "TYPE_CHECKING"
    if isinstance(t, ast.Attribute):
        return t.attr == "TYPE_CHECKING" and isinstance(t.value, ast.Name) and t.value.id in ("typing", "types")
    if isinstance(t, ast.Compare) and len(t.ops) == 1 and isinstance(t.ops[0], ast.Eq):
        left, right = t.left, t.comparators[0]
        return (isinstance(left, ast.Name) and left.id == "__name__" and isinstance(right, ast.Constant)
                and isinstance(right.value, str) and right.value == "__main__")
    return False


def marker_lines(src: str, word: str) -> list[int]:
    """Lines whose COMMENT carries `# <word>: no cover` (tokenizer based, independent of the regex)."""
    out = []
    try:
        toks = list(tokenize.generate_tokens(io.StringIO(src).readline))
    except (tokenize.TokenError, IndentationError):
        return out
    for t in toks:
        if t.type != tokenize.COMMENT:
            continue
        text = t.string
        i = 0
        while True:
            i = text.find("#", i)
            if i < 0:
                break
            rest = text[i + 1:]
            stripped = rest.lstrip(" ")
            ok = len(stripped) < len(rest) and stripped.startswith(word + ":")
            if ok:
                rest2 = stripped[len(word) + 1:]
                s2 = rest2.lstrip(" ")
                ok = len(s2) < len(rest2) and s2.startswith("no")
                if ok:
                    rest3 = s2[2:]
                    s3 = rest3.lstrip(" ")
                    ok = len(s3) < len(rest3) and s3.startswith("cover")
            if ok:
                out.append(t.start[0])
                break
            i += 1
    return sorted(set(out))


def qualified_names(tree: ast.Module) -> dict[str, int]:
    """Qualified names of scopes reachable through *direct* nesting (what a user can name)."""
    out: dict[str, int] = {}

    def rec(n: ast.AST, parent: str) -> None:
        if isinstance(n, ast.Module):
            full = ""
        else:
            nm = scope_label(n)
            full = f"{parent}.{nm}" if parent else nm
            out[full] = n.lineno
        for c in ast.iter_child_nodes(n):
            if isinstance(c, SCOPES):
                rec(c, full)

    rec(tree, "")
    return out


def to_tree(n: ast.AST, parent: ast.AST | None = None) -> list:
    """Region tree for the Lean model: [kind, flagA, flagB, name, first, s, e, hdr, body, handlers, orelse, final]."""
    def many(nodes, par=None):
        out = []
        for c in nodes:
            out += any_(c, par)
        return out

    def any_(c, par=None):
        if c is None:
            return []
        if isinstance(c, (*SCOPES, ast.stmt, ast.ExceptHandler, ast.match_case)):
            return [to_tree(c, par)]
        sub = many(ast.iter_child_nodes(c))
        if not sub:
            return []
        lo = min(x[4] for x in sub)
        hi = max(x[6] for x in sub)
        return [["other", False, False, "", lo, lo, hi, sub, [], [], [], []]]

    s, e = line_range(n)
    f = min(first_line(n), s) if not isinstance(n, (ast.Module, ast.match_case)) else s
    mk = lambda kind, a=False, b=False, nm="", hdr=(), body=(), hs=(), oe=(), fin=(): [  # noqa: E731
        kind, a, b, nm, f, s, e, list(hdr), list(body), list(hs), list(oe), list(fin)]
    if isinstance(n, ast.Module):
        return mk("module", body=many(n.body))
    if isinstance(n, (ast.FunctionDef, ast.AsyncFunctionDef)):
        return mk("scope", True, False, n.name, hdr=any_(n.args), body=many(n.body),
                  fin=many(n.decorator_list) + any_(n.returns) + many(getattr(n, "type_params", [])))
    if isinstance(n, ast.ClassDef):
        return mk("scope", True, False, n.name, hdr=many(n.bases) + many(n.keywords), body=many(n.body),
                  fin=many(n.decorator_list) + many(getattr(n, "type_params", [])))
    if isinstance(n, ast.Lambda):
        return mk("scope", False, False, "<lambda>", hdr=any_(n.args), body=any_(n.body))
    if isinstance(n, (ast.ListComp, ast.SetComp, ast.DictComp, ast.GeneratorExp)):
        return mk("scope", False, False, scope_label(n), body=many(ast.iter_child_nodes(n)))
    if isinstance(n, ast.If):
        is_elif = (isinstance(parent, ast.If) and len(parent.orelse) == 1 and parent.orelse[0] is n
                   and n.col_offset == parent.col_offset)
        return mk("ifK", is_special_if(n), is_elif, hdr=any_(n.test), body=many(n.body, n), oe=many(n.orelse, n))
    if isinstance(n, (ast.For, ast.While)):
        hdr = any_(n.target) + any_(n.iter) if isinstance(n, ast.For) else any_(n.test)
        return mk("loop", hdr=hdr, body=many(n.body), oe=many(n.orelse))
    if isinstance(n, TRY):
        return mk("tryK", body=many(n.body), hs=many(n.handlers), oe=many(n.orelse), fin=many(n.finalbody))
    if isinstance(n, ast.ExceptHandler):
        return mk("handler", hdr=any_(n.type), body=many(n.body))
    if isinstance(n, ast.Match):
        return mk("matchK", hdr=any_(n.subject), hs=many(n.cases))
    if isinstance(n, ast.match_case):
        return mk("case", hdr=any_(n.pattern) + any_(n.guard), body=many(n.body))
    return mk("other", hdr=many(ast.iter_child_nodes(n)))


# =============================================================================================
# The independent property oracle: structural "excluded code"
# =============================================================================================
class Excluded:
    """Which lines / scopes are 'inside excluded code', by recursive descent over the ast.

    * a line carrying a marker (or lying in a `__main__` / TYPE_CHECKING block, or being the def line of a
      no-cover name) is excluded;
    * the block guarded by an excluded header is excluded: if/for/while/try header -> its body; `except` ->
      the handler body; the line(s) between two blocks (where `else:` / `finally:` stand) -> that
      else/finally block; `case` -> its body; `match` -> the whole statement; an `elif` is an `if`;
    * def/class whose def line is excluded -> the whole definition (and everything nested in it);
    * everything nested in an excluded block is excluded (including nested definitions).
    """

    def __init__(self, tree: ast.Module, src: str, nc: set[int]):
        self.nc = nc
        self.src_lines = src.splitlines()
        self.lines: set[int] = set(nc)          # excluded lines
        self.block_lines: set[int] = set()      # lines excluded because of an enclosing block / scope
        self.scope_excluded: dict[int, bool] = {}  # id(scope node) -> excluded
        self.walk(tree.body, False)
        self.scope_excluded[id(tree)] = False
        for n in ast.walk(tree):  # expression-level scopes (lambda, comprehensions): by their line
            if isinstance(n, SCOPES) and id(n) not in self.scope_excluded:
                self.scope_excluded[id(n)] = n.lineno in self.lines

    def is_elif(self, st: ast.If) -> bool:
        if len(st.orelse) == 1 and isinstance(st.orelse[0], ast.If):
            o = st.orelse[0]
            text = self.src_lines[o.lineno - 1]
            return text[o.col_offset:o.col_offset + 4] == "elif"
        return False

    def inter(self, prev: list, after: list) -> bool:
        if not prev or not after:
            return False
        lo = (prev[-1].end_lineno or prev[-1].lineno) + 1
        hi = first_line(after[0])
        return any(l in self.nc for l in range(lo, hi))

    def exclude_all(self, st: ast.AST) -> None:
        s, e = first_line(st), getattr(st, "end_lineno", None) or st.lineno
        for l in range(s, e + 1):
            self.lines.add(l)
            self.block_lines.add(l)

    def walk(self, stmts: list, excl: bool) -> None:
        for st in stmts:
            if excl:
                self.exclude_all(st)
            m = st.lineno in self.nc
            if isinstance(st, ast.If):
                self.walk(st.body, excl or m)
                if st.orelse:
                    if self.is_elif(st):
                        self.walk(st.orelse, excl)
                    else:
                        self.walk(st.orelse, excl or self.inter(st.body, st.orelse))
            elif isinstance(st, (ast.For, ast.While)):
                self.walk(st.body, excl or m)
                if st.orelse:
                    self.walk(st.orelse, excl or self.inter(st.body, st.orelse))
            elif isinstance(st, TRY):
                self.walk(st.body, excl or m)
                last = st.body
                for h in st.handlers:
                    self.walk(h.body, excl or h.lineno in self.nc)
                    last = h.body
                if st.orelse:
                    self.walk(st.orelse, excl or self.inter(last, st.orelse))
                    last = st.orelse
                if st.finalbody:
                    self.walk(st.finalbody, excl or self.inter(last, st.finalbody))
            elif isinstance(st, ast.Match):
                if m:
                    self.exclude_all(st)
                for c in st.cases:
                    self.walk(c.body, excl or m or c.pattern.lineno in self.nc)
            elif isinstance(st, DEFS):
                ex = excl or m
                self.scope_excluded[id(st)] = ex
                if ex:
                    for l in range(st.lineno, (st.end_lineno or st.lineno) + 1):
                        self.lines.add(l)
                        self.block_lines.add(l)
                self.walk(st.body, ex)
            else:
                for fld in ("body", "orelse", "finalbody"):
                    sub = getattr(st, fld, None)
                    if isinstance(sub, list) and sub and isinstance(sub[0], ast.stmt):
                        self.walk(sub, excl)


# =============================================================================================
# The check
# =============================================================================================
class C08(PropertyCheck):
    prop_id = "C08"
    prop_modules = ["PynguinModel.Props.C08"]
    extra_modules = ["PynguinModel.Lemmas.Exclusions"]
    driver = "Driver/C08.lean"
    n_quick = 80
    n_thorough = 900   # 1500 took 23 min under load
    n_search = 400
    rule = ("one case = one generated module with random exclusion markers + names; non-trivial = at least one "
            "line/branch/code-object goal of the exclusion-free run is removed by the configuration; distinct = "
            "distinct (source, configuration)")
    assumptions = [
        "ast.parse / compile of CPython 3.12 (line numbers of nodes and instructions) are not modelled",
        "markers are recognised on comment tokens in the canonical spellings '# pragma: no cover' / "
        "'# pynguin: no cover' (1+ spaces); a marker excludes its own line and, on the first line of an "
        "if/for/while/try/except/match/case/def/class header or on the line(s) between two blocks "
        "(else/finally), the block it introduces; multi-line headers with the marker on a continuation "
        "line, `with`/`async for` headers and markers inside string literals are outside the generator",
        "only-cover: nothing is demanded for lines outside the only-cover scopes (their ancestors stay "
        "instrumented as a whole)",
    ]
    trusted_base_extra = [
        "harness/c08.py to_tree: conversion of the CPython ast to the region tree (ranges, decorators, elif flag, "
        "special-if flag); validated on every case by the per-line comparison with the real AstInfo methods",
        "the CFG data (instruction lines per basic block, predicate-bearing blocks) is read from pynguin's own "
        "exclusion-free instrumentation run, not modelled",
    ]

    def __init__(self, tier: str, seed: int):
        super().__init__(tier, seed)
        self.tmp = tempfile.mkdtemp(prefix="verif_c08_")
        atexit.register(shutil.rmtree, self.tmp, ignore_errors=True)
        self._n = 0
        self._payload: dict[str, dict] = {}

    def __del__(self):
        shutil.rmtree(getattr(self, "tmp", ""), ignore_errors=True)

    # ---- generation ---------------------------------------------------------------------------
    def gen_case(self, rng: random.Random):
        while True:
            p = rng.choice([0.0, 0.04, 0.08, 0.08, 0.15, 0.3])
            if rng.random() < 0.3:
                src = annotate(progen.gen_module(rng, n_funcs=1, with_class=rng.random() < 0.2,
                                                 with_generator=rng.random() < 0.2), rng, p)
                kind = "progen"
            else:
                src = SrcGen(rng, p).module()
                kind = "own"
            try:
                tree = ast.parse(src)
                compile(src, "<c08>", "exec")
            except SyntaxError:
                self.count("gen:rejected-syntax")
                continue
            try:  # programs on which pynguin's CFG construction itself fails are outside this property
                self._base_cache = (src, self._baseline(src))
            except Exception:  # noqa: BLE001
                self.count("gen:rejected-cfg-construction-fails")
                continue
            break
        names = qualified_names(tree)
        resolvable = sorted(names)
        alln = sorted({getattr(n, "name", None) for n in ast.walk(tree) if isinstance(n, DEFS)} - {None})
        pick = lambda k: rng.sample(resolvable + alln + ["nosuch", "Kl1.nosuch"],  # noqa: E731
                                    min(k, len(resolvable) + len(alln) + 2))
        only = pick(rng.randint(1, 2)) if rng.random() < 0.35 else []
        no = pick(rng.randint(1, 3)) if rng.random() < 0.4 else []
        if only and no and rng.random() < 0.15:
            no = no + [only[0]]
        ignore = []
        if rng.random() < 0.15 and resolvable:
            ignore = [f"{MODNAME}.{rng.choice(resolvable)}", f"other.{rng.choice(resolvable)}",
                      f"{MODNAME}x.{rng.choice(resolvable)}"][: rng.randint(1, 3)]
        self.count("kind:" + kind)
        return {"src": src, "only": only, "no": no, "pragma": rng.random() < 0.85, "pyn": rng.random() < 0.85,
                "ignore": ignore}

    # ---- the real implementation ---------------------------------------------------------------
    def _write(self, src: str) -> str:
        self._n += 1
        d = os.path.join(self.tmp, f"m{self._n}")
        os.makedirs(d, exist_ok=True)
        path = os.path.join(d, MODNAME + ".py")
        with open(path, "w", encoding="utf-8") as f:
            f.write(src)
        return path

    @staticmethod
    def _instrument(code, tc):
        """Run the real transformer (branch + line adapters). Returns (subject_properties, error-name)."""
        import pynguin.configuration as config
        from pynguin.instrumentation.machinery import build_transformer
        from pynguin.instrumentation.tracer import SubjectProperties

        sp = SubjectProperties()
        tr = build_transformer(sp, {config.CoverageMetric.BRANCH, config.CoverageMetric.LINE}, tc)
        try:
            with sp.instrumentation_tracer:
                tr.instrument_code(code, MODNAME)
        except ValueError:
            return sp, "ValueError"
        return sp, None

    @staticmethod
    def _goals(sp):
        lines = sorted({-1 if not isinstance(m.line_number, int) else m.line_number
                        for m in sp.existing_lines.values()})
        key = {i: [m.code_object.co_name, m.code_object.co_firstlineno] for i, m in sp.existing_code_objects.items()}
        preds = sorted({jdump([key[m.code_object_id], m.node.index]) for m in sp.existing_predicates.values()})
        pred_lines = sorted({(m.line_no if isinstance(m.line_no, int) else -1, jdump(key[m.code_object_id]))
                             for m in sp.existing_predicates.values()})
        cos = sorted({jdump(k) for k in key.values()})
        return {"lines": lines, "preds": [json.loads(p) for p in preds], "cos": [json.loads(c) for c in cos],
                "pred_lines": [[l, json.loads(k)] for l, k in pred_lines]}

    def _baseline(self, src: str):
        """Exclusion-free run: goals + the CFG data the model needs (per code object, per basic block)."""
        import pynguin.configuration as config
        from bytecode import Bytecode
        from pynguin.instrumentation import controlflow as cf
        from pynguin.instrumentation import version

        code = compile(src, os.path.join(self.tmp, "does-not-exist", MODNAME + ".py"), "exec")
        sp, err = self._instrument(code, config.ToCoverConfiguration())
        assert err is None
        goals = self._goals(sp)
        pred_nodes = {(m.code_object_id, m.node.index) for m in sp.existing_predicates.values()}
        by_key = {}
        for i, m in sp.existing_code_objects.items():
            by_key.setdefault((m.code_object.co_name, m.code_object.co_firstlineno), []).append(i)

        def co_tree(c):
            cfg = cf.CFG.from_bytecode(version.add_for_loop_no_yield_nodes(Bytecode.from_code(c)))
            ids = by_key.get((c.co_name, c.co_firstlineno), [])
            nodes = []
            for node in sorted(cfg.basic_block_nodes, key=lambda n: n.index):
                instrs = [[ins.lineno if isinstance(ins.lineno, int) else None, ins.name in ("RESUME", "RETURN_GENERATOR")]
                          for ins in node.original_instructions]
                last = node.try_get_instruction(-1)
                has_pred = any((i, node.index) in pred_nodes for i in ids)
                nodes.append([node.index, has_pred,
                              last.lineno if last is not None and isinstance(last.lineno, int) else None,
                              last is not None, instrs])
            kids = [co_tree(k) for k in c.co_consts if hasattr(k, "co_code")]
            return [c.co_name, c.co_firstlineno, c.co_name == "<module>", c.co_name == "__annotate__", nodes, kids]

        return goals, co_tree(code)

    def impl(self, case):
        import pynguin.configuration as config
        from pynguin.instrumentation.machinery import install_import_hook
        from pynguin.instrumentation.tracer import SubjectProperties
        from pynguin.instrumentation.transformer import AstInfo, ModuleAstInfo

        src = case["src"]
        path = self._write(src)
        tc = config.ToCoverConfiguration(only_cover=list(case["only"]), no_cover=list(case["no"]),
                                         enable_inline_pynguin_no_cover=case["pyn"],
                                         enable_inline_pragma_no_cover=case["pragma"])
        out: dict = {}
        if case["ignore"]:
            old = config.configuration.ignore_methods
            config.configuration.ignore_methods = list(case["ignore"])
            try:
                hook = install_import_hook(MODNAME, SubjectProperties(), {config.CoverageMetric.BRANCH}, tc)
                hook.uninstall()
            finally:
                config.configuration.ignore_methods = old
        out["no_names"] = list(tc.no_cover)
        cached = getattr(self, "_base_cache", None)
        base_goals, co_tree = cached[1] if cached and cached[0] == src else self._baseline(src)
        self._payload[self._key(case)] = {"co": co_tree, "base": base_goals}
        try:
            mai = ModuleAstInfo.from_path(path, tc)
        except ValueError:
            mai = "ValueError"
        code = compile(src, path, "exec")
        sp, err = self._instrument(code, tc)
        if mai == "ValueError" or err is not None:
            if not (mai == "ValueError" and err == "ValueError"):
                raise RuntimeError(f"from_path / instrument_code disagree on the conflict error: {mai!r} {err!r}")
            out["err"] = "ValueError"
            return out
        assert mai is not None
        out["nc"] = sorted(mai.no_cover_lines)
        out["oc"] = sorted(mai.only_cover_lines)
        nodes = preorder(mai.module_ast)
        scopes = [n for n in nodes if isinstance(n, SCOPES)]
        index = {id(n): i for i, n in enumerate(scopes)}
        nl = len(src.splitlines()) + 1
        gs = []
        for l in range(0, nl + 1):
            info = mai.get_scope(l)
            gs.append(-1 if info is None else index[id(info.ast)])
        out["get_scope"] = gs
        rows = []
        for sc in scopes:
            info = AstInfo(ast=sc, module=mai)
            s, e = line_range(sc)
            lo, hi = max(0, min(first_line(sc) if not isinstance(sc, ast.Module) else 0, s) - 1), e + 1
            rows.append([lo, bool(info.should_be_covered()),
                         "".join("1" if info.should_cover_line(l) else "0" for l in range(lo, hi + 1)),
                         "".join("1" if info.should_cover_conditional_statement(l) else "0"
                                 for l in range(lo, hi + 1))])
        out["scopes"] = rows
        out["goals"] = self._goals(sp)
        out["goals"].pop("pred_lines")
        out["_pred_lines"] = self._goals(sp)["pred_lines"]
        return out

    @staticmethod
    def _key(case) -> str:
        import hashlib
        return hashlib.sha1(jdump(case).encode()).hexdigest()

    # ---- the model -------------------------------------------------------------------------------
    def model_line(self, case):
        src = case["src"]
        tree = ast.parse(src)
        pl = self._payload.get(self._key(case))
        if pl is None:
            return None
        return jdump({"tree": to_tree(tree), "pragmaLines": marker_lines(src, "pragma"),
                      "pynLines": marker_lines(src, "pynguin"), "pragma": case["pragma"], "pyn": case["pyn"],
                      "only": case["only"], "no": case["no"], "ignore": case["ignore"], "modname": MODNAME,
                      "nlines": len(src.splitlines()) + 1, "co": pl["co"]})

    @staticmethod
    def _canon(out: dict) -> dict:
        """Order-insensitive view: line sets and goal sets are sets in the implementation."""
        o = {k: v for k, v in out.items() if not k.startswith("_") and k != "hyp"}
        for k in ("nc", "oc"):
            if k in o:
                o[k] = sorted(set(o[k]))
        if "goals" in o:
            g = o["goals"]
            o["goals"] = {"lines": sorted(set(g["lines"])), "preds": sorted({jdump(x) for x in g["preds"]}),
                          "cos": sorted({jdump(x) for x in g["cos"]})}
        return o

    def compare(self, case, impl_out, model_out) -> bool:
        hyp = model_out.get("hyp") if isinstance(model_out, dict) else None
        if isinstance(hyp, dict):
            for k, v in hyp.items():
                self.count(f"hypothesis:{k}:{'holds' if v else 'FAILS'}")
        return self._canon(impl_out) == self._canon(model_out)

    # ---- the property on the implementation --------------------------------------------------------
    def oracle(self, case, impl_out):
        if "err" in impl_out:
            return []
        src = case["src"]
        tree = ast.parse(src)
        pl = self._payload.get(self._key(case))
        if pl is None:
            return []
        base = pl["base"]
        # excluded code, from the configuration, with the harness' own resolution of markers and names
        names = qualified_names(tree)
        nc = set()
        prefix = MODNAME + "."  # ignore_methods of this module count as no-cover names (install_import_hook)
        for nm in list(case["no"]) + [m[len(prefix):] for m in case["ignore"] if m.startswith(prefix)]:
            if nm in names:
                nc.add(names[nm])
        if case["pragma"]:
            nc |= set(marker_lines(src, "pragma"))
        if case["pyn"]:
            nc |= set(marker_lines(src, "pynguin"))
        for n in ast.walk(tree):
            if isinstance(n, ast.If) and is_special_if(n):
                nc |= set(range(n.lineno, (n.end_lineno or n.lineno) + 1))
        only_defs = [n for n in ast.walk(tree) if isinstance(n, SCOPES) and not isinstance(n, ast.Module)
                     and any(names.get(nm) == n.lineno for nm in case["only"])]
        ex = Excluded(tree, src, nc)
        goals = impl_out["goals"]
        fails: list[Failure] = []

        def why(l: int) -> str:
            return "marked-line" if l in nc else "inside-excluded-block"

        # (a) no line goal inside excluded code
        for l in goals["lines"]:
            if l >= 0 and l in ex.lines:
                fails.append(Failure({"goal": "line", "class": why(l)},
                                     f"line {l} is a line goal although it lies inside excluded code ({why(l)})",
                                     detail={"line": l}))
                break
        # (a') no branch goal inside excluded code
        for l, key in impl_out["_pred_lines"]:
            if l >= 0 and l in ex.lines:
                fails.append(Failure({"goal": "branch", "class": why(l)},
                                     f"a predicate of code object {key} is registered on line {l} which lies inside "
                                     f"excluded code ({why(l)})", detail={"line": l, "code_object": key}))
                break
        # (a'') no code-object goal inside excluded code
        scopes = [n for n in ast.walk(tree) if isinstance(n, SCOPES) and not isinstance(n, ast.Module)]

        def co_name(n):
            if isinstance(n, ast.Lambda):
                return "<lambda>"
            if isinstance(n, ast.GeneratorExp):
                return "<genexpr>"
            if isinstance(n, ast.ListComp):
                return "<listcomp>"
            if isinstance(n, ast.SetComp):
                return "<setcomp>"
            if isinstance(n, ast.DictComp):
                return "<dictcomp>"
            return n.name

        by_key: dict[tuple, list] = {}
        for n in scopes:
            by_key.setdefault((co_name(n), first_line(n)), []).append(n)
        for name, fl in goals["cos"]:
            cands = by_key.get((name, fl), [])
            if cands and all(ex.scope_excluded.get(id(n), False) or n.lineno in ex.lines for n in cands):
                fails.append(Failure({"goal": "code-object", "class": why(cands[0].lineno)},
                                     f"code object {name}@{fl} is registered although its definition lies inside "
                                     f"excluded code", detail={"code_object": [name, fl]}))
                break
        # (b) every executable line outside excluded code (inside only-cover scopes, when given) is a line goal
        have = set(goals["lines"])
        only_resolved = bool(impl_out["oc"])
        for l in base["lines"]:
            if l < 0 or l in ex.lines or l in have:
                continue
            if only_resolved and not any(d.lineno <= l <= (d.end_lineno or d.lineno) for d in only_defs):
                continue
            fails.append(Failure({"goal": "line-missing", "class": "only-cover" if only_resolved else "plain"},
                                 f"line {l} is executable, outside excluded code"
                                 + (" and inside an only-cover scope" if only_resolved else "")
                                 + " but is not a line goal", detail={"line": l}))
            break
        # sanity: exclusions never add goals
        extra = [l for l in goals["lines"] if l not in set(base["lines"])]
        if extra:
            fails.append(Failure({"goal": "line", "class": "not-executable"},
                                 f"lines {extra[:5]} are goals only when exclusions are configured"))
        return fails

    def classify(self, case, impl_out):
        if "err" in impl_out:
            self.count("outcome:conflict-ValueError")
            return "err:" + self._key(case)
        pl = self._payload.get(self._key(case))
        base = pl["base"] if pl else {"lines": [], "preds": [], "cos": []}
        g = impl_out["goals"]
        removed = (len(base["lines"]) - len(g["lines"]), len(base["preds"]) - len(g["preds"]),
                   len(base["cos"]) - len(g["cos"]))
        self.count("cfg:only" if case["only"] else "cfg:no-only")
        if case["no"]:
            self.count("cfg:no-names")
        if case["ignore"]:
            self.count("cfg:ignore-methods")
        if removed[0]:
            self.count("removed:lines")
        if removed[1]:
            self.count("removed:predicates")
        if removed[2]:
            self.count("removed:code-objects")
        self.count("goals:lines", len(g["lines"]))
        self.count("goals:predicates", len(g["preds"]))
        if any(removed):
            return self._key(case)
        self.count("outcome:nothing-removed")
        return None


if __name__ == "__main__":
    run_main(C08)
