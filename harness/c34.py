"""C34 — ordered sets behave as insertion-ordered sets and sequences (DESIGN §5 C34).

Correspondence: random operation histories on the real `OrderedSet`/`FrozenOrderedSet` vs the Lean
model (`Driver/C34.lean`).  Oracle: an independent dict+set reference (the property's own words).
Iterable arguments are handed to the implementation as list / tuple / set / generator (one-shot) /
OrderedSet / FrozenOrderedSet / dict keys; the model receives their iteration order as a list.
"""
from __future__ import annotations

import vcommon
from vcommon import Failure, PropertyCheck, run_main

KINDS = ["list", "tuple", "gen", "set", "oset", "fset", "keys"]


class Ref:
    """Reference semantics in the words of the property: a mathematical set + first-insertion order."""

    def __init__(self, items=()):
        self.s = set()
        self.o = []
        for x in items:
            self.ins(x)

    def ins(self, x):
        if x not in self.s:
            self.s.add(x)
            self.o.append(x)

    def rem(self, x):
        if x in self.s:
            self.s.discard(x)
            self.o.remove(x)

    def keep(self, pred):
        for x in list(self.o):
            if not pred(x):
                self.rem(x)


class C34(PropertyCheck):
    prop_id = "C34"
    prop_modules = ["PynguinModel.Props.C34"]
    extra_modules = ["PynguinModel.Model.OrderedSet"]
    driver = "Driver/C34.lean"
    n_quick = 3000
    n_thorough = 150000
    n_search = 30000
    rule = ("random histories (init + up to 30 commands over a 0..9 / -3..12 element universe, argument "
            "kinds list/tuple/generator/set/OrderedSet/FrozenOrderedSet/dict-keys); non-trivial = distinct "
            "history containing at least one mutating op and one observer")
    assumptions = ["elements are hashable ints; user-defined __eq__/__hash__ are not modelled",
                   "iteration order of a Python set argument is taken from the live interpreter"]

    # -- generation ---------------------------------------------------------------------------
    def _elems(self, rng, lo=0, hi=4):
        return [rng.randint(-3, 12) if rng.random() < 0.15 else rng.randint(0, 9)
                for _ in range(rng.randint(lo, hi))]

    def _arg(self, rng):
        return {"kind": rng.choice(KINDS), "items": self._elems(rng, 0, 6)}

    def gen_case(self, rng):
        cmds = []
        for _ in range(rng.randint(1, 30)):
            k = rng.choice(["add", "add", "update", "discard", "clear", "remove", "pop",
                            "difference_update", "intersection_update", "symmetric_difference_update",
                            "assign_union", "assign_intersection", "assign_difference",
                            "assign_symmetric_difference", "ior", "iand", "isub", "ixor",
                            "contains", "getitem", "getitem", "len", "iter", "reversed", "issubset",
                            "issuperset", "eq", "index", "union", "intersection", "difference",
                            "symmetric_difference"])
            c = {"k": k}
            if k in ("add", "discard", "remove", "contains", "index"):
                c["x"] = rng.randint(0, 9)
            elif k == "getitem":
                c["i"] = rng.randint(-12, 12)
            elif k in ("update", "intersection_update", "symmetric_difference_update", "issubset",
                       "issuperset", "eq", "symmetric_difference", "assign_symmetric_difference",
                       "ior", "iand", "isub", "ixor"):
                c["a"] = self._arg(rng)
            elif k in ("difference_update", "assign_union", "assign_intersection", "assign_difference",
                       "union", "intersection", "difference"):
                c["as"] = [self._arg(rng) for _ in range(rng.choice([0, 1, 1, 2, 3]))]
            cmds.append(c)
        return {"cls": rng.choice(["OrderedSet", "OrderedSet", "FrozenOrderedSet"]),
                "init": self._elems(rng, 0, 7), "cmds": cmds}

    # -- implementation adapter -----------------------------------------------------------------
    @staticmethod
    def _mk(arg):
        """Returns (python object handed to the implementation, iteration order as list)."""
        from pynguin.utils.orderedset import FrozenOrderedSet, OrderedSet
        items, kind = arg["items"], arg["kind"]
        if kind == "list":
            return list(items), list(items)
        if kind == "tuple":
            return tuple(items), list(items)
        if kind == "gen":
            return (x for x in items), list(items)
        if kind == "set":
            s = set(items)
            return s, list(s)
        if kind == "oset":
            s = OrderedSet(items)
            return s, list(s)
        if kind == "fset":
            s = FrozenOrderedSet(items)
            return s, list(s)
        d = dict.fromkeys(items)
        return d.keys(), list(d)

    MUTATING = {"add", "update", "discard", "clear", "remove", "pop", "difference_update",
                "intersection_update", "symmetric_difference_update", "ior", "iand", "isub", "ixor"}

    def impl(self, case):
        from pynguin.utils import orderedset as m
        cls = getattr(m, case["cls"])
        frozen = case["cls"] == "FrozenOrderedSet"
        s = cls(case["init"])
        ref = Ref(case["init"])
        outs, refouts, mcmds = [], [], []
        for c in case["cmds"]:
            k = c["k"]
            if frozen and k in self.MUTATING:
                continue  # FrozenOrderedSet has no mutators
            o, r, mc = self._one(cls, s, ref, c)
            if k.startswith("assign_"):
                s = o
                o = None
            elif k in ("ior", "iand", "isub", "ixor"):
                s = o
                o = None
            outs.append(self._canon(o))
            refouts.append(r)
            mcmds.append(mc)
        return {"final": list(s), "outs": outs, "ref_final": list(ref.o), "ref_outs": refouts,
                "model_cmds": mcmds, "len": len(s)}

    @staticmethod
    def _canon(o):
        from pynguin.utils.orderedset import _AbstractOrderedSet
        if isinstance(o, _AbstractOrderedSet):
            return list(o)
        return o

    def _one(self, cls, s, ref, c):
        """Execute one command on the implementation `s` and on the reference `ref`.
        Returns (impl output, reference output, model command JSON)."""
        k = c["k"]
        self.count("op:" + k)
        if "a" in c:
            self.count("argkind:" + c["a"]["kind"])
        E = lambda name: {"err": name}  # noqa: E731

        def guard(f, *exc):
            try:
                return f()
            except exc as e:  # only the exceptions the contract allows
                return E(type(e).__name__)

        if k == "add":
            x = c["x"]; o = s.add(x); ref.ins(x)
            return o, None, {"op": {"op": {"add": {"x": x}}}}
        if k == "discard":
            x = c["x"]; o = s.discard(x); ref.rem(x)
            return o, None, {"op": {"op": {"discard": {"x": x}}}}
        if k == "clear":
            o = s.clear(); ref.keep(lambda _: False)
            return o, None, {"op": {"op": "clear"}}
        if k == "remove":
            x = c["x"]
            r = None if x in ref.s else E("KeyError")
            o = guard(lambda: s.remove(x), KeyError); ref.rem(x)
            return o, r, {"op": {"op": {"remove": {"x": x}}}}
        if k == "pop":
            r = ref.o[0] if ref.o else E("KeyError")
            o = guard(s.pop, KeyError)
            if ref.o:
                ref.rem(ref.o[0])
            return o, r, "pop"
        if k == "contains":
            x = c["x"]
            return (x in s), (x in ref.s), {"contains": {"x": x}}
        if k == "getitem":
            i = c["i"]
            r = ref.o[i] if -len(ref.o) <= i < len(ref.o) else E("IndexError")
            return guard(lambda: s[i], IndexError), r, {"getitem": {"i": i}}
        if k == "len":
            return len(s), len(ref.o), "len"
        if k == "iter":
            return list(iter(s)), list(ref.o), "iter"
        if k == "reversed":
            return list(reversed(s)), list(reversed(ref.o)), "reversed"
        if k == "index":
            x = c["x"]
            r = ref.o.index(x) if x in ref.s else E("ValueError")
            return guard(lambda: s.index(x), ValueError), r, {"index": {"x": x}}
        if k in ("update", "ior"):
            a, order = self._mk(c["a"])
            if k == "update":
                o = s.update(a)
            else:
                s |= a
                o = s
            for x in order:
                ref.ins(x)
            return o, None, {"op": {"op": {"update": {"xs": order}}}}
        if k in ("intersection_update", "iand"):
            a, order = self._mk(c["a"])
            if k == "iand":
                if c["a"]["kind"] == "gen":
                    a = list(order)  # MutableSet.__iand__ iterates `self - it`, needs a re-iterable
                s &= a
                o = s
            else:
                o = s.intersection_update(a)
            ref.keep(lambda x: x in order)
            return o, None, {"op": {"op": {"intersectionUpdate": {"other": order}}}}
        if k in ("symmetric_difference_update", "ixor"):
            a, order = self._mk(c["a"])
            before = set(ref.s)
            if k == "ixor":
                s ^= a
                o = s
            else:
                o = s.symmetric_difference_update(a)
            ref.keep(lambda x: x not in order)
            for x in order:
                if x not in before:
                    ref.ins(x)
            return o, None, {"op": {"op": {"symmetricDifferenceUpdate": {"other": order}}}}
        if k == "isub":
            a, order = self._mk(c["a"])
            s -= a
            ref.keep(lambda x: x not in order)
            return s, None, {"op": {"op": {"differenceUpdate": {"others": [order]}}}}
        if k == "difference_update":
            pairs = [self._mk(a) for a in c["as"]]
            o = s.difference_update(*[p[0] for p in pairs])
            allx = {x for p in pairs for x in p[1]}
            ref.keep(lambda x: x not in allx)
            return o, None, {"op": {"op": {"differenceUpdate": {"others": [p[1] for p in pairs]}}}}
        if k in ("issubset", "issuperset"):
            a, order = self._mk(c["a"])
            if k == "issubset":
                return s.issubset(a), ref.s <= set(order), {"issubset": {"o": order}}
            return s.issuperset(a), ref.s >= set(order), {"issuperset": {"o": order}}
        if k == "eq":
            order = c["a"]["items"]
            other = cls(order)
            return (s == other), (ref.o == Ref(order).o), {"eq": {"o": order}}
        if k in ("union", "assign_union"):
            pairs = [self._mk(a) for a in c["as"]]
            o = s.union(*[p[0] for p in pairs])
            r = Ref(ref.o)
            for p in pairs:
                for x in p[1]:
                    r.ins(x)
            return self._fin(k, o, r, ref, "Union", {"os": [p[1] for p in pairs]}, "others")
        if k in ("intersection", "assign_intersection"):
            pairs = [self._mk(a) for a in c["as"]]
            o = s.intersection(*[p[0] for p in pairs])
            r = Ref(ref.o)
            r.keep(lambda x: all(x in p[1] for p in pairs))
            return self._fin(k, o, r, ref, "Intersection", {"os": [p[1] for p in pairs]}, "others")
        if k in ("difference", "assign_difference"):
            pairs = [self._mk(a) for a in c["as"]]
            o = s.difference(*[p[0] for p in pairs])
            r = Ref(ref.o)
            r.keep(lambda x: not any(x in p[1] for p in pairs))
            return self._fin(k, o, r, ref, "Difference", {"os": [p[1] for p in pairs]}, "others")
        if k in ("symmetric_difference", "assign_symmetric_difference"):
            a, order = self._mk(c["a"])
            o = s.symmetric_difference(a)
            r = Ref(x for x in ref.o if x not in order)
            for x in order:
                if x not in ref.s:
                    r.ins(x)
            return self._fin(k, o, r, ref, "SymmetricDifference", {"o": order}, "other")
        raise AssertionError(k)

    @staticmethod
    def _fin(k, o, r, ref, name, payload, assign_key):
        if k.startswith("assign_"):
            ref.s, ref.o = set(r.s), list(r.o)
            val = payload.get("os", payload.get("o"))
            return o, None, {"op": {"op": {"assign" + name: {assign_key: val}}}}
        return o, list(r.o), {name[0].lower() + name[1:]: payload}

    # -- model side ----------------------------------------------------------------------------
    def model_line(self, case):
        # the model commands are produced by the adapter (argument iteration orders are only known
        # once the live objects exist), so run the adapter once more, cheaply
        io = self.impl(case)
        return vcommon.jdump({"init": case["init"], "cmds": io["model_cmds"]})

    def compare(self, case, io, mo):
        return mo.get("final") == io["final"] and mo.get("outs") == io["outs"]

    # -- property oracle on the implementation --------------------------------------------------
    def oracle(self, case, io):
        fs = []
        if io["final"] != io["ref_final"] or io["len"] != len(io["ref_final"]):
            fs.append(Failure({"class": "final-state"}, "ordered set contents/order differ from a "
                              "mathematical set in first-insertion order",
                              detail={"impl": io["final"], "ref": io["ref_final"]}))
        ks = [c["k"] for c in case["cmds"]
              if not (case["cls"] == "FrozenOrderedSet" and c["k"] in self.MUTATING)]
        for k, o, r in zip(ks, io["outs"], io["ref_outs"]):
            if o != r:
                cls = k
                if k == "getitem":
                    cls = "getitem-negative" if isinstance(o, dict) and isinstance(r, int) else "getitem"
                fs.append(Failure({"op": k, "class": cls}, f"{k} returned {o!r}, set/sequence semantics "
                                  f"require {r!r}", detail={"impl": o, "ref": r}))
                break
        return fs

    def classify(self, case, io):
        ks = {c["k"] for c in case["cmds"]}
        if ks & self.MUTATING and ks - self.MUTATING:
            return vcommon.jdump([case["init"], case["cmds"]])
        return None


if __name__ == "__main__":
    run_main(C34)
