"""Shared machinery for the per-property checks (see DESIGN.md §2).

Every check `harness/cXX.py` defines a subclass of `PropertyCheck` and calls `run_main(cls)`.
Flow of one run (DESIGN §2.2): translate → build (proof obligations) → axiom audit →
correspondence (model driver vs implementation on the same cases) + implementation-side property
oracle → on any broken obligation / correspondence: failing-input search → verdict → evidence.

Exit codes: 0 held, 1 violation (line `VIOLATION property=<id> replay=<path>[ no-failing-input-found]`),
2 machinery error.
"""
from __future__ import annotations

import argparse
import fcntl
import hashlib
import json
import os
import random
import re
import subprocess
import sys
import tempfile
import time
import traceback
from pathlib import Path

ROOT = Path(__file__).resolve().parent.parent
LEAN = ROOT / "lean"
REPO = Path(os.environ.get("VERIF_REPO", "/repo"))
PY = "/venv/bin/python"
ALLOWED_AXIOMS = {"propext", "Classical.choice", "Quot.sound"}
FORBIDDEN = re.compile(
    r"\bsorry\b|\badmit\b|^\s*axiom\s|native_decide|bv_decide|implemented_by|\bunsafe\s|maxHeartbeats\s+0\b"
)
TRUSTED_BASE_COMMON = [
    "Lean 4.33.0 kernel; axioms audited per run to be a subset of {propext, Classical.choice, Quot.sound}",
    "harness/vcommon.py and the per-property harness (generators, adapters, canonicalisers)",
    "hand-written Lean model mirrors the Python functions named in DESIGN.md (modelled, tied by correspondence)",
]


def use_repo_sources() -> None:
    """Make `import pynguin` resolve to REPO's working tree (default /repo)."""
    src = str(REPO / "src")
    if src not in sys.path:
        sys.path.insert(0, src)
    os.environ.setdefault("PYNGUIN_DANGER_AWARE", "1")
    # child interpreters (pipeline runs, pytest runs) must see the same tree
    pp = os.environ.get("PYTHONPATH", "")
    if src not in pp.split(os.pathsep):
        os.environ["PYTHONPATH"] = src + (os.pathsep + pp if pp else "")


def jdump(obj) -> str:
    return json.dumps(obj, sort_keys=True, separators=(",", ":"), default=str)


# ---------------------------------------------------------------------------------------------
# Lean side
# ---------------------------------------------------------------------------------------------
class LeanError(Exception):
    pass


def _lock():
    LEAN.mkdir(exist_ok=True)
    f = open(LEAN / ".build.lock", "w")
    fcntl.flock(f, fcntl.LOCK_EX)
    return f


def lake_build(targets: list[str], timeout: int = 1500) -> tuple[bool, str]:
    """`lake build <targets>` under an exclusive lock. Returns (ok, log)."""
    lock = _lock()
    try:
        r = subprocess.run(["lake", "build", *targets], cwd=LEAN, capture_output=True, text=True,
                           timeout=timeout)
        log = "\n".join(l for l in (r.stdout + r.stderr).splitlines() if not l.startswith("trace:"))
        return r.returncode == 0, log
    finally:
        lock.close()


def strip_lean_comments(text: str) -> str:
    text = re.sub(r"/-.*?-/", "", text, flags=re.S)
    return re.sub(r"--.*", "", text)


def lean_module_path(mod: str) -> Path:
    return LEAN / (mod.replace(".", "/") + ".lean")


def lean_imports_closure(mods: list[str]) -> list[Path]:
    """All project-local Lean files reachable from the given modules through `import`."""
    seen: dict[str, Path] = {}
    todo = list(mods)
    while todo:
        m = todo.pop()
        if m in seen:
            continue
        p = lean_module_path(m)
        if not p.exists():
            continue
        seen[m] = p
        for im in re.findall(r"^import\s+(PynguinModel\.\S+)", p.read_text(), flags=re.M):
            todo.append(im)
    return list(seen.values())


def grep_forbidden(files: list[Path]) -> list[str]:
    hits = []
    for p in files:
        for i, line in enumerate(strip_lean_comments(p.read_text()).splitlines(), 1):
            if FORBIDDEN.search(line):
                hits.append(f"{p.relative_to(ROOT)}:{i}: {line.strip()}")
    return hits


AUDIT_TEMPLATE = """import Lean
{imports}
open Lean in
run_cmd do
  let env ← getEnv
  for m in [{mods}] do
    let some idx := env.getModuleIdx? m | throwError "no module {{m}}"
    let mut names : Array Name := #[]
    for (n, ci) in env.constants.map₁.toList do
      if env.getModuleIdxFor? n == some idx then
        if let .thmInfo _ := ci then
          if !n.isInternalDetail then names := names.push n
    for n in names.qsort (fun a b => a.toString < b.toString) do
      let ax ← Lean.collectAxioms n
      IO.println s!"AXIOMS {{n}} {{ax.toList}}"
"""


def audit_axioms(prop_modules: list[str], timeout: int = 900) -> dict[str, list[str]]:
    """Return {theorem: [axioms]} for every theorem declared in the given Props modules."""
    src = AUDIT_TEMPLATE.format(
        imports="\n".join(f"import {m}" for m in prop_modules),
        mods=", ".join("`" + m for m in prop_modules),
    )
    (LEAN / "Audit").mkdir(exist_ok=True)
    name = "Audit_" + hashlib.sha1(src.encode()).hexdigest()[:10] + f"_{os.getpid()}.lean"
    path = LEAN / "Audit" / name
    path.write_text(src)
    try:
        r = subprocess.run(["lake", "env", "lean", str(path)], cwd=LEAN, capture_output=True,
                           text=True, timeout=timeout)
    finally:
        path.unlink(missing_ok=True)
    if r.returncode != 0:
        raise LeanError("axiom audit failed:\n" + r.stdout[-3000:] + r.stderr[-3000:])
    out: dict[str, list[str]] = {}
    for line in r.stdout.splitlines():
        m = re.match(r"AXIOMS (\S+) \[(.*)\]", line)
        if m:
            out[m.group(1)] = [a.strip() for a in m.group(2).split(",") if a.strip()]
    return out


def run_driver(driver: str, lines: list[str], timeout: int = 1800) -> list[str]:
    """Pipe `lines` to `lake env lean --run <driver>`; returns exactly one output line per input."""
    if not lines:
        return []
    with tempfile.NamedTemporaryFile("w", suffix=".in", delete=False) as f:
        f.write("\n".join(lines) + "\n")
        inp = f.name
    try:
        with open(inp) as fin:
            r = subprocess.run(["lake", "env", "lean", "--run", driver], cwd=LEAN, stdin=fin,
                               capture_output=True, text=True, timeout=timeout)
    finally:
        os.unlink(inp)
    if r.returncode != 0:
        raise LeanError(f"driver {driver} failed rc={r.returncode}:\n{r.stdout[-2000:]}\n{r.stderr[-3000:]}")
    out = r.stdout.splitlines()
    if len(out) != len(lines):
        raise LeanError(f"driver {driver}: {len(lines)} lines in, {len(out)} out; tail: {out[-3:]}")
    return out


# ---------------------------------------------------------------------------------------------
# Known findings
# ---------------------------------------------------------------------------------------------
def load_known(prop: str) -> list[dict]:
    files = [ROOT / "KNOWN_FINDINGS.jsonl", *sorted((ROOT / "known_findings.d").glob("*.jsonl"))]
    out = []
    for p in files:
        if not p.exists():
            continue
        for line in p.read_text().splitlines():
            line = line.strip()
            if line and not line.startswith("#"):
                e = json.loads(line)
                if e.get("property") == prop and e.get("status") == "known":
                    out.append(e)
    return out


# ---------------------------------------------------------------------------------------------
# The per-property check skeleton
# ---------------------------------------------------------------------------------------------
class Failure:
    """A failure of the property itself on the real implementation (with the input that shows it)."""

    def __init__(self, signature: dict, what: str, case=None, detail=None):
        self.signature = signature
        self.what = what
        self.case = case
        self.detail = detail


class PropertyCheck:
    prop_id = "C00"
    level = "proof"
    #: Lean modules holding the property theorems (obligations); built and audited every run
    prop_modules: list[str] = []
    #: extra Lean modules to build (driver dependencies, generated tables)
    extra_modules: list[str] = []
    #: path (relative to lean/) of the line-protocol driver, or None
    driver: str | None = None
    #: number of generated cases per tier
    n_quick = 500
    n_thorough = 20000
    #: when an obligation or the correspondence breaks, search with this many extra cases
    n_search = 20000
    assumptions: list[str] = []
    trusted_base_extra: list[str] = []
    rule = "cases are generated from VERIF_SEED; non-trivial = exercises a non-default branch"

    def __init__(self, tier: str, seed: int):
        self.tier = tier
        self.seed = seed
        self.rng = random.Random(seed * 1000003 + int(self.prop_id[1:]))
        self.t0 = time.time()
        self.notes: list[str] = []
        self.dist: dict[str, int] = {}
        self.samples: list = []
        self.nontrivial: set[str] = set()
        self.evaluations = 0
        self.validated = 0
        self.extra_coverage: dict = {}

    # ---- to be provided by the property ------------------------------------------------------
    def translate(self) -> None:
        """Regenerate Generated/*.lean from the live source (translator properties)."""

    def corpus(self) -> list:
        d = ROOT / "harness" / "corpus" / self.prop_id
        out = []
        if d.is_dir():
            for p in sorted(d.glob("*.json")):
                out.append(json.loads(p.read_text()))
        return out

    def gen_case(self, rng: random.Random):
        raise NotImplementedError

    def impl(self, case):
        """Run the real implementation; return a JSON-able canonical output."""
        raise NotImplementedError

    def model_line(self, case) -> str | None:
        """The line sent to the Lean driver for this case (None: case not modelled)."""
        return jdump(case)

    def parse_model(self, line: str):
        return json.loads(line)

    def compare(self, case, impl_out, model_out) -> bool:
        return impl_out == model_out

    def oracle(self, case, impl_out) -> list[Failure]:
        """Evaluate the property itself on the implementation's behaviour for this case."""
        return []

    def classify(self, case, impl_out) -> str | None:
        """A string identifying the non-trivial class of the case (None = trivial)."""
        return jdump(case)

    def extra_checks(self) -> list[Failure]:
        """Additional implementation-level checks (histories, end-to-end runs)."""
        return []

    def witnesses(self) -> list[Failure]:
        """Replay the known-finding witnesses on the implementation; return those that still fail."""
        return []

    # ---- helpers -----------------------------------------------------------------------------
    def count(self, key: str, n: int = 1) -> None:
        self.dist[key] = self.dist.get(key, 0) + n

    def n_cases(self) -> int:
        env = os.environ.get("VERIF_N")
        if env:
            return int(env)
        return self.n_quick if self.tier == "quick" else self.n_thorough

    # ---- the run -----------------------------------------------------------------------------
    def run(self) -> int:
        use_repo_sources()
        broken: list[str] = []        # obligations / correspondences that no longer check
        failures: list[Failure] = []  # property failures on the implementation
        mismatches: list[dict] = []
        obligations = discharged = 0
        axioms: dict[str, list[str]] = {}

        # 1. translate + build
        try:
            self.translate()
        except Exception as e:  # translator could not read the source: obligation broken
            broken.append(f"translator: {type(e).__name__}: {e}")
        mods = list(self.prop_modules) + list(self.extra_modules)
        driver_ok, dlog = lake_build(list(self.extra_modules)) if self.extra_modules else (True, "")
        self._driver_ok = driver_ok
        ok, log = lake_build(mods) if mods else (True, "")
        if not ok:
            errs = [l for l in log.splitlines() if "error" in l.lower()][:12]
            broken.append("lake build failed: " + " | ".join(errs))
            # find which prop modules still build, to keep the rest of the run meaningful
            self.notes.append(log[-4000:])
        # 2. audit
        if ok and self.prop_modules:
            try:
                axioms = audit_axioms(self.prop_modules)
            except LeanError as e:
                print(f"MACHINERY-ERROR {self.prop_id}: {e}", file=sys.stderr)
                return 2
            obligations = len(axioms)
            bad = {t: a for t, a in axioms.items() if not set(a) <= ALLOWED_AXIOMS}
            hits = grep_forbidden(lean_imports_closure(mods))
            if bad or hits:
                print(f"MACHINERY-ERROR {self.prop_id}: obligations not discharged cleanly: "
                      f"axioms={bad} forbidden={hits}", file=sys.stderr)
                return 2
            discharged = obligations
            if self.tier == "thorough" and os.environ.get("VERIF_LEANCHECKER", "1") == "1":
                r = subprocess.run(["lake", "env", "leanchecker", *self.prop_modules], cwd=LEAN,
                                   capture_output=True, text=True)
                self.extra_coverage["leanchecker_rc"] = r.returncode
                if r.returncode != 0:
                    print(f"MACHINERY-ERROR {self.prop_id}: leanchecker: {r.stdout[-2000:]}{r.stderr[-2000:]}",
                          file=sys.stderr)
                    return 2

        # 3. correspondence + oracle
        def explore(n: int, label: str) -> None:
            cases = []
            if label == "main":
                cases += [("corpus", c) for c in self.corpus()]
            cases += [(label, self.gen_case(self.rng)) for _ in range(n)]
            outs = []
            for _, c in cases:
                try:
                    outs.append(self.impl(c))
                except Exception as e:  # adapter bug: machinery error, not a violation
                    raise RuntimeError(f"impl adapter raised on case {jdump(c)[:600]}: "
                                       f"{traceback.format_exc()[-1500:]}") from e
            lines, idx = [], []
            if self.driver is not None and (ok or self._driver_builds()):
                for i, (_, c) in enumerate(cases):
                    ml = self.model_line(c)
                    if ml is not None:
                        lines.append(ml)
                        idx.append(i)
                try:
                    mouts = run_driver(self.driver, lines)
                except LeanError as e:
                    broken.append(f"driver: {str(e)[:600]}")
                    mouts, idx = [], []
            else:
                mouts, idx = [], []
            model_by_i = {i: mouts[k] for k, i in enumerate(idx)}
            for i, ((_, c), io) in enumerate(zip(cases, outs)):
                self.evaluations += 1
                cl = self.classify(c, io)
                if cl is not None:
                    self.nontrivial.add(hashlib.sha1(cl.encode()).hexdigest())
                if len(self.samples) < 3:
                    self.samples.append({"case": c, "impl": io})
                for f in self.oracle(c, io):
                    f.case = c if f.case is None else f.case
                    failures.append(f)
                if i in model_by_i:
                    try:
                        mo = self.parse_model(model_by_i[i])
                    except Exception:
                        mo = {"unparsable": model_by_i[i][:300]}
                    self.validated += 1
                    if not self.compare(c, io, mo):
                        mismatches.append({"case": c, "impl": io, "model": mo})

        try:
            explore(self.n_cases(), "main")
            failures += self.witnesses()
            failures += self.extra_checks()
            if mismatches:
                broken.append(f"correspondence {self.driver}: {len(mismatches)} disagreeing case(s)")
            if broken and not self._unlisted(failures):
                # failing-input search: deeper exploration of the implementation with the oracle
                self.notes.append("failing-input search started")
                explore(self.n_search, "search")
        except (RuntimeError, LeanError, subprocess.TimeoutExpired) as e:
            print(f"MACHINERY-ERROR {self.prop_id}: {e}", file=sys.stderr)
            return 2

        # 4. verdict
        known = load_known(self.prop_id)
        rc = 0
        reported = set()
        new_failures = []
        for f in failures:
            sig = jdump(f.signature)
            match = [k for k in known if jdump(k["signature"]) == sig]
            if match:
                if sig not in reported:
                    print(f"KNOWN-FINDING: property={self.prop_id} {match[0].get('what', f.what)}")
                    reported.add(sig)
            else:
                new_failures.append(f)
        violations = 0
        if new_failures:
            f = new_failures[0]
            path = self._write_replay({"kind": "property-fails-on-implementation", "signature": f.signature,
                                       "what": f.what, "case": f.case, "detail": f.detail,
                                       "broken": broken, "other_failures": len(new_failures) - 1})
            print(f"VIOLATION property={self.prop_id} replay={path}")
            violations = len({jdump(x.signature) for x in new_failures})
            rc = 1
        elif broken:
            path = self._write_replay({"kind": "obligation-or-correspondence-broken", "broken": broken,
                                       "disagreements": mismatches[:5], "notes": self.notes[-3:],
                                       "searched_cases": self.evaluations})
            print(f"VIOLATION property={self.prop_id} replay={path} no-failing-input-found")
            violations = 1
            rc = 1
        self._write_evidence(obligations, discharged, axioms, violations, broken, len(mismatches),
                             sorted(reported))
        return rc

    def _unlisted(self, failures) -> bool:
        known = {jdump(k["signature"]) for k in load_known(self.prop_id)}
        return any(jdump(f.signature) not in known for f in failures)

    def _driver_builds(self) -> bool:
        return getattr(self, "_driver_ok", False)

    def _write_replay(self, obj) -> str:
        d = ROOT / "replays"
        d.mkdir(exist_ok=True)
        n = 0
        while (d / f"{self.prop_id}-{self.seed}-{n}.json").exists():
            n += 1
        p = d / f"{self.prop_id}-{self.seed}-{n}.json"
        obj = dict(obj, property=self.prop_id, seed=self.seed, tier=self.tier)
        p.write_text(json.dumps(obj, indent=1, default=str))
        return str(p.relative_to(ROOT))

    def _write_evidence(self, obligations, discharged, axioms, violations, broken, n_mismatch, known_hit):
        cov = {
            "obligations": obligations,
            "discharged": discharged,
            "checker_cmd": "cd lean && lake build " + " ".join(self.prop_modules)
                           + "  # + axiom audit via Lean.collectAxioms on every theorem of these modules",
            "trusted_base": TRUSTED_BASE_COMMON + list(self.trusted_base_extra),
            "theorems": sorted(axioms),
            "axioms_used": sorted({a for v in axioms.values() for a in v}),
            "evaluations": self.evaluations,
            "distinct_nontrivial": len(self.nontrivial),
            "rule": self.rule,
            "samples": self.samples[:3],
            "traces_validated_against_impl": self.validated,
            "model_impl_disagreements": n_mismatch,
            "input_distribution": dict(sorted(self.dist.items())),
            "broken": broken,
            "known_findings_reproduced": known_hit,
        }
        cov.update(self.extra_coverage)
        ev = {
            "property_id": self.prop_id,
            "tier": self.tier,
            "seed": self.seed,
            "level": self.level,
            "coverage": cov,
            "assumptions": list(self.assumptions),
            "wall_s": round(time.time() - self.t0, 2),
            "violations": violations,
        }
        # evidence/ describes /repo itself; a run against a scratch tree (VERIF_REPO) must not overwrite it
        evdir = ROOT / ("evidence" if str(REPO) == "/repo" else "evidence-scratch")
        evdir.mkdir(exist_ok=True)
        (evdir / f"{self.prop_id}.json").write_text(json.dumps(ev, indent=1, default=str))

    # ---- replay ------------------------------------------------------------------------------
    def replay(self, path: str) -> int:
        use_repo_sources()
        obj = json.loads(Path(path).read_text())
        case = obj.get("case")
        if case is None and obj.get("disagreements"):
            case = obj["disagreements"][0]["case"]
        if case is None:
            print("replay names no concrete case; broken obligations:", obj.get("broken"))
            return 0
        io = self.impl(case)
        print("case :", jdump(case))
        print("impl :", jdump(io))
        if self.driver is not None and self.model_line(case) is not None:
            lake_build(self.extra_modules)
            print("model:", run_driver(self.driver, [self.model_line(case)])[0])
        fs = self.oracle(case, io)
        for f in fs:
            print("PROPERTY FAILS:", f.what, jdump(f.signature))
        return 1 if fs else 0


def run_main(cls) -> None:
    ap = argparse.ArgumentParser()
    ap.add_argument("--tier", default=os.environ.get("VERIF_TIER", "quick"), choices=["quick", "thorough"])
    ap.add_argument("--replay")
    a = ap.parse_args()
    seed = int(os.environ.get("VERIF_SEED", "0") or 0)
    chk = cls(a.tier, seed)
    try:
        rc = chk.replay(a.replay) if a.replay else chk.run()
    except Exception:
        traceback.print_exc()
        print(f"MACHINERY-ERROR {cls.prop_id}", file=sys.stderr)
        rc = 2
    sys.exit(rc)
