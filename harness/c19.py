"""C19 — Generated regression assertions are kept in the exported file.

Tie between `lean/PynguinModel/Model/TestCaseAssert.lean` (theorems: `Props/C19.lean`) and the real code:

* every case builds a REAL `TestCase` (libcst statements, real `Assertion` objects of all six classes, real
  `GenericFunction` accessibles; statements are calls, chained/compound assignments AND primitive /
  collection literals; assertion sources are the statement's own variable, earlier variables and their fields,
  module attributes, class static fields; some assertions are equal to an earlier one — a value observed again),
  runs a post-processing history on it with the real methods
  (`TestCasePostProcessor([UnusedStatementsTestCaseVisitor()])` on the chromosome as its own step — the test case
  it leaves behind and its `deleted_statement_indexes` are compared with the model —, `remove_unused_variables`,
  `remove_statement_with_forward_dependencies`, `chop`, `clone`) and then the REAL `TestSuiteWriter.write` (which calls `remove_unused_variables`,
  `_per_statement_exceptions`, `_build_test_function` and writes the file).  The re-execution primitive
  `_exec_statement_guarded` is scripted (finished / exception / watchdog timeout per statement) in most cases and
  real in the rest (statements then really run against a small module).  The written FILE is parsed with `ast`.
* the abstraction after every step, the recorded exception list, the parsed function body and the xfail mark
  are compared with `Driver/C19.lean`.
* the oracle states the property on the parsed file, independently of the model: every statement that
  survives is followed by exactly the renderable assertions attached to it at the start, in order; for
  histories without minimiser removals (passes, visitor visits, clones) every statement that carried an assertion
  is in the file; every name an exported
  assertion reads is bound above it.
* `extra_checks`: real pynguin pipeline runs (child interpreters): the suite is snapshotted right before
  `generator._minimize` (= after assertion generation / assertion minimisation) and compared with what
  `_build_test_function` emits and with the written file.
"""
from __future__ import annotations

import ast
import json
import os
import re
import shutil
import subprocess
import sys
import tempfile
from pathlib import Path

sys.path.insert(0, str(Path(__file__).resolve().parent))
import vcommon  # noqa: E402
from vcommon import Failure, PropertyCheck, run_main  # noqa: E402

SUT_NAME = "c19sut"
SUT_SRC = '''"""module the synthetic C19 statements run against"""


LIMIT = 10


class C19Err(Exception):
    pass


class K:
    field = 3

    def __init__(self, tag):
        self.a = self
        self.b = 7
        self.tag = tag

    def __len__(self):
        return 2


def f(tag, *args):
    return K(tag)


def g(tag, *args):
    return None


def boom0(tag, *args):
    raise ValueError(tag)


def boom1(tag, *args):
    raise KeyError(tag)


def boom2(tag, *args):
    raise ZeroDivisionError(tag)


def boom3(tag, *args):
    raise C19Err(tag)
'''
EXC_NAMES = ["ValueError", "KeyError", "ZeroDivisionError", "C19Err"]
STMT_KINDS = ["assign", "expr", "chain", "compound", "literal"]
# literal right-hand sides (what pynguin's primitive / collection statements look like).  `{t}` = the string tag
# "s<sid>", `{n}` = the number tag 7000+sid; the forms without a tag are identified by their text (at most one
# statement per such text in a case: case["untagged"]); `vars` reads earlier variables (a collection statement).
LITERAL_FORMS = {
    "int": "{n}", "negint": "-{n}", "float": "{n}.5", "str": "{t}", "bytes": "b{t}", "complex": "{n}j",
    "list": "[{n}, 2]", "tuple": "({t}, None)", "set": "{{{n}, -1}}", "dict": "{{{t}: [True, 1.5]}}",
    "nested": "[({n}, 'x'), {{'k': None}}]",
    "none": "None", "true": "True", "false": "False", "elist": "[]", "edict": "{{}}", "etuple": "()", "estr": "''",
    "vars": "[{v}{t}]",
}
UNTAGGED = {"none", "true", "false", "elist", "edict", "etuple", "estr"}
TAG_BASE = 7000
ASSERT_KINDS = ["object", "float", "len", "type", "isinst", "exc"]

PIPE_SUTS = {
    "stack": '''class Stack:
    def __init__(self) -> None:
        self.items: list[int] = []

    def push(self, x: int) -> int:
        self.items.append(x)
        return len(self.items)

    def pop(self) -> int:
        if not self.items:
            raise IndexError("empty")
        return self.items.pop()

    def size(self) -> int:
        return len(self.items)


def fill(s: Stack, n: int) -> Stack:
    for i in range(min(max(n, 0), 4)):
        s.push(i)
    return s
''',
    "num": '''def clamp(x: int, lo: int, hi: int) -> int:
    if x < lo:
        return lo
    if x > hi:
        return hi
    return x


def half(x: int) -> float:
    return x / 2


def sign(x: int) -> int:
    if x < 0:
        return -1
    if x > 0:
        return 1
    return 0


def ratio(a: int, b: int) -> float:
    if b == 0:
        raise ZeroDivisionError("b")
    return a / b
''',
    # module / class static state: the assertion generator hangs `module.LIMIT == 10`, `module.Counter.created == ..`
    # on whatever statement comes first — also on a primitive nothing reads (sources foreign to the statement)
    "state": '''LIMIT = 10
MODE = "strict"


class Counter:
    created = 0

    def __init__(self) -> None:
        Counter.created += 1
        self.count = 0

    def bump(self, by: int) -> int:
        self.count += min(max(by, 0), LIMIT)
        return self.count

    def reset(self) -> None:
        self.count = 0


def scale(x: int) -> int:
    if x > LIMIT:
        return LIMIT
    return x * 2


def label(flag: bool) -> str:
    return MODE if flag else "lenient"
''',
    "text": '''def initials(name: str) -> str:
    return "".join(p[0] for p in name.split() if p)


def repeat(s: str, n: int) -> str:
    if n < 0:
        raise ValueError("n")
    return s * min(n, 3)


def words(s: str) -> list[str]:
    return s.split()


def is_pal(s: str) -> bool:
    return s == s[::-1]
''',
}


# ---------------------------------------------------------------------------------------------
# reading emitted code back (ast only; shared by the in-process adapter and the pipeline child)
# ---------------------------------------------------------------------------------------------
def norm_assert(text: str) -> str:
    return ast.unparse(ast.parse(text.strip()).body[0])


def stores_of(node) -> list[str]:
    return [n.id for n in ast.walk(node) if isinstance(n, ast.Name) and isinstance(n.ctx, ast.Store)]


def loads_of(node) -> list[str]:
    return [n.id for n in ast.walk(node) if isinstance(n, ast.Name) and isinstance(n.ctx, ast.Load)]


def is_raises(node):
    if isinstance(node, ast.With) and len(node.items) == 1:
        c = node.items[0].context_expr
        if (isinstance(c, ast.Call) and isinstance(c.func, ast.Attribute) and c.func.attr == "raises"
                and isinstance(c.func.value, ast.Name) and c.func.value.id == "pytest" and c.args
                and isinstance(c.args[0], ast.Name)):
            return c.args[0].id
    return None


def is_xfail(dec) -> bool:
    return "xfail" in ast.unparse(dec)


def find_function(text: str, name: str):
    for n in ast.parse(text).body:
        if isinstance(n, ast.FunctionDef) and n.name == name:
            return n
    return None


VAR = re.compile(r"^var_(\d+)$")
TAG = re.compile(r"^s(\d+)$")


def sid_of(node, untagged=None):
    """identity tag of a synthetic statement, read from its ast: the string/bytes constant "s<k>", a number constant
    7000+k, or — for right-hand sides that cannot carry a tag (`None`, `True`, `[]` ...) — the case's table of such
    texts.  None when there is no tag."""
    for c in ast.walk(node):
        if isinstance(c, ast.Constant):
            v = c.value
            if isinstance(v, bytes):
                v = v.decode("ascii", "replace")
            if isinstance(v, str):
                mm = TAG.match(v)
                if mm:
                    return int(mm.group(1))
            elif isinstance(v, complex):
                if v.imag >= TAG_BASE:
                    return int(v.imag) - TAG_BASE
            elif isinstance(v, (int, float)) and not isinstance(v, bool) and v >= TAG_BASE:
                return int(v) - TAG_BASE
    if untagged:
        inner = node
        while isinstance(inner, (ast.With, ast.If)) and inner.body:
            inner = inner.body[0]
        value = getattr(inner, "value", None)
        if value is not None:
            return untagged.get(ast.unparse(value))
    return None


def sid_of_code(code: str, untagged=None):
    return sid_of(ast.parse(code.strip()).body[0], untagged)


def scoping_problems(fn: ast.FunctionDef) -> list[str]:
    """`var_k` names read by a top-level entry of the function that no entry above (or, for an assert, the
    statement it follows) has bound."""
    bound: set[str] = set()
    out = []
    for node in fn.body:
        for nm in loads_of(node):
            if VAR.match(nm) and nm not in bound:
                out.append(("assert" if isinstance(node, ast.Assert) else "stmt") + ":" + nm)
        bound.update(stores_of(node))
    return out


# ---------------------------------------------------------------------------------------------
# pipeline child: `C19_PIPELINE_OUT=<json> python c19.py <pynguin args...>`
# ---------------------------------------------------------------------------------------------
def _rhs_key(stmt):
    import libcst as cst
    node = stmt.node
    if isinstance(node, cst.SimpleStatementLine) and len(node.body) == 1 and hasattr(node.body[0], "value"):
        return id(node.body[0].value)
    return id(node)


def _render(assertion):
    import libcst as cst
    from pynguin.assertion.assertion_to_ast import assertion_to_cst
    n = assertion_to_cst(assertion)
    return None if n is None else norm_assert(cst.Module(body=[n]).code)


def pipeline_runner():
    vcommon.use_repo_sources()
    out = os.environ["C19_PIPELINE_OUT"]
    strategy, direction = os.environ["C19_MIN"].split(":")
    import libcst as cst
    import pynguin.configuration as config
    import pynguin.generator as gen
    import pynguin.testcase.export as export

    import pynguin.testcase.testcase as tcm

    keep = []          # keeps every observed node alive (ids stay unique)
    # tag of the test case -> [(rhs key, bound variable, rendered assertions)] right before _minimize.  CST nodes are
    # shared between test cases (clone, crossover) and even between statements of one test case, so a statement of the
    # exported test case is matched against ALL snapshot statements of the same test case with the same right-hand
    # side node and a compatible binding (the candidates); the tag travels through TestCase.clone().
    before = {}
    n_before = {"tests": 0, "statements": 0, "assertions": 0}
    orig_clone = tcm.TestCase.clone

    def clone(self):
        c = orig_clone(self)
        if hasattr(self, "_c19_tag"):
            c._c19_tag = self._c19_tag  # noqa: SLF001
        return c
    tcm.TestCase.clone = clone
    orig_min = gen._minimize

    def spy_min(generation_result, algorithm=None):
        m = config.configuration.test_case_output.minimization
        m.test_case_minimization_strategy = config.MinimizationStrategy(strategy)
        m.test_case_minimization_direction = config.MinimizationDirection(direction)
        for tag, chrom in enumerate(generation_result.test_case_chromosomes):
            n_before["tests"] += 1
            chrom.test_case._c19_tag = tag  # noqa: SLF001
            entries = before.setdefault(tag, [])
            for s in chrom.test_case.statements():
                keep.append(s.node)
                texts = [t for t in (_render(a) for a in s.assertions) if t is not None]
                entries.append((_rhs_key(s), s.bound_variable, texts))
                n_before["statements"] += 1
                n_before["assertions"] += len(texts)
        return orig_min(generation_result, algorithm)
    gen._minimize = spy_min

    built = []
    orig_build = export.TestSuiteWriter._build_test_function

    def spy_build(self, idx, tc, exc_types):
        fn, used = orig_build(self, idx, tc, exc_types)
        stmts = []
        entries = before.get(getattr(tc, "_c19_tag", None), [])
        for s in tc.statements():
            keep.append(s.node)
            k = _rhs_key(s)
            cands = [e[2] for e in entries if e[0] == k and (s.bound_variable is None or e[1] == s.bound_variable)]
            stmts.append({"candidates": cands,
                          "attached": [t for t in (_render(a) for a in s.assertions) if t is not None],
                          "code": cst.Module(body=[s.node]).code.strip()[:200]})
        built.append({"idx": idx, "stmts": stmts, "n_exc": len(exc_types), "code": cst.Module(body=[fn]).code})
        return fn, used
    export.TestSuiteWriter._build_test_function = spy_build

    files = []
    orig_write = export.TestSuiteWriter.write

    def spy_write(self, *a, **k):
        p = orig_write(self, *a, **k)
        files.append(str(p))
        return p
    export.TestSuiteWriter.write = spy_write

    import pynguin.cli as cli
    rc = cli.main(["pynguin", *sys.argv[1:]])
    Path(out).write_text(json.dumps({"rc": int(rc), "before": n_before, "built": built, "files": files}))
    sys.exit(0)


def body_groups(fn: ast.FunctionDef):
    """[(statement node | None, [normalised assert texts below it])] of a test function"""
    groups = []
    for node in fn.body:
        if isinstance(node, ast.Assert):
            if not groups:
                groups.append((None, []))
            groups[-1][1].append(ast.unparse(node))
        else:
            groups.append((node, []))
    return groups


# ---------------------------------------------------------------------------------------------
class C19(PropertyCheck):
    prop_id = "C19"
    level = "proof"
    prop_modules = ["PynguinModel.Props.C19"]
    extra_modules = ["PynguinModel.Model.TestCaseAssert"]
    driver = "Driver/C19.lean"
    n_quick = 300
    n_thorough = 8000
    n_search = 3000
    n_runs_quick = 3
    n_runs_thorough = 18
    rule = ("a case = a real TestCase (1-9 libcst statements of 5 shapes incl. primitive/collection literals, 0-3 real "
            "Assertion objects each, sources: own variable, earlier variable, dotted path, module attribute, class static "
            "field, unbound name) + a post-processing history (passes, UnusedStatementsTestCaseVisitor visits through "
            "TestCasePostProcessor, minimiser removals, chop, clone) + the real "
            "TestSuiteWriter.write with scripted or real re-execution; non-trivial = a distinct shape in which a statement "
            "carrying assertions loses its binding, is kept alive by an assertion only, is wrapped/xfailed, or is removed")
    assumptions = [
        "the theorems describe testcase.py WITH proposed_fixes/C19-remove-unused-keeps-assertions.diff (D9 repaired)",
        "a statement is abstracted to (rhs identity, bound_variable, bound_type, used_variables(), assertion objects, "
        "whether _transform_assign_to_expr applies, accessible.expected_exceptions); used_variables() itself is C15's",
        "an assertion source is a variable name or a dotted path rooted in one (what the trace observer and the LLM "
        "deserializer produce)",
        "statement-removing minimisers are modelled as arbitrary accepted removals (which removals are accepted is C22)",
    ]
    trusted_base_extra = [
        "libcst code generation and Python's ast parser (used to read the written file back)",
        "assertion_to_cst is used to recognise an assertion line in the file (its correctness is C20)",
    ]

    def __init__(self, tier, seed):
        super().__init__(tier, seed)
        self._tmp = None
        self._mods = None
        self._procs = None
        self._plan = []
        self.real_exec = 0
        self._io = {}

    # -- scratch + imports ---------------------------------------------------------------------
    def _scratch(self) -> Path:
        if self._tmp is None:
            self._tmp = Path(tempfile.mkdtemp(prefix="c19-"))
            (self._tmp / "sut").mkdir()
            (self._tmp / "sut" / f"{SUT_NAME}.py").write_text(SUT_SRC)
            sys.path.insert(0, str(self._tmp / "sut"))
            import atexit
            atexit.register(self._cleanup)
        return self._tmp

    def _cleanup(self):
        for _, p in (self._procs or {}).values():
            if p.poll() is None:
                p.kill()
        if self._tmp is not None:
            shutil.rmtree(self._tmp, ignore_errors=True)

    def _m(self):
        if self._mods is None:
            self._scratch()
            import importlib
            import libcst as cst
            import pynguin.assertion.assertion as ass
            import pynguin.ga.postprocess as pp
            import pynguin.ga.testcasechromosome as tcc
            import pynguin.ga.testsuitechromosome as tsc
            import pynguin.testcase.export as export
            import pynguin.testcase.testcase as tcm
            from pynguin.assertion.assertion_to_ast import assertion_to_cst
            from pynguin.utils.generic.genericaccessibleobject import GenericFunction
            from pynguin.utils.naming import get_module_alias
            sut = importlib.import_module(SUT_NAME)
            self._mods = dict(cst=cst, ass=ass, pp=pp, tcc=tcc, tsc=tsc, export=export, tcm=tcm,
                              a2c=assertion_to_cst, GF=GenericFunction, alias=get_module_alias(SUT_NAME), sut=sut)
            self._plan_pipelines()
            self._launch(3)
        return self._mods

    # -- generator -----------------------------------------------------------------------------
    def gen_case(self, rng):
        n = rng.choice([1, 1, 2, 2, 3, 3, 4, 5, 6, 7, 9])
        real = rng.random() < 0.12
        stmts, bound_so_far = [], []
        untagged = {}
        aid = 0
        for i in range(n):
            kind = rng.choices(STMT_KINDS, weights=[46, 14, 6, 8, 26])[0]
            reads = sorted(set(rng.sample(bound_so_far, min(len(bound_so_far), rng.choice([0, 0, 1, 1, 2])))))
            if not real and rng.random() < 0.04:
                reads.append(90 + rng.randrange(3))          # a name nothing binds
            boom = rng.randrange(4) if rng.random() < 0.18 else None
            lit = None
            if kind == "literal":                            # a primitive / collection statement: cannot raise
                lit = rng.choice(sorted(LITERAL_FORMS))
                text = LITERAL_FORMS[lit].format(t="", n=0, v="")
                if lit in UNTAGGED and text in untagged:
                    lit = rng.choice(["int", "str", "list", "tuple"])
                if lit in UNTAGGED:
                    untagged[text] = i
                if lit != "vars":
                    reads = []
                boom = None
            if real and boom is not None:
                kind = "expr"                                # a really raising statement binds nothing
            bound = None if kind == "expr" else 10 * 0 + i
            expected = sorted(set(rng.sample(range(4), rng.choice([0, 0, 1, 2]))))
            if boom is not None and rng.random() < 0.5 and boom not in expected:
                expected = sorted(expected + [boom])
            if kind == "literal":
                expected = []                                # no callable accessible behind a literal
            # the sources of the assertions attached here: with `foreign` none of them is the statement's own variable
            # (what the assertion generator leaves on a statement whose own-value assertion was minimised away: first
            # observation of module / class static state, re-observed fields of earlier objects)
            foreign = rng.random() < (0.45 if kind == "literal" else 0.2)
            asserts = []
            for _ in range(rng.choices([0, 1, 2, 3], weights=[36, 37, 18, 9])[0]):
                k = rng.choices(ASSERT_KINDS, weights=[30, 12, 14, 12, 12, 10 if boom is not None else 2])[0]
                src = None
                if k != "exc":
                    r = rng.random()
                    pool_own = [bound] if bound is not None and not foreign else []
                    if r < 0.5 and pool_own:
                        root = f"var_{bound}"
                    elif r < 0.78 and bound_so_far:
                        root = f"var_{rng.choice(bound_so_far)}"
                    elif r < 0.9:
                        root = "@alias"
                    elif r < 0.94:
                        root = f"var_{i + 1 + rng.randrange(3)}"   # bound later or never: ill-scoped on purpose
                    else:
                        root = f"var_{bound}" if pool_own else "@alias"
                    tail = rng.choice(["", "", "", ".a", ".a.b", ".tag", ".b"]) if root != "@alias" else \
                        rng.choice([".K.field", ".K", ".LIMIT", ".LIMIT"])
                    src = root + tail
                a = {"id": aid, "kind": k, "src": src}
                # an observation that returned to an earlier value (A -> B -> A) or was simply made again: an assertion
                # EQUAL to an earlier one (same class, source, value) on this statement — a different oracle all the same
                earlier = [e for t in stmts for e in t["asserts"] if e["kind"] != "exc"] + \
                          [e for e in asserts if e["kind"] != "exc"]
                if k != "exc" and earlier and rng.random() < 0.15:
                    e = rng.choice(earlier)
                    a.update(kind=e["kind"], src=e["src"], val=e.get("val", e["id"]))
                asserts.append(a)
                aid += 1
            st = {"sid": i, "kind": kind, "bound": bound, "btype": (i % 3) if bound is not None else None,
                  "reads": reads, "boom": boom, "expected": expected, "asserts": asserts}
            if lit is not None:
                st["lit"] = lit
            stmts.append(st)
            if bound is not None:
                bound_so_far.append(bound)
        ops = []
        removals = rng.random() < 0.35
        for _ in range(rng.choice([0, 1, 1, 2, 2, 3, 4])):
            r = rng.random()
            if not removals or r < 0.5:
                ops.append(rng.choices(["removeUnused", "visitUnused", "clone"], weights=[40, 40, 20])[0])
            elif r < 0.8:
                ops.append({"removeFwd": {"index": rng.randrange(n + 2)}})
            else:
                ops.append({"chop": {"position": rng.randrange(-1, n + 1)}})
        outs = []
        for s in stmts:
            if real:
                outs.append({"finished": True, "exc": s["boom"]})
            else:
                fin = rng.random() > 0.04
                outs.append({"finished": fin, "exc": s["boom"] if fin else None})
        case = {"stmts": stmts, "ops": ops, "noXfail": rng.random() < 0.3, "importOk": real or rng.random() > 0.04,
                "outs": outs, "real": real}
        if untagged:
            case["untagged"] = untagged
        return case

    # -- building the real objects ----------------------------------------------------------------
    def _code(self, s, alias):
        if s["kind"] == "literal":
            rhs = LITERAL_FORMS[s["lit"]].format(t=f'"s{s["sid"]}"', n=TAG_BASE + s["sid"],
                                                 v="".join(f"var_{r}, " for r in s["reads"]))
            return f"var_{s['bound']} = {rhs}\n"
        fn = "f" if s["boom"] is None else f"boom{s['boom']}"
        if s["kind"] == "expr" and s["boom"] is None:
            fn = "g"
        args = "".join(f", var_{r}" for r in s["reads"])
        call = f'{alias}.{fn}("s{s["sid"]}"{args})'
        b = s["bound"]
        return {"assign": f"var_{b} = {call}\n", "expr": f"{call}\n", "chain": f"var_{b} = zz_{b} = {call}\n",
                "compound": f"if True:\n    var_{b} = {call}\n"}[s["kind"]]

    def _assertion(self, a, alias):
        ass = self._m()["ass"]
        src = None if a["src"] is None else a["src"].replace("@alias", alias)
        v = 1000 + a.get("val", a["id"])                  # `val`: the value of an earlier assertion is observed again
        k = a["kind"]
        if k == "object":
            return ass.ObjectAssertion(src, v)
        if k == "float":
            return ass.FloatAssertion(src, v + 0.5)
        if k == "len":
            return ass.CollectionLengthAssertion(src, v)
        if k == "type":
            return ass.TypeNameAssertion(src, "m%d" % v, "Q%d" % v)
        if k == "isinst":
            return ass.IsInstanceAssertion(src, SUT_NAME, "K.T%d" % v)
        return ass.ExceptionAssertion("builtins", "E%d" % v)

    def _build(self, case):
        m = self._m()
        cst, tcm, alias = m["cst"], m["tcm"], m["alias"]
        tc = tcm.TestCase()
        amap, ref = {}, {}
        types = [int, str, list]
        for s in case["stmts"]:
            asserts = []
            for a in s["asserts"]:
                obj = self._assertion(a, alias)
                amap[id(obj)] = a["id"]
                node = m["a2c"](obj)
                if node is not None:
                    ref[a["id"]] = norm_assert(cst.Module(body=[node]).code)
                asserts.append(obj)
            acc = m["GF"](getattr(m["sut"], "f"), None, {EXC_NAMES[e] for e in s["expected"]}, "f") \
                if (s["expected"] or s["sid"] % 2) and s["kind"] != "literal" else None
            b = s["bound"]
            tc.add_statement(tcm.Statement(
                node=cst.parse_statement(self._code(s, alias)),
                bound_variable=None if b is None else f"var_{b}",
                bound_type=None if s["btype"] is None else types[s["btype"]],
                assertions=asserts, accessible=acc))
        tc._c19_keep = list(amap)  # noqa: SLF001
        return tc, amap, ref

    @staticmethod
    def _enc(name: str):
        mm = VAR.match(name)
        return int(mm.group(1)) if mm and str(int(mm.group(1))) == mm.group(1) else name

    def _abs(self, tc, amap, untagged=None):
        m = self._m()
        cst, tcm = m["cst"], m["tcm"]
        types = {int: 0, str: 1, list: 2}
        out = []
        for s in tc.statements():
            code = cst.Module(body=[s.node]).code
            sid = sid_of_code(code, untagged)
            if sid is None:
                raise RuntimeError(f"statement without identity tag: {code!r}")
            asserts = []
            for a in s.assertions:
                src = getattr(a, "source", None)
                asserts.append([amap.get(id(a), -1), None if src is None else self._enc(src.split(".")[0])])
            acc = s.accessible
            exp = sorted(EXC_NAMES.index(e) for e in acc.expected_exceptions) if acc is not None else []
            out.append([sid, None if s.bound_variable is None else self._enc(s.bound_variable),
                        None if s.bound_type is None else types[s.bound_type],
                        sorted((self._enc(u) for u in s.used_variables()), key=str), asserts,
                        tc._transform_assign_to_expr(s.node) is not s.node, exp])  # noqa: SLF001
        return out

    # -- implementation adapter ---------------------------------------------------------------
    def impl(self, case):
        m = self._m()
        export, pp = m["export"], m["pp"]
        tc, amap, ref = self._build(case)
        untagged = case.get("untagged")
        initial = self._abs(tc, amap, untagged)
        # scoping of the ORIGINAL test case, by ast on its own code + rendered assertions
        trace = []
        for op in self._ops(case):
            err, deleted = False, None
            if op == "visitUnused":
                # what generator._minimize does: the visitor inside a TestCasePostProcessor, on the chromosome
                visitor = pp.UnusedStatementsTestCaseVisitor()
                chrom = m["tcc"].TestCaseChromosome(test_case=tc)
                pp.TestCasePostProcessor([visitor]).visit_test_case_chromosome(chrom)
                tc = chrom.test_case
                deleted = sorted(visitor.deleted_statement_indexes)
            elif op == "removeUnused":
                tc.remove_unused_variables()
            elif op == "clone":
                tc = tc.clone()
            elif "removeFwd" in op:
                try:
                    tc.remove_statement_with_forward_dependencies(op["removeFwd"]["index"])
                except IndexError:
                    err = True
            else:
                tc.chop(op["chop"]["position"])
            trace.append({"stmts": self._abs(tc, amap, untagged), "indexError": err, "deleted": deleted})
        before_write = [x[0] for x in self._abs(tc, amap, untagged)]
        # the real writer
        suite = m["tsc"].TestSuiteChromosome()
        suite.add_test_case_chromosome(m["tcc"].TestCaseChromosome(test_case=tc))
        outs = list(case["outs"])
        calls = {"n": 0}
        exc_types = {"ValueError": ValueError, "KeyError": KeyError, "ZeroDivisionError": ZeroDivisionError,
                     "C19Err": m["sut"].C19Err}
        by_sid = {s["sid"]: o for s, o in zip(case["stmts"], outs)}

        def fake_exec(code_str, namespace, tracer):
            calls["n"] += 1
            o = by_sid[sid_of_code(code_str, untagged)]
            if not o["finished"]:
                return False, None
            return True, (None if o["exc"] is None else exc_types[EXC_NAMES[o["exc"]]])
        rec = []
        orig_pse = export.TestSuiteWriter._per_statement_exceptions
        orig_exec = export._exec_statement_guarded

        def spy(self2, tc2, *a, **k):
            r = orig_pse(self2, tc2, *a, **k)
            rec.append(list(r))
            return r
        export.TestSuiteWriter._per_statement_exceptions = spy
        if not case["real"]:
            export._exec_statement_guarded = fake_exec
        else:
            self.real_exec += 1
        out_dir = self._scratch() / "out"
        try:
            writer = export.TestSuiteWriter(no_xfail=case["noXfail"])
            path = writer.write(suite, SUT_NAME if case["importOk"] else "c19_no_such_module", out_dir,
                                project_path=str(self._scratch() / "sut"), format_with_black=False, seed=None)
        finally:
            export.TestSuiteWriter._per_statement_exceptions = orig_pse
            export._exec_statement_guarded = orig_exec
        text = Path(path).read_text()
        fn = find_function(text, "test_0")
        if fn is None or len(rec) != 1:
            raise RuntimeError("no test_0 in the written file / _per_statement_exceptions not called once")
        # an assert line of the file -> the id of the assertion it renders.  Equal assertions render to the same text, so
        # the line is attributed to the first not yet seen assertion with this text attached to the statement it follows,
        # else to any not yet seen assertion with this text (the file cannot tell them apart either)
        attached = {s["sid"]: [a["id"] for a in s["asserts"]] for s in case["stmts"]}
        all_ids = [a["id"] for s in case["stmts"] for a in s["asserts"]]
        seen_ids: set[int] = set()
        cur_sid = None

        def resolve(text):
            for pool in (attached.get(cur_sid, []), all_ids):
                for i in pool:
                    if i not in seen_ids and ref.get(i) == text:
                        seen_ids.add(i)
                        return i
            return next((i for i in all_ids if ref.get(i) == text), None)
        roots = {a["id"]: (None if a["src"] is None else self._enc(a["src"].replace("@alias", m["alias"]).split(".")[0]))
                 for s in case["stmts"] for a in s["asserts"]}
        body = []
        for node in fn.body:
            if isinstance(node, ast.Assert):
                t = ast.unparse(node)
                i = resolve(t)
                body.append(["assert", [i, roots[i]]] if i is not None else ["assert", ["?", t]])
            elif isinstance(node, ast.Pass):
                body.append(["pass"])
            else:
                exc = is_raises(node)
                inner = node.body[0] if exc is not None else node
                sid = cur_sid = sid_of(inner, untagged)
                st = [nm for nm in stores_of(inner) if VAR.match(nm)]
                body.append(["stmt", -1 if sid is None else sid, self._enc(st[0]) if st else None,
                             None if exc is None else (EXC_NAMES.index(exc) if exc in EXC_NAMES else exc)])
        excs = [None if e is None else (EXC_NAMES.index(e.__name__) if e.__name__ in EXC_NAMES else e.__name__)
                for e in rec[0]]
        # scoping of the original test case (own code + reference renderings), by the same ast reader
        tc0, _, _ = self._build(case)
        src0 = []
        for s in tc0.statements():
            src0.append(m["cst"].Module(body=[s.node]).code)
            for a in s.assertions:
                n = m["a2c"](a)
                if n is not None:
                    src0.append(m["cst"].Module(body=[n]).code)
        fn0 = ast.parse("def t():\n" + "".join("    " + ln + "\n" for blk in src0 for ln in blk.splitlines())).body[0]
        self._io[id(case)] = {"initial": initial, "excs": None}
        io = {"initial": initial, "trace": trace, "before_write": before_write,
              "written": self._abs(tc, amap, untagged),
                "excs": excs, "body": body, "xfail": any(is_xfail(d) for d in fn.decorator_list),
                "scoped0": not scoping_problems(fn0), "unscoped": scoping_problems(fn),
                "exec_calls": calls["n"]}
        self._io[id(case)]["excs"] = excs
        return io

    @staticmethod
    def _ops(case):
        """the history; corpus cases written before the visitor became a step of its own carry a `visitor` flag that
        turns every `removeUnused` into a visit"""
        return ["visitUnused" if (op == "removeUnused" and case.get("visitor")) else op for op in case["ops"]]

    # -- model side ------------------------------------------------------------------------------
    def model_line(self, case):
        # the statement abstraction is taken from the real objects (used_variables() is C15's concern)
        io = self._io.pop(id(case))
        stmts = [{"sid": x[0], "bound": x[1], "btype": x[2], "uses": x[3],
                  "asserts": [({"exc": {"id": a[0]}} if a[1] is None and self._is_exc(case, a[0])
                               else {"ref": {"id": a[0], "root": a[1]}}) for a in x[4]],
                  "simpleAssign": x[5], "expected": x[6]} for x in io["initial"]]
        return vcommon.jdump({"stmts": stmts, "ops": self._ops(case), "noXfail": case["noXfail"],
                              "importOk": case["importOk"],
                              "outs": [dict(o, sid=st["sid"]) for st, o in zip(case["stmts"], case["outs"])],
                              "excs": io["excs"] if case["real"] else None})

    @staticmethod
    def _is_exc(case, aid):
        return any(a["id"] == aid and a["kind"] == "exc" for s in case["stmts"] for a in s["asserts"])

    def compare(self, case, io, mo):
        if "bad-op" in mo:
            return False
        canon = lambda l: [[x[0], x[1], x[2], sorted(x[3], key=str), x[4], x[5], sorted(x[6])] for x in l]  # noqa: E731
        if len(mo["trace"]) != len(io["trace"]):
            return False
        for a, b in zip(io["trace"], mo["trace"]):
            if (a["indexError"] != b["indexError"] or canon(a["stmts"]) != canon(b["stmts"])
                    or a["deleted"] != b.get("deleted")):
                return False
        return (canon(io["written"]) == canon(mo["written"]) and io["excs"] == mo["excs"]
                and io["body"] == mo["body"] and io["xfail"] == mo["xfail"]
                and io["scoped0"] == mo["readsOK0"] and (not io["unscoped"]) == mo["itemsOK"])

    # -- the property, on the written file ---------------------------------------------------------
    def oracle(self, case, io):
        fails = []
        want = {s["sid"]: [a["id"] for a in s["asserts"] if a["kind"] != "exc"] for s in case["stmts"]}
        kinds = {a["id"]: (a["kind"], a["src"]) for s in case["stmts"] for a in s["asserts"]}
        by_sid = {s["sid"]: s for s in case["stmts"]}
        groups, stray = [], []
        for it in io["body"]:
            if it[0] == "stmt":
                groups.append([it[1], []])
            elif it[0] == "assert":
                (groups[-1][1] if groups else stray).append(it[1][0])
        # no step of the history is a statement removal of a minimiser (those may take a statement and its
        # assertions away: C22): passes, visits of the unused-statements visitor, clones
        pure = all(op in ("removeUnused", "visitUnused", "clone") for op in case["ops"])

        def srcclass(sid, aid):
            src = kinds[aid][1]
            root = src.split(".")[0]
            own = by_sid[sid]["bound"] is not None and root == f"var_{by_sid[sid]['bound']}"
            return "own-variable" if own else ("module-global" if root == "@alias" else "other-variable")
        if stray:
            fails.append(Failure({"class": "assertion-before-any-statement"}, f"assert lines {stray} precede every statement"))
        for sid, got in groups:
            if sid not in want:
                fails.append(Failure({"class": "unknown-statement-exported"}, f"statement s{sid} in the file is not in the test case"))
                continue
            if got != want[sid]:
                missing = [a for a in want[sid] if a not in got]
                if missing:
                    a = missing[0]
                    fails.append(Failure(
                        {"class": "assertion-dropped", "source": srcclass(sid, a),
                         "statement": by_sid[sid]["kind"]},
                        f"statement s{sid} ({self._code(by_sid[sid], 'c19sut_').strip()!r}) was exported without its "
                        f"{kinds[a][0]} assertion on {kinds[a][1]!r}; attached ids {want[sid]}, exported {got}; "
                        f"history {case['ops']}"))
                else:
                    fails.append(Failure({"class": "assertions-reordered-or-foreign"},
                                         f"statement s{sid}: attached ids {want[sid]}, exported below it {got}"))
        exported = [g[0] for g in groups]
        if pure:
            # "never silently drop an oracle": a statement that carried a renderable assertion is in the file
            for st in case["stmts"]:
                if want[st["sid"]] and st["sid"] not in exported:
                    a = want[st["sid"]][0]
                    fails.append(Failure(
                        {"class": "assertion-dropped", "source": srcclass(st["sid"], a), "statement": st["kind"],
                         "how": "statement-deleted"},
                        f"statement s{st['sid']} ({self._code(st, 'c19sut_').strip()!r}) carried the {kinds[a][0]} "
                        f"assertion on {kinds[a][1]!r} (attached ids {want[st['sid']]}) and is not in the exported "
                        f"function at all although the history {case['ops']} contains no minimiser removal; "
                        f"exported statements {exported}"))
        if exported != io["before_write"]:
            fails.append(Failure({"class": "statement-dropped-by-export"},
                                 f"test case had statements {io['before_write']} when write() was called, file shows {exported}"))
        # (a statement WITHOUT assertions that disappears in such a history is no lost oracle — Lean:
        # `C19_any_visitor_sparing_assertions` —; it still is a model/implementation disagreement)
        order = [s["sid"] for s in case["stmts"]]
        it = iter(order)
        if not all(any(x == y for y in it) for x in exported):
            fails.append(Failure({"class": "statement-order"}, f"exported order {exported} is not a subsequence of {order}"))
        if pure and io["scoped0"]:
            bad = [u for u in io["unscoped"] if u.startswith("assert:")]
            if bad:
                fails.append(Failure({"class": "assertion-reads-unbound-variable"},
                                     f"exported assertion reads {bad[0].split(':')[1]} which no statement above binds "
                                     f"(the binding was removed); history {case['ops']}"))
            bad = [u for u in io["unscoped"] if u.startswith("stmt:")]
            if bad:
                fails.append(Failure({"class": "statement-reads-unbound-variable"},
                                     f"exported statement reads {bad[0].split(':')[1]} which nothing above binds"))
        return fails

    def classify(self, case, io):
        init = {x[0]: x for x in io["initial"]}
        feats = []
        for x in io["written"]:
            o = init[x[0]]
            if not o[4]:
                continue
            if o[1] is not None and x[1] is None:
                feats.append(("unbound-with-assertions", len(o[4]), tuple(sorted({str(a[1] == o[1]) for a in o[4]}))))
            elif o[1] is not None and o[5] and not any(o[1] in y[3] for y in io["initial"]):
                feats.append(("kept-for-assertion", len(o[4])))
        for it in io["body"]:
            if it[0] == "stmt" and it[3] is not None:
                feats.append(("raises", it[3]))
        if io["xfail"]:
            feats.append(("xfail",))
        if len(io["written"]) < len(io["initial"]):
            feats.append(("removed", len(io["initial"]) - len(io["written"])))
        if None in io["excs"] and any(not o["finished"] for o in case["outs"]):
            feats.append(("timeout",))
        self.count("kind:" + ("real-exec" if case["real"] else "scripted"))
        by_sid = {s["sid"]: s for s in case["stmts"]}
        bound_now = {x[0]: x[1] for x in io["written"]}
        for x in io["initial"]:
            st = by_sid[x[0]]
            if st["kind"] == "literal":
                self.count("stmt:literal:" + st["lit"])
            # a statement that lost its binding while every renderable assertion on it reads something else
            if x[1] is not None and bound_now.get(x[0], x[1]) is None and any(a[1] is not None for a in x[4]):
                self.count(f"unbound-carrier:{st['kind']}:" + "+".join(sorted(
                    {"module-attr" if isinstance(a[1], str) else "other-variable" for a in x[4] if a[1] is not None})))
        if "visitUnused" in self._ops(case):
            self.count("history:with-visitor")
        self.count("assertions:" + str(min(9, sum(len(x[4]) for x in io["initial"]))))
        for f in feats:
            self.count("feature:" + f[0])
        if not feats:
            return None
        return vcommon.jdump([len(io["initial"]), sorted(map(str, feats)), [x[1] is None for x in io["written"]]])

    def run(self):
        try:
            return super().run()
        finally:
            self.extra_coverage["real_exec_cases"] = self.real_exec
            self._cleanup()

    # -- witnesses: D9 as recorded in DESIGN §6 ----------------------------------------------------
    def witnesses(self):
        case = {"stmts": [{"sid": 0, "kind": "assign", "bound": 0, "btype": 0, "reads": [], "boom": None, "expected": [],
                           "asserts": [{"id": 0, "kind": "object", "src": "var_0"}]}],
                "ops": ["removeUnused"], "noXfail": False, "importOk": True, "outs": [{"finished": True, "exc": None}],
                "real": True, "visitor": True}
        io = self.impl(case)
        self._io.pop(id(case), None)
        fs = self.oracle(case, io)
        for f in fs:
            f.case = case
        return fs

    # -- real pipeline runs ------------------------------------------------------------------------
    def _plan_pipelines(self):
        if self._plan:
            return
        n = self.n_runs_quick if self.tier == "quick" else self.n_runs_thorough
        n = int(os.environ.get("VERIF_RUNS", n))
        rng = __import__("random").Random(self.seed * 7919 + 19)
        names = sorted(PIPE_SUTS)
        mins = ["CASE:BACKWARD", "NONE:BACKWARD", "CASE:FORWARD", "SUITE:BACKWARD", "COMBINED:FORWARD"]
        for i in range(n):
            self._plan.append({"i": i, "name": names[(self.seed + i) % len(names)],
                               "mode": ["SIMPLE", "MUTATION_ANALYSIS"][(self.seed + i) % 2 if i >= 2 else 0],
                               "min": mins[(self.seed + i) % len(mins)], "seed": rng.randint(1, 10 ** 6),
                               "iters": rng.choice([4, 6, 8]),
                               "algo": ["DYNAMOSA", "MOSA", "WHOLE_SUITE", "RANDOM"][(self.seed + i) % 4]})
        self._procs = {}

    def _launch(self, k):
        root = self._scratch() / "runs"
        env = dict(os.environ)
        env.setdefault("PYTHONHASHSEED", "0")
        for r in self._plan:
            if k <= 0:
                break
            if r["i"] in self._procs:
                continue
            d = root / f"r{r['i']}"
            (d / "sut").mkdir(parents=True)
            (d / "sut" / f"sut_{r['name']}.py").write_text(PIPE_SUTS[r["name"]])
            args = ["--project-path", str(d / "sut"), "--module-name", f"sut_{r['name']}",
                    "--output-path", str(d / "tests"), "--report-dir", str(d / "rep"),
                    "--algorithm", r["algo"], "--maximum-iterations", str(r["iters"]), "--seed", str(r["seed"]),
                    "--assertion-generation", r["mode"], "--use-master-worker", "False"]
            log = (d / "log.txt").open("w")
            self._procs[r["i"]] = (d, subprocess.Popen(
                [vcommon.PY, str(Path(__file__).resolve()), *args],
                env=dict(env, C19_PIPELINE_OUT=str(d / "obs.json"), C19_MIN=r["min"]), cwd=str(d), stdout=log,
                stderr=subprocess.STDOUT))
            k -= 1

    def extra_checks(self):
        self._m()
        self._plan_pipelines()
        fails, runs, n_stmts, n_asserts, n_lost, n_matched = [], 0, 0, 0, 0, 0
        for r in self._plan:
            if r["i"] not in self._procs:
                self._launch(4)
            d, p = self._procs[r["i"]]
            try:
                p.wait(timeout=900)
            except subprocess.TimeoutExpired:
                p.kill()
                raise RuntimeError(f"pipeline run {r} timed out")
            self._launch(1)
            obs = d / "obs.json"
            if not obs.exists():
                raise RuntimeError(f"pipeline run {r} produced no observation: {(d / 'log.txt').read_text()[-800:]}")
            got = json.loads(obs.read_text())
            self.count(f"real-run:{r['name']}:{r['mode']}:{r['min']}:rc{got['rc']}")
            if not got["built"]:
                continue
            runs += 1
            text = Path(got["files"][0]).read_text() if got["files"] else ""
            for b in got["built"]:
                n_stmts += len(b["stmts"])
                where = f"real run {r['name']}/{r['algo']}/{r['mode']}/{r['min']}/seed {r['seed']}, test_{b['idx']}"
                fn_built = ast.parse(b["code"]).body[0]
                fn_file = find_function(text, f"test_{b['idx']}")
                gb = body_groups(fn_built)
                gb = [g for g in gb if not isinstance(g[0], ast.Pass)]
                if len(gb) != len(b["stmts"]) or b["n_exc"] != len(b["stmts"]):
                    fails.append(Failure({"class": "pipeline:statement-dropped-by-export"},
                                         f"{where}: {len(b['stmts'])} statements, {b['n_exc']} exception entries, "
                                         f"{len(gb)} statement groups emitted", detail=b))
                    continue
                for st, (_, asserts) in zip(b["stmts"], gb):
                    if not st["candidates"]:
                        self.count("pipeline:statement-not-seen-before-minimize")
                        continue
                    n_asserts += min(len(c) for c in st["candidates"])
                    n_matched += 1
                    if asserts not in st["candidates"]:
                        n_lost += 1
                        fails.append(Failure(
                            {"class": "pipeline:assertion-dropped"},
                            f"{where}: statement `{st['code']}` had {st['candidates']} after assertion generation, "
                            f"the exported function shows {asserts} below it", detail={"function": b["code"]}))
                if fn_file is None:
                    fails.append(Failure({"class": "pipeline:function-missing-in-file"}, f"{where}: not in {got['files']}"))
                else:
                    gf = [g for g in body_groups(fn_file) if not isinstance(g[0], ast.Pass)]
                    if [g[1] for g in gf] != [g[1] for g in gb]:
                        fails.append(Failure({"class": "pipeline:file-differs-from-built-function"},
                                             f"{where}: assert lines of the file differ from the built function"))
        self.extra_coverage["real_pipeline_runs_checked"] = runs
        self.extra_coverage["real_pipeline_statements"] = n_stmts
        self.extra_coverage["real_pipeline_assertions_expected"] = n_asserts
        self.extra_coverage["real_pipeline_statements_matched"] = n_matched
        if self._plan and runs == 0:
            raise RuntimeError("no real pipeline run reached _build_test_function")
        # one Failure per class is enough for the verdict; keep the first of each
        seen, out = set(), []
        for f in fails:
            k = vcommon.jdump(f.signature)
            if k not in seen:
                seen.add(k)
                out.append(f)
        return out


if __name__ == "__main__":
    if os.environ.get("C19_PIPELINE_OUT"):
        pipeline_runner()
    run_main(C19)
