"""C06 — control-dependence graphs match the post-dominance definition (DESIGN §5 C06).

For every code object of generated programs and of pure-Python stdlib modules the real
`CFG.from_bytecode` / `ControlDependenceGraph.compute` are run; the augmented CFG, networkx's
post-dominator tree and the resulting CDG (+ `get_control_dependencies`, `is_control_dependent_on_root`)
are exported, together with the graph `CFG.from_bytecode` handed to `filter_dead_code_nodes`.  The Lean driver
(0) runs the model of the repaired filter (loop + reachability pass, `filterDeadFull`) on that graph — the node
set must be the real CFG's —, (1) validates the tree against post-dominance pair by pair with
*checked certificates* (`decidePdom`, soundness proved), (2) checks `TreeOK` and `LabelConsistent`,
(3) recomputes the CDG and the two queries; everything is diffed.
Oracle (independent of Lean): brute-force post-dominance in Python → Ferrante's set; CFG shape; every node
reachable from ENTRY and nothing reachable removed by the filter; an exception during construction is a failure;
`get_control_dependencies` = every (branch, outcome) reachable backwards over non-branch CDG edges of the
*expected* (Ferrante) CDG; `is_control_dependent_on_root` = a root edge reachable the same way.

Case kinds: `gen` (progen programs), `stdlib`, `skel` (control-flow skeletons around opaque one-line
statements: single-block `while True` loops, generators, try/with/match inside branches and loops, …),
`synth` (random block graphs handed to the real `_insert_dummy_nodes` / `filter_dead_code_nodes` /
`ControlDependenceGraph.compute`: self loops, irreducible loops, try-like unlabelled forks, yield blocks,
unreachable cycles / dead chains / loops behind dead handlers),
`src` (corpus).
"""
from __future__ import annotations

import random

import progen
import vcommon
from vcommon import Failure, PropertyCheck, run_main

ENTRY, EXIT, ROOT = 0, 1, 2


def snapshot(graph):
    """Nodes and edges of a program graph as plain objects (taken before the real filter mutates it)."""
    return {"nodes": list(graph.graph.nodes), "edges": [(s, t) for s, t in graph.graph.edges]}


def cfg_of_code(code):
    """The real CFG construction for a code object: (CFG, graph handed to `filter_dead_code_nodes`).

    `CFG.from_bytecode` is called as is; the module-level `filter_dead_code_nodes` it ends with is wrapped
    for the duration of the call so that its argument can be recorded.  When `from_bytecode` does not call it
    the finished graph itself stands for the filter's input (the model then has to leave it unchanged)."""
    from bytecode import Bytecode

    from pynguin.instrumentation import controlflow as cf
    from pynguin.instrumentation import version

    seen = []
    real = cf.filter_dead_code_nodes

    def recording(graph, entry_node):
        seen.append(snapshot(graph))
        return real(graph, entry_node)

    cf.filter_dead_code_nodes = recording
    try:
        cfg = cf.CFG.from_bytecode(version.add_for_loop_no_yield_nodes(Bytecode.from_code(code)))
    finally:
        cf.filter_dead_code_nodes = real
    return cfg, (seen[-1] if seen else snapshot(cfg))


def cfg_of_blocks(blocks):
    """A real `CFG` over a synthetic block graph: `blocks[i] = {"succ": [[target, label], ...], "y": bool}`.

    Only the part of `CFG.from_bytecode` that depends on the `bytecode` library (block splitting, edge
    creation) is replaced; ENTRY/EXIT insertion (exit, yield and infinite-loop nodes) and dead-node
    filtering are the real `_insert_dummy_nodes` / `filter_dead_code_nodes`."""
    import networkx as nx
    from bytecode import BasicBlock, Instr

    from pynguin.instrumentation import controlflow as cf

    cfg = cf.CFG.__new__(cf.CFG)
    cfg._graph = nx.DiGraph()
    cfg._bytecode_cfg = None
    nodes = []
    for i, b in enumerate(blocks):
        instrs = [Instr("NOP")] + ([Instr("YIELD_VALUE", 1)] if b.get("y") else [])
        nodes.append(cf.BasicBlockNode(index=i, basic_block=BasicBlock(instrs)))
    edges = {i: [(t, ({} if l is None else {cf.EDGE_DATA_BRANCH_VALUE: l, "label": l})) for t, l in b["succ"]]
             for i, b in enumerate(blocks) if b["succ"]}
    cf.CFG._create_graph(cfg, edges, dict(enumerate(nodes)))
    cf.CFG._insert_dummy_nodes(cfg)
    raw = snapshot(cfg)
    return cf.filter_dead_code_nodes(cfg, cf.ArtificialNode.ENTRY), raw


def export_graph(cfg, raw):
    """Run the real CDG construction on a CFG and export everything as plain data (`raw`: the graph that
    was handed to `filter_dead_code_nodes`, see `snapshot`)."""
    from pynguin.instrumentation import controlflow as cf

    aug = cf.ControlDependenceGraph._create_augmented_graph(cfg)
    tree = cf.ControlDependenceGraph._compute_post_dominator_tree(aug)
    cdg = cf.ControlDependenceGraph.compute(cfg)

    def nid(n):
        if n is cf.ArtificialNode.ENTRY:
            return ENTRY
        if n is cf.ArtificialNode.EXIT:
            return EXIT
        if n is cf.ArtificialNode.AUGMENTED_ENTRY:
            return ROOT
        return 3 + n.index

    lab = lambda d: d.get(cf.EDGE_DATA_BRANCH_VALUE, None)  # noqa: E731
    nodes = [nid(n) for n in aug.graph.nodes]
    edges = [{"s": nid(s), "t": nid(t), "l": lab(d)} for s, t, d in aug.graph.edges(data=True)]
    parent = [[nid(c), nid(p)] for p, c in tree.graph.edges]
    cdg_edges = sorted([nid(s), nid(t), lab(d)] for s, t, d in cdg.graph.edges(data=True))
    cdg_edges.sort(key=lambda e: (e[0], e[1], str(e[2])))
    gnodes = [nid(n) for n in cdg.graph.nodes]
    deps, rootdep = [], []
    for n in cdg.graph.nodes:
        ds = [[nid(d.node), d.branch_value] for d in cdg.get_control_dependencies(n)]
        deps.append([nid(n), ds])
        rootdep.append([nid(n), cdg.is_control_dependent_on_root(n)])
    cfg_edges = [[nid(s), nid(t), lab(d)] for s, t, d in cfg.graph.edges(data=True)]
    return {
        "nodes": nodes, "blocks": [n for n in nodes if n >= 3], "edges": edges, "parent": parent,
        "entry": ENTRY, "exit": EXIT, "root": ROOT,
        "cdg": cdg_edges, "cdg_nodes": sorted(gnodes), "deps": sorted(deps), "rootDep": sorted(rootdep),
        "cfg_nodes": sorted(nid(n) for n in cfg.graph.nodes), "cfg_edges": cfg_edges,
        "raw_nodes": [nid(n) for n in raw["nodes"]], "raw_edges": [[nid(s), nid(t)] for s, t in raw["edges"]],
    }


def reach(adj, src, avoid=None):
    seen, todo = {src}, [src]
    while todo:
        x = todo.pop()
        for y in adj.get(x, ()):
            if y != avoid and y not in seen:
                seen.add(y)
                todo.append(y)
    return seen


class Skel:
    """Control-flow skeleton generator: every compound statement of Python around opaque one-line
    statements, so that blocks are small and the CFG shape (not the data flow) is what varies.
    Programs are only compiled, never run, so loops may be infinite (`while True:` with a one-statement
    body is a basic block jumping to itself).  No statement is generated after one that cannot fall
    through, so there is no dead code — unless `dead` is set: then statements (loops among them) may follow a
    `return` / `raise` / `break` / `continue`, and `try` bodies that cannot raise (`pass`, `return None`) get
    handlers with loops, so that the raw block graph has blocks — and cycles — the first block does not reach
    (CPython removes most dead code itself, the `bytecode` library keeps what hangs on an exception table
    entry).  `block` returns (lines, may_fall_through, breaks_enclosing_loop)."""

    MAX_DEPTH = 3

    def __init__(self, rng, generator, is_async, dead=False):
        self.r = rng
        self.generator = generator
        self.is_async = is_async
        self.dead = dead

    def small_loop(self):
        r = self.r
        return r.choice([
            ["while x == 4:", "    pass"],
            ["while True:", "    o.m()"],
            ["while 1:", "    x = o.g(x)", "    if x:", "        break"],
            ["for k in it:", "    pass"],
            ["for k in it:", "    if k:", "        break", "else:", "    o.m()"],
            ["while x:", "    x = o.g(x)", "    if x is None:", "        continue", "    o.m()"],
            ["while x:", "    while y:", "        y = o.g(y)", "    x = o.g(x)"],
            ["while True:", "    match x:", "        case str():", "            o.m()"],
        ])

    def cond(self):
        r = self.r
        return r.choice(["x", "o.p()", "not x", "x is None", "x is not None", "x < 3", "x in it",
                         "x and o.p()", "x or o.p()", "o.p(x) and not o.q()", "(y := o.p())", "x < y < 9"])

    def simple(self):
        r = self.r
        ks = ["o.m()", "x = o.g(x)", "y = x", "o.m()"]
        if self.generator:
            ks += ["yield x", "x = yield x", "yield", "yield from it", "x = yield x"]
        if self.is_async:
            ks += ["await o.m()", "x = await o.g(x)"]
        if r.random() < 0.12:
            ks = ["x = o.a() if x else o.b()", "x = [k for k in it if k]", "assert x", "x = x and o.p()",
                  "x = {k: 1 for k in it}", "o.m(k for k in it if k)"]
        return r.choice(ks)

    @staticmethod
    def ind(ls):
        return ["    " + l for l in ls]

    def block(self, depth, in_loop, n=None):
        r = self.r
        out, brk = [], False
        for _ in range(n if n is not None else r.choice([1, 1, 1, 2, 2, 3])):
            ls, ft, b = self.stmt(depth, in_loop)
            out += ls
            brk = brk or b
            if not ft:
                if self.dead and r.random() < 0.5:  # dead code behind a statement that does not fall through
                    out += self.small_loop() if r.random() < 0.5 else self.stmt(depth, in_loop)[0]
                return out, False, brk
        return out, True, brk

    def stmt(self, depth, in_loop):
        r, ind = self.r, self.ind
        kinds = ["simple"] * 3
        if depth < self.MAX_DEPTH:
            kinds += ["if", "ifelse", "elif", "while", "whiletrue", "whiletrue", "for", "try", "try", "tryfinally",
                      "with", "match"]
            if self.is_async:
                kinds += ["asyncfor", "asyncwith"]
        if in_loop:
            kinds += ["break", "continue", "cbreak", "ccontinue"]
        if depth > 0:
            kinds += ["return", "raise", "creturn"]
        k = r.choice(kinds)
        if k == "simple":
            return [self.simple()], True, False
        if k == "break":
            return ["break"], False, True
        if k == "continue":
            return ["continue"], False, False
        if k == "cbreak":
            return [f"if {self.cond()}:", "    break"], True, True
        if k == "ccontinue":
            return [f"if {self.cond()}:", "    continue"], True, False
        if k == "return":
            return [r.choice(["return x", "return", "return o.g(x)"])], False, False
        if k == "creturn":
            return [f"if {self.cond()}:", "    return x"], True, False
        if k == "raise":
            return [r.choice(["raise ValueError(x)", "raise"])], False, False
        if k == "if":
            b, _, brk = self.block(depth + 1, in_loop)
            return [f"if {self.cond()}:"] + ind(b), True, brk
        if k == "ifelse":
            b1, f1, k1 = self.block(depth + 1, in_loop)
            b2, f2, k2 = self.block(depth + 1, in_loop)
            return [f"if {self.cond()}:"] + ind(b1) + ["else:"] + ind(b2), f1 or f2, k1 or k2
        if k == "elif":
            b1, f1, k1 = self.block(depth + 1, in_loop)
            b2, f2, k2 = self.block(depth + 1, in_loop)
            b3, f3, k3 = self.block(depth + 1, in_loop)
            return ([f"if {self.cond()}:"] + ind(b1) + [f"elif {self.cond()}:"] + ind(b2) + ["else:"] + ind(b3),
                    f1 or f2 or f3, k1 or k2 or k3)
        if k in ("while", "whiletrue", "for", "asyncfor"):
            # a one-statement body makes head and body one basic block (`while True`) or a two-block loop
            b, _, brk = self.block(depth + 1, True, n=1 if r.random() < 0.45 else None)
            head = {"while": f"while {self.cond()}:", "whiletrue": r.choice(["while True:", "while 1:"]),
                    "for": r.choice(["for k in it:", "for k in o.items():", "for k, v in it:"]),
                    "asyncfor": "async for k in it:"}[k]
            out, ft = [head] + ind(b), (brk or k != "whiletrue")
            if k != "whiletrue" and r.random() < 0.25:
                e, fe, ke = self.block(depth + 1, in_loop, n=1)
                return out + ["else:"] + ind(e), fe or brk, ke
            return out, ft, False
        if k == "try":
            b, fb, kb = self.block(depth + 1, in_loop)
            quiet = self.dead and r.random() < 0.6
            if quiet:  # a body that cannot raise: its handlers are not connected to the first block
                b = [r.choice(["pass", "return None", "return", "pass", "x = 1"])]
                fb, kb = not b[0].startswith("return"), False
            out, fh_any, brk = ["try:"] + ind(b), False, kb
            for _ in range(r.choice([1, 1, 2])):
                h, fh, kh = self.block(depth + 1, in_loop, n=r.choice([1, 1, 2]))
                if quiet and r.random() < 0.7:  # a loop in (or, when it falls through, behind) the dead handler
                    h, fh, kh = self.small_loop() + r.choice([[], [], ["o.m()"], ["return x"]]), True, False
                    fh = h[-1] != "return x"
                elif r.random() < 0.3:
                    h, fh, kh = ["pass"], True, False
                head = r.choice(["except:", "except KeyError:", "except (KeyError, ValueError) as e:",
                                 "except Exception as e:"])
                out += [head] + ind(h)
                fh_any, brk = fh_any or fh, brk or kh
                if head == "except:":
                    break
            if fb and r.random() < 0.3:
                e, fb, ke = self.block(depth + 1, in_loop, n=1)
                out += ["else:"] + ind(e)
                brk = brk or ke
            if r.random() < 0.25:
                out += ["finally:"] + ind([r.choice(["o.close()", "x = o.g(x)"])])
            return out, fb or fh_any, brk
        if k == "tryfinally":
            b, fb, kb = self.block(depth + 1, in_loop)
            return ["try:"] + ind(b) + ["finally:"] + ind(["o.close()"]), fb, kb
        if k in ("with", "asyncwith"):
            b, fb, kb = self.block(depth + 1, in_loop)
            head = r.choice(["with o:", "with o as y:", "with o, it as y:"])
            return [("async " if k == "asyncwith" else "") + head] + ind(b), fb, kb
        if k == "match":
            out, ft, brk = ["match x:"], False, False
            pats = r.sample(["case 1:", "case 2 | 3:", "case [a, b]:", "case {'k': v}:", "case str():",
                             "case z if z > 2:"], r.choice([1, 2]))
            wild = r.random() < 0.5
            for p in pats + (["case _:"] if wild else []):
                b, fb, kb = self.block(depth + 2, in_loop, n=1)
                out += ind([p] + ind(b))
                ft, brk = ft or fb, brk or kb
            return out, ft or not wild, brk
        raise AssertionError(k)


def skel_source(seed):
    rng = random.Random(seed)
    is_async = rng.random() < 0.12
    generator = not is_async and rng.random() < 0.4  # (`yield from` / `return x` are errors in async generators)
    s = Skel(rng, generator, is_async, dead=rng.random() < 0.35)
    body, _, _ = s.block(0, False, n=rng.choice([1, 1, 2, 3]))
    return "\n".join([("async def" if is_async else "def") + " f(o, it, x, y=None):"] + Skel.ind(body)) + "\n"


def synth_blocks(rng):
    """A random block graph in the shapes `_create_nodes_and_edges` produces: a block has no successor
    (return), one (fall through / jump), two labelled True/False (conditional jump) or two unlabelled
    (try-begin block: next block + handler); any block may contain a yield.  Successors are arbitrary
    (self loops, irreducible loops, infinite loops).  Half of the graphs consist of blocks reachable from
    block 0 only; the other half keeps the blocks block 0 does not reach (dead chains feeding live blocks,
    unreachable cycles, unreachable yield / return blocks) and often gets an *island* appended: a loop of
    1-3 blocks nobody jumps to — the handler of a `try` whose body cannot raise — that leaves into live code."""
    n = rng.choice([1, 2, 3, 3, 4, 4, 5, 5, 6, 7, 8, 10, 12])
    raw = []
    for i in range(n):
        k = rng.choice(["ret", "jmp", "jmp", "br", "br", "br", "try"] if n > 1 else ["ret", "jmp"])
        pick = lambda: i if rng.random() < 0.15 else rng.randrange(n)  # noqa: E731
        if k == "ret":
            succ = []
        elif k == "jmp":
            succ = [[pick(), None]]
        else:
            a, b = pick(), pick()
            if a == b:  # a DiGraph holds one edge per pair (conditional jump to the next block)
                b = (a + 1) % n
            succ = [[a, True], [b, False]] if k == "br" else [[a, None], [b, None]]
        raw.append({"succ": succ, "y": rng.random() < 0.15})
    if rng.random() < 0.5:
        if rng.random() < 0.6:  # island: head (-> body ...) -> head, one block leaves the loop (or none does)
            k = rng.choice([1, 1, 2, 3])
            base = len(raw)
            for j in range(k):
                nxt = base + (j + 1) % k
                out = rng.randrange(base + k) if rng.random() < 0.8 else None
                if out is None or out == nxt:
                    succ = [[nxt, None]]
                elif rng.random() < 0.7:
                    succ = [[nxt, True], [out, False]] if rng.random() < 0.5 else [[out, True], [nxt, False]]
                else:
                    succ = [[nxt, None], [out, None]]
                raw.append({"succ": succ, "y": rng.random() < 0.1})
            if rng.random() < 0.3:  # … entered from a block that is dead itself
                raw.append({"succ": [[base, None]], "y": False})
        return raw
    seen, todo = {0}, [0]
    while todo:
        for t, _ in raw[todo.pop()]["succ"]:
            if t not in seen:
                seen.add(t)
                todo.append(t)
    ren = {old: new for new, old in enumerate(sorted(seen))}
    return [{"succ": [[ren[t], l] for t, l in raw[old]["succ"]], "y": raw[old]["y"]} for old in sorted(seen)]


class C06(PropertyCheck):
    prop_id = "C06"
    prop_modules = ["PynguinModel.Props.C06"]
    extra_modules = ["PynguinModel.Model.Cdg", "PynguinModel.Model.CdgQueries", "PynguinModel.Model.CdgFilter"]
    driver = "Driver/C06.lean"
    n_quick = 700
    n_thorough = 9000
    n_search = 3000
    rule = ("code objects of random generated programs (progen), of control-flow skeletons (one-block loops, generators, "
            "try/with/match in branches and loops, dead code and loops in handlers of try bodies that cannot raise) and of "
            "pure-Python stdlib modules, plus synthetic block graphs (half of them with unreachable blocks / cycles) handed "
            "to the real _insert_dummy_nodes / filter_dead_code_nodes / compute; "
            "non-trivial = distinct CFG with at least one labelled (branch) edge")
    assumptions = ["networkx immediate_dominators / lowest_common_ancestor are parameters: validated per graph "
                   "(tree = strict post-dominance, by checked certificates, for graphs up to CERT_MAX nodes), not proved",
                   "bytecode's block splitting and CFG edge creation are not modelled (C03)",
                   "a branch block with an artificial EXIT edge can depend on itself under both outcomes; the DiGraph "
                   "stores one edge per pair, either wanted label is accepted there (guard:double-label)"]
    CERT_MAX = 45

    def __init__(self, tier, seed):
        super().__init__(tier, seed)
        self._std = None
        self._codes = {}
        self._graphs = {}

    # cases are descriptors; the code object / block graph is rebuilt deterministically from them
    def gen_case(self, rng):
        k = rng.random()
        if k < (0.25 if self.tier == "quick" else 0.3):
            if self._std is None:
                self._std = progen.stdlib_code_objects()
            i = rng.randrange(len(self._std))
            return {"kind": "stdlib", "module": self._std[i][0], "index": i}
        if k < 0.55:
            return {"kind": "gen", "seed": rng.randrange(1 << 30), "pick": rng.randrange(1 << 16)}
        if k < 0.8:
            return {"kind": "skel", "seed": rng.randrange(1 << 30), "pick": rng.randrange(1 << 16)}
        return {"kind": "synth", "blocks": synth_blocks(rng)}

    def _code(self, case):
        key = vcommon.jdump(case)
        if key in self._codes:
            return self._codes[key]
        if case["kind"] == "stdlib":
            if self._std is None:
                self._std = progen.stdlib_code_objects()
            code = self._std[case["index"]][1]
        elif case["kind"] in ("src", "skel"):
            src = case["src"] if case["kind"] == "src" else skel_source(case["seed"])
            cos = progen.all_code_objects(compile(src, "<c06>", "exec"))
            # the module's own code object is straight-line: pick among the functions (and what they nest)
            cos = cos[1:] or cos
            code = cos[case.get("pick", 0) % len(cos)]
        else:
            src = progen.gen_module(random.Random(case["seed"]), n_funcs=2)
            cos = progen.all_code_objects(compile(src, "<gen>", "exec"))
            code = cos[case["pick"] % len(cos)]
        self._codes[key] = code
        return code

    def impl(self, case):
        key = vcommon.jdump(case)
        if key in self._graphs:
            return self._graphs[key]
        self.count("kind:" + case["kind"])
        try:
            cfg, raw = cfg_of_blocks(case["blocks"]) if case["kind"] == "synth" else cfg_of_code(self._code(case))
        except Exception as e:  # noqa: BLE001
            # every code object has a CFG: any exception here (the KeyError for loops the first block does not
            # reach included, repaired in /repo 98ae781) is a failure of the property, reported with the input
            self.count("cfg-construction-raised")
            g = {"err": type(e).__name__, "msg": str(e)[:200]}
            self._graphs[key] = g
            return g
        try:
            g = export_graph(cfg, raw)
        except Exception as e:  # noqa: BLE001
            self.count("cdg-construction-raised")
            g = {"err": type(e).__name__, "msg": "CDG: " + str(e)[:200]}
            self._graphs[key] = g
            return g
        self._graphs[key] = g
        self.count(f"nodes:{min(len(g['nodes']) // 10 * 10, 60)}+")
        if any(s == t for s, t, _ in g["cfg_edges"]):
            self.count("shape:cfg-self-loop")
        dead = set(g["raw_nodes"]) - set(g["cfg_nodes"])
        if dead:
            self.count("shape:dead-nodes-filtered")
            radj = {}
            for a, b in g["raw_edges"]:
                radj.setdefault(a, []).append(b)
            if any(n in reach(radj, t) for n in dead for t in radj.get(n, ())):
                self.count("shape:unreachable-cycle-filtered")
        if any(len({d[0] for d in ds}) < len(ds) for _, ds in g["deps"]):
            self.count("shape:depends-on-both-outcomes")
        return g

    def model_line(self, case):
        g = self.impl(case)
        if "err" in g:
            return None
        certs = len(g["nodes"]) <= self.CERT_MAX
        self.count("certs:" + ("yes" if certs else "skipped-large"))
        return vcommon.jdump({k: g[k] for k in ("nodes", "blocks", "edges", "parent", "entry", "exit", "root")}
                             | {"certs": certs, "rawNodes": g["raw_nodes"], "rawEdges": g["raw_edges"]})

    def compare(self, case, io, mo):
        if "bad-op" in mo:
            return False
        norm = lambda deps: sorted([n, sorted((list(x) for x in d), key=str)] for n, d in deps)  # noqa: E731
        if mo.get("live") is not None and mo.get("loopOnly") != len(mo["live"]):
            self.count("model:reachability-pass-removed-nodes")  # the legacy loop alone would have kept them
        ok = (mo["cdg"] == io["cdg"] and mo["treeOK"] and mo["pdomBad"] == []
              and mo.get("live") == io["cfg_nodes"]  # filterDeadFull (Lean) = the real filter_dead_code_nodes
              and norm(mo["deps"]) == norm(io["deps"])
              and sorted(mo["rootDep"]) == io["rootDep"])
        self.extra_coverage["pdom_pairs_certified"] = self.extra_coverage.get("pdom_pairs_certified", 0) + mo.get("pdomPairs", 0)
        if not mo.get("labelConsistent", True):
            self.count("guard:label-inconsistent")
        if not mo.get("uniform", True):  # hypothesis of root_dependence_exact / root_dependence_of_no_branch
            self.count("guard:non-uniform-out-edges")
        return ok

    # ---- the property itself, evaluated on the implementation's graphs ----
    def oracle(self, case, g):
        fs = []
        sig = lambda c: {"class": c}  # noqa: E731
        if "err" in g:
            return [Failure(sig("cfg-construction-raises"),
                            f"no CFG/CDG for this code object: {g['err']}: {g['msg']}")]
        adj = {}
        for s, t, _ in g["cfg_edges"]:
            adj.setdefault(s, []).append(t)
        indeg = {n: 0 for n in g["cfg_nodes"]}
        for s, t, _ in g["cfg_edges"]:
            indeg[t] += 1
        if indeg.get(ENTRY, 0) != 0 or len(adj.get(ENTRY, [])) != 1:
            fs.append(Failure(sig("entry-shape"), "ENTRY must have in-degree 0 and one successor"))
        sinks = [n for n in g["cfg_nodes"] if not adj.get(n)]
        if sinks != [EXIT]:
            fs.append(Failure(sig("exit-shape"), f"EXIT must be the only node without successors, sinks={sinks}"))
        if reach(adj, ENTRY) != set(g["cfg_nodes"]):
            fs.append(Failure(sig("unreachable-block"), "a CFG node is not reachable from ENTRY",
                              detail=sorted(set(g["cfg_nodes"]) - reach(adj, ENTRY))))
        # the filter removes dead code only: what ENTRY reaches in the graph handed to filter_dead_code_nodes
        # is still there, with its edges (the CFG of the code object has every block the entry reaches)
        radj = {}
        for a, b in g["raw_edges"]:
            radj.setdefault(a, []).append(b)
        rlive = reach(radj, ENTRY) if ENTRY in g["raw_nodes"] else set()
        if rlive - set(g["cfg_nodes"]):
            fs.append(Failure(sig("reachable-block-removed"), "a block the entry reaches is missing in the CFG",
                              detail=sorted(rlive - set(g["cfg_nodes"]))))
        lost = sorted([a, b] for a, b in g["raw_edges"] if a in rlive and b in rlive
                      and not any(s == a and t == b for s, t, _ in g["cfg_edges"]))
        if lost:
            fs.append(Failure(sig("cfg-edge-lost"), "an edge between reachable blocks is missing in the CFG", detail=lost))
        # Ferrante on the augmented graph with brute-force post-dominance
        aadj = {}
        for e in g["edges"]:
            aadj.setdefault(e["s"], []).append(e["t"])
        nodes = g["nodes"]

        memo = {}

        def pdom(b, v):  # every path v -> EXIT passes through b
            if (b, v) not in memo:
                memo[(b, v)] = b == v or EXIT not in reach(aadj, v, avoid=b)
            return memo[(b, v)]

        want = {}  # (A, B) -> outcomes v with: B post-dominates succ_v(A), B does not strictly post-dominate A
        for e in g["edges"]:
            a, t, l = e["s"], e["t"], e["l"]
            for b in nodes:
                if a not in (ENTRY, EXIT) and b not in (ENTRY, EXIT) and pdom(b, t) and not (b != a and pdom(b, a)):
                    want.setdefault((a, b), set()).add(l)
        have = {}
        for a, b, l in g["cdg"]:
            have.setdefault((a, b), set()).add(l)
        # A branch block that also got an artificial EXIT edge (entry of an infinite loop, yield block) can
        # depend on itself under BOTH outcomes (`while True: if x: f()`): the DiGraph holds one edge per
        # pair, so exactly one of the wanted labels must be stored (guard, counted).
        double = {p for p, ls in want.items() if len(ls) > 1}
        if double:
            self.count("guard:double-label")
        missing = sorted(([a, b, l] for (a, b), ls in want.items() for l in ls
                          if (a, b) not in double and l not in have.get((a, b), ())), key=str)
        missing += sorted(([a, b, sorted(want[(a, b)], key=str)] for (a, b) in double
                           if len(have.get((a, b), ())) != 1 or not have[(a, b)] <= want[(a, b)]), key=str)
        extra = sorted(([a, b, l] for (a, b), ls in have.items() for l in ls if l not in want.get((a, b), ())), key=str)
        if missing or extra:
            fs.append(Failure(sig("cdg-differs-from-ferrante"),
                              "CDG edges differ from the post-dominance definition",
                              detail={"missing": missing, "extra": extra}))
        # the expected graph, a doubly labelled pair taken the way the implementation stores it
        want = {(a, b, l) for (a, b), ls in want.items()
                for l in (ls if (a, b) not in double else ls & have.get((a, b), set()))}
        # get_control_dependencies / is_control_dependent_on_root against the EXPECTED graph: the branch
        # dependencies of n are the labelled edges out of basic blocks met when walking CDG edges backwards
        # from n through every other edge (root, try-begin and yield blocks have unlabelled out-edges);
        # n is root dependent when that walk meets an edge out of the augmented entry.
        blocks = set(g["blocks"])
        incoming, kinds = {}, {}
        for a, b, l in sorted(want, key=str):
            is_dep = a in blocks and l is not None
            incoming.setdefault(b, []).append((a, l, is_dep))
            kinds.setdefault(a, set()).add(is_dep)
        mixed = any(len(k) > 1 for k in kinds.values())
        if mixed:
            self.count("guard:mixed-out-edges")
        have_deps = {n: {(d[0], d[1]) for d in ds} for n, ds in g["deps"]}
        have_root = dict(map(tuple, g["rootDep"]))
        for n in g["cdg_nodes"]:
            exp, on_root, seen, todo = set(), False, {n}, [n]
            while todo:
                for a, l, is_dep in incoming.get(todo.pop(), ()):
                    if is_dep:
                        exp.add((a, l))
                    elif a == ROOT:
                        on_root = True
                    elif a not in seen:
                        seen.add(a)
                        todo.append(a)
            got, rd = have_deps.get(n, set()), have_root.get(n)
            if exp - got:
                fs.append(Failure(sig("control-dependency-missing"),
                                  f"get_control_dependencies({n}) misses {sorted(exp - got)}",
                                  detail={"node": n, "expected": sorted(exp), "got": sorted(got)}))
            if got - exp:
                fs.append(Failure(sig("control-dependency-spurious"),
                                  f"get_control_dependencies({n}) reports {sorted(got - exp)} which the definition does not give",
                                  detail={"node": n, "expected": sorted(exp), "got": sorted(got)}))
            if n != ROOT and not exp and not rd:
                fs.append(Failure(sig("no-dependence-at-all"),
                                  f"node {n} depends on no branch but is not root-dependent"))
            if rd and not on_root:
                fs.append(Failure(sig("root-dependence-without-root-path"),
                                  f"node {n} reported root-dependent, but every CDG path from the root passes a branch"))
            if on_root and not rd and not mixed:
                fs.append(Failure(sig("root-dependence-missed"),
                                  f"node {n} hangs off the root over non-branch CDG edges but is reported not root-dependent"))
            if len(fs) > 6:
                break
        return fs

    def classify(self, case, g):
        if "edges" in g and any(e["l"] is not None for e in g["edges"]):
            return vcommon.jdump(sorted((e["s"], e["t"], str(e["l"])) for e in g["edges"]))
        return None


if __name__ == "__main__":
    run_main(C06)
