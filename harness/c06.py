"""C06 — control-dependence graphs match the post-dominance definition (DESIGN §5 C06).

For every code object of generated programs and of pure-Python stdlib modules the real
`CFG.from_bytecode` / `ControlDependenceGraph.compute` are run; the augmented CFG, networkx's
post-dominator tree and the resulting CDG (+ `get_control_dependencies`, `is_control_dependent_on_root`)
are exported.  The Lean driver (1) validates the tree against post-dominance pair by pair with
*checked certificates* (`decidePdom`, soundness proved), (2) checks `TreeOK` and `LabelConsistent`,
(3) recomputes the CDG and the two queries; everything is diffed.
Oracle (independent of Lean): brute-force post-dominance in Python → Ferrante's set; CFG shape.
"""
from __future__ import annotations

import random

import progen
import vcommon
from vcommon import Failure, PropertyCheck, run_main

ENTRY, EXIT, ROOT = 0, 1, 2


def export_graph(code):
    """Run the real CFG/CDG construction on a code object and export everything as plain data."""
    import networkx as nx
    from bytecode import Bytecode

    from pynguin.instrumentation import controlflow as cf
    from pynguin.instrumentation import version

    cfg = cf.CFG.from_bytecode(version.add_for_loop_no_yield_nodes(Bytecode.from_code(code)))
    aug = cf.ControlDependenceGraph._create_augmented_graph(cfg)
    tree = cf.ControlDependenceGraph._compute_post_dominator_tree(aug)
    cdg = cf.ControlDependenceGraph.compute(cfg)

    def nid(n):
        if n is cf.ArtificialNode.ENTRY:
            return ENTRY
        if n is cf.ArtificialNode.EXIT:
            return EXIT
        if n is cf.ArtificialNode.AUGMENTED_ENTRY:
            return ROOT
        return 3 + n.index

    lab = lambda d: d.get(cf.EDGE_DATA_BRANCH_VALUE, None)  # noqa: E731
    nodes = [nid(n) for n in aug.graph.nodes]
    edges = [{"s": nid(s), "t": nid(t), "l": lab(d)} for s, t, d in aug.graph.edges(data=True)]
    parent = [[nid(c), nid(p)] for p, c in tree.graph.edges]
    cdg_edges = sorted([nid(s), nid(t), lab(d)] for s, t, d in cdg.graph.edges(data=True))
    cdg_edges.sort(key=lambda e: (e[0], e[1], str(e[2])))
    gnodes = [nid(n) for n in cdg.graph.nodes]
    deps, rootdep = [], []
    for n in cdg.graph.nodes:
        ds = [[nid(d.node), d.branch_value] for d in cdg.get_control_dependencies(n)]
        deps.append([nid(n), ds])
        rootdep.append([nid(n), cdg.is_control_dependent_on_root(n)])
    cfg_edges = [[nid(s), nid(t), lab(d)] for s, t, d in cfg.graph.edges(data=True)]
    return {
        "nodes": nodes, "blocks": [n for n in nodes if n >= 3], "edges": edges, "parent": parent,
        "entry": ENTRY, "exit": EXIT, "root": ROOT,
        "cdg": cdg_edges, "cdg_nodes": sorted(gnodes), "deps": sorted(deps), "rootDep": sorted(rootdep),
        "cfg_nodes": sorted(nid(n) for n in cfg.graph.nodes), "cfg_edges": cfg_edges,
    }


def reach(adj, src, avoid=None):
    seen, todo = {src}, [src]
    while todo:
        x = todo.pop()
        for y in adj.get(x, ()):
            if y != avoid and y not in seen:
                seen.add(y)
                todo.append(y)
    return seen


class C06(PropertyCheck):
    prop_id = "C06"
    prop_modules = ["PynguinModel.Props.C06"]
    extra_modules = ["PynguinModel.Model.Cdg"]
    driver = "Driver/C06.lean"
    n_quick = 700
    n_thorough = 9000
    n_search = 3000
    rule = ("code objects of random generated programs (progen) and of pure-Python stdlib modules; "
            "non-trivial = distinct CFG with at least one labelled (branch) edge")
    assumptions = ["networkx immediate_dominators / lowest_common_ancestor are parameters: validated per graph "
                   "(tree = strict post-dominance, by checked certificates, for graphs up to CERT_MAX nodes), not proved",
                   "bytecode's block splitting and CFG edge creation are not modelled (C03)"]
    CERT_MAX = 45

    def __init__(self, tier, seed):
        super().__init__(tier, seed)
        self._std = None
        self._codes = {}
        self._graphs = {}

    # cases are descriptors; the code object is rebuilt deterministically from them
    def gen_case(self, rng):
        if rng.random() < (0.35 if self.tier == "quick" else 0.5):
            if self._std is None:
                self._std = progen.stdlib_code_objects()
            i = rng.randrange(len(self._std))
            return {"kind": "stdlib", "module": self._std[i][0], "index": i}
        s = rng.randrange(1 << 30)
        return {"kind": "gen", "seed": s, "pick": rng.randrange(1 << 16)}

    def _code(self, case):
        key = vcommon.jdump(case)
        if key in self._codes:
            return self._codes[key]
        if case["kind"] == "stdlib":
            if self._std is None:
                self._std = progen.stdlib_code_objects()
            code = self._std[case["index"]][1]
        elif case["kind"] == "src":
            cos = progen.all_code_objects(compile(case["src"], "<c06>", "exec"))
            code = cos[case.get("pick", 0) % len(cos)]
        else:
            src = progen.gen_module(random.Random(case["seed"]), n_funcs=2)
            cos = progen.all_code_objects(compile(src, "<gen>", "exec"))
            code = cos[case["pick"] % len(cos)]
        self._codes[key] = code
        return code

    def impl(self, case):
        key = vcommon.jdump(case)
        if key in self._graphs:
            return self._graphs[key]
        g = export_graph(self._code(case))
        self._graphs[key] = g
        self.count("kind:" + case["kind"])
        self.count(f"nodes:{min(len(g['nodes']) // 10 * 10, 60)}+")
        return g

    def model_line(self, case):
        g = self.impl(case)
        certs = len(g["nodes"]) <= self.CERT_MAX
        self.count("certs:" + ("yes" if certs else "skipped-large"))
        return vcommon.jdump({k: g[k] for k in ("nodes", "blocks", "edges", "parent", "entry", "exit", "root")}
                             | {"certs": certs})

    def compare(self, case, io, mo):
        if "bad-op" in mo:
            return False
        norm = lambda deps: sorted([n, sorted((list(x) for x in d), key=str)] for n, d in deps)  # noqa: E731
        ok = (mo["cdg"] == io["cdg"] and mo["treeOK"] and mo["pdomBad"] == []
              and norm(mo["deps"]) == norm(io["deps"])
              and sorted(mo["rootDep"]) == io["rootDep"])
        self.extra_coverage["pdom_pairs_certified"] = self.extra_coverage.get("pdom_pairs_certified", 0) + mo.get("pdomPairs", 0)
        if not mo.get("labelConsistent", True):
            self.count("guard:label-inconsistent")
        return ok

    # ---- the property itself, evaluated on the implementation's graphs ----
    def oracle(self, case, g):
        fs = []
        sig = lambda c: {"class": c}  # noqa: E731
        adj = {}
        for s, t, _ in g["cfg_edges"]:
            adj.setdefault(s, []).append(t)
        indeg = {n: 0 for n in g["cfg_nodes"]}
        for s, t, _ in g["cfg_edges"]:
            indeg[t] += 1
        if indeg.get(ENTRY, 0) != 0 or len(adj.get(ENTRY, [])) != 1:
            fs.append(Failure(sig("entry-shape"), "ENTRY must have in-degree 0 and one successor"))
        sinks = [n for n in g["cfg_nodes"] if not adj.get(n)]
        if sinks != [EXIT]:
            fs.append(Failure(sig("exit-shape"), f"EXIT must be the only node without successors, sinks={sinks}"))
        if reach(adj, ENTRY) != set(g["cfg_nodes"]):
            fs.append(Failure(sig("unreachable-block"), "a CFG node is not reachable from ENTRY",
                              detail=sorted(set(g["cfg_nodes"]) - reach(adj, ENTRY))))
        # Ferrante on the augmented graph with brute-force post-dominance
        aadj = {}
        for e in g["edges"]:
            aadj.setdefault(e["s"], []).append(e["t"])
        nodes = g["nodes"]

        def pdom(b, v):  # every path v -> EXIT passes through b
            return b == v or EXIT not in reach(aadj, v, avoid=b)

        want = set()
        double = set()
        for e in g["edges"]:
            a, t, l = e["s"], e["t"], e["l"]
            for b in nodes:
                if pdom(b, t) and not (b != a and pdom(b, a)):
                    if b in (ENTRY, EXIT) or a in (ENTRY, EXIT):
                        continue
                    for (a2, b2, l2) in list(want):
                        if (a2, b2) == (a, b) and l2 != l:
                            double.add((a, b))
                    want.add((a, b, l))
        have = {(a, b, l) for a, b, l in g["cdg"]}
        if double:
            self.count("guard:double-label")
            want = {(a, b, l) for (a, b, l) in want if (a, b) not in double}
            have = {(a, b, l) for (a, b, l) in have if (a, b) not in double}
        if want != have:
            fs.append(Failure(sig("cdg-differs-from-ferrante"),
                              "CDG edges differ from the post-dominance definition",
                              detail={"missing": sorted(want - have, key=str), "extra": sorted(have - want, key=str)}))
        # root dependence: nodes not dependent on any branch hang off the root
        labelled_targets = {b for a, b, l in g["cdg"] if l is not None}
        for n, rd in g["rootDep"]:
            if n != ROOT and not rd and not g_deps(g, n):
                fs.append(Failure(sig("no-dependence-at-all"),
                                  f"node {n} is neither root-dependent nor dependent on a branch"))
                break
        return fs

    def classify(self, case, g):
        if any(e["l"] is not None for e in g["edges"]):
            return vcommon.jdump(sorted((e["s"], e["t"], str(e["l"])) for e in g["edges"]))
        return None


def g_deps(g, n):
    for m, ds in g["deps"]:
        if m == n:
            return ds
    return []


if __name__ == "__main__":
    run_main(C06)
