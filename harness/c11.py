"""C11 — adding tests never lowers coverage or raises fitness; trace merging is order-independent
(DESIGN §5 C11).

Correspondence: random families of real `ExecutionTrace`s over a random real `SubjectProperties`
are merged by the real `ExecutionTrace.merge` / `analyze_results` in the given order, in a random
permutation and in a random two-group split; every prefix of the family is evaluated by the real
suite-level fitness and coverage classes and by every single-branch restriction of the branch
fitness (one `_predicate_fitness` summand each).  Traces come from the generators of `c10.py`
(no-guidance predicates whose other outcome stays at distance inf, loop predicates, straight-line
families where execution counts >= 2 arise only by merging) and from real histories (modules
instrumented by pynguin's import hook, run under the real tracer).  The Lean model (`Driver/C10.lean`,
mode `c11`, shared with C10) computes the same; merged traces are compared *including* dict /
OrderedSet insertion order, values as exact rationals.

Oracle (on the implementation's values only): the projections (sets as sets, dicts as maps) of the
three merge orders coincide, merging a trace into itself doubles the counts and changes nothing
else, all suite values coincide across orders, fitness is non-increasing and coverage
non-decreasing along the prefixes, and a covered verdict is never lost.  Whatever the implementation
produces is canonicalised by `c10.guard` / `c10.plain` (exact number, bool, "nan", "inf", {"err": type})
and judged here: an exception or a non-finite value is not "a fitness at most as high".
Builders, encoders and generators are shared with `c10.py`.
"""
from __future__ import annotations

import vcommon
from vcommon import Failure, PropertyCheck, run_main

import c10 as base


def projection(state):
    """The coverage-relevant projection of a trace state: sets as sorted lists, dicts sorted by key."""
    if "err" in state:
        return state
    return {"code": sorted(state["code"]), "lines": sorted(state["lines"]), "checked": sorted(state["checked"]),
            "cnt": sorted(state["cnt"]), "dT": sorted(state["dT"], key=lambda e: e[0]),
            "dF": sorted(state["dF"], key=lambda e: e[0])}


#: compared with the model; the verdict of compute_branch_distance_fitness_is_covered is C10's subject
#: (defect D1 / proposed fix) and is only used by the oracle here
CMP_KEYS = [k for k in base.SUITE_KEYS if k not in ("bis", "bis_ex")]


frac = base.as_frac      # exact value of a canonical number; None for an exception / NaN / infinity / junk


def state_of(f):
    """The literal state of the trace the implementation call f returns, or {"err": type name}."""
    try:
        t = f()
    except Exception as e:                   # noqa: BLE001
        return None, base.err_of(e)
    return t, base.trace_state(t)


#: real-history modules (defined in c10.py): loops / repeated calls over predicates with and without guidance
REAL_FOR_C11 = ["sutc10c", "sutc10a"]


class C11(PropertyCheck):
    prop_id = "C11"
    prop_modules = ["PynguinModel.Props.C11"]
    extra_modules = ["PynguinModel.Model.Fitness"]
    driver = "Driver/C10.lean"
    n_quick = 1000
    n_thorough = 12000
    n_search = 5000
    rule = ("random registries x families of 2-5 random traces (30 % no-guidance predicates at distance inf, "
            "loop predicates, 30 % straight-line families) and real tracer histories, merged in order / permuted "
            "/ split in two groups / into itself, all prefixes evaluated; non-trivial = at least two traces "
            "record the same predicate, the permutation is not the identity, all floats exactly representable; "
            "input_distribution inf-ge2:* counts families with an inf distance at execution count >= 2")
    assumptions = [
        "traces have non-negative NaN-free distances and the three predicate dicts share their keys "
        "(invariant of update_predicate_distances / merge, proved: merge_preserves_shape)",
        "coverage monotonicity additionally assumes validate_execution_trace-valid traces and unique registry keys",
        "executed_instructions / executed_assertions / object_addresses are not part of the projection "
        "(order-dependent by design, used by no modelled fitness or coverage function)",
        "TestSuiteAssertionCheckedCoverageFunction (slicer based) is not modelled",
    ]
    trusted_base_extra = ["networkx shortest_path_length / pynguin CFG.diameter are parameters of the model"]

    def __init__(self, tier, seed):
        super().__init__(tier, seed)
        self.cmp_stats: dict = {}
        self._mlines: dict = {}

    # -- generation ---------------------------------------------------------------------------
    def gen_case(self, rng):
        reg = base.gen_registry(rng)
        n = rng.choice([2, 2, 3, 3, 4, 5])
        inexact = rng.random() < 0.15
        once = rng.random() < 0.3            # straight-line tests: counts >= 2 arise only by merging
        traces = [base.gen_trace(rng, reg, allow_inexact=inexact, once=once) for _ in range(n)]
        if rng.random() < 0.08:
            t = rng.choice(traces)
            k = rng.choice(["unknown_code", "unknown_line", "unknown_checked", "unknown_pred"])
            op = base.gen_corruption(rng, reg, {"updates": []})
            while op[0] != k:
                op = base.gen_corruption(rng, reg, {"updates": []})
            t["corrupt"].append(op)
        perm = list(range(n))
        rng.shuffle(perm)
        case = {"reg": reg, "traces": traces, "perm": perm, "split": rng.randint(0, n)}
        case.update(base.gen_exclusions(rng, reg))
        return case

    # -- histories: real traces of modules instrumented by pynguin's import hook ------------------
    def corpus(self):
        out = super().corpus()
        rng = __import__("random").Random(self.seed * 7919 + 11)
        for name in REAL_FOR_C11:
            for _ in range(4 if self.tier == "quick" else 30):
                n = rng.choice([2, 3, 3, 4])
                perm = list(range(n))
                rng.shuffle(perm)
                out.append({"real": name, "calls": [base.real_call(name, rng) for _ in range(n)],
                            "perm": perm, "split": rng.randint(0, n)})
        return out

    # -- implementation -----------------------------------------------------------------------
    def impl(self, case):
        import copy
        import pynguin.ga.fitness_metrics as fm
        key = vcommon.jdump(case)
        if "real" in case:
            sp, mod = base.real_module(case["real"])
            originals = [base.real_run(sp, mod, c) for c in case["calls"]]
            mreg = base.registry_json(sp)
            mtraces = [dict(base.trace_state(t), updates=[]) for t in originals]
            ex = {"exCode": [], "exT": [], "exF": []}
            self.count("real:" + case["real"])

            def fresh():
                return [copy.deepcopy(t) for t in originals]
        else:
            sp, mreg = base.build_registry(case["reg"])
            mtraces = [base.build_trace(t)[1] for t in case["traces"]]
            ex = case

            # merge mutates its receiver only; every merge below starts from fresh ExecutionTrace()s
            def fresh():
                return [base.build_trace(t)[0] for t in case["traces"]]

        def analyze(ts):
            return fm.analyze_results([base.result_of(t) for t in ts])

        def grouped_of(ts):
            g = analyze(ts[:case["split"]])
            g.merge(analyze(ts[case["split"]:]))
            return g

        def self_of():
            t = analyze(fresh())
            t.merge(analyze(fresh()))
            return t

        # the SAME trace objects serve every prefix (as a test's cached result serves every suite it is in)
        traces = fresh()
        n = len(traces)
        out = {"prefix": [base.suite_values(traces[:k], sp, ex) for k in range(n + 1)]}
        # every single-branch fitness function along the prefixes (one `_predicate_fitness` summand each)
        out["prefix_summands"] = []
        for k in range(n + 1):
            t, st = state_of(lambda k=k: analyze(fresh()[:k]))
            out["prefix_summands"].append(base.summand_values(t, sp) if t is not None else st)
        final, out["final"] = state_of(lambda: analyze(fresh()))
        permuted_traces = [fresh()[i] for i in case["perm"]]
        _, out["permuted"] = state_of(lambda: analyze(permuted_traces))
        grouped, out["grouped"] = state_of(lambda: grouped_of(fresh()))
        _, out["self"] = state_of(self_of)
        out["permuted_suite"] = base.suite_values(permuted_traces, sp, ex)
        out["grouped_suite"] = base.suite_values([grouped], sp, ex) if grouped is not None else None
        parts = fresh()
        out["shape_each"] = all(base.hypotheses(sp, t)["shape"] for t in parts)
        if final is not None:
            out["hyp"] = base.hypotheses(sp, final)
            out["approx"] = base.approx_flag(final) or any(base.approx_flag(t) for t in parts)
            for cl in base.inf_rule_classes(final, parts):
                self.count(cl)
        else:
            out["hyp"] = dict.fromkeys(("shape", "valid", "rwf", "goal"), False)
            out["approx"] = False
        if "real" in case:
            out["real"] = True
        mcase = {"mode": "c11", "reg": mreg, "traces": mtraces, "exCode": ex["exCode"],
                 "exT": ex["exT"], "exF": ex["exF"], "perm": case["perm"], "split": case["split"]}
        self._mlines[key] = vcommon.jdump(mcase)
        self.count("traces:%d" % n)
        self.count("hyp:" + ("all" if all(out["hyp"].values()) else "-".join(k for k, b in out["hyp"].items() if not b)))
        self.count("approx" if out["approx"] else "exact")
        self.count("perm:" + ("identity" if case["perm"] == sorted(case["perm"]) else "shuffled"))
        self.count("split:" + ("edge" if case["split"] in (0, n) else "inner"))
        return out

    # -- model --------------------------------------------------------------------------------
    def model_line(self, case):
        line = self._mlines.pop(vcommon.jdump(case), None)
        if line is None:
            self.impl(case)
            line = self._mlines.pop(vcommon.jdump(case))
        return line

    def compare(self, case, io, mo):
        if "bad-op" in mo or "unparsable" in mo or io["grouped_suite"] is None:
            return False
        a, st = io["approx"], self.cmp_stats
        ok = True
        for k in ("final", "permuted", "grouped", "self"):
            ok &= base.deep_eq(io[k], mo[k], False, st)           # insertion orders included
        ok &= len(io["prefix"]) == len(mo["prefix"])
        for pi, pm in zip(io["prefix"], mo["prefix"]):
            ok &= all(base.deep_eq(pi[k], pm[k], a, st) for k in CMP_KEYS)
        for k in ("permuted_suite", "grouped_suite"):
            ok &= all(base.deep_eq(io[k][kk], mo[k][kk], a, st) for kk in CMP_KEYS)
        ok &= base.deep_eq(io["prefix_summands"], mo["prefix_summands"], a, st)
        self.extra_coverage["compare_modes"] = dict(self.cmp_stats)
        return bool(ok)

    # -- property oracle on the implementation ------------------------------------------------
    def oracle(self, case, io):
        """C11 on the implementation's values.  Every value is canonical: an exact number, a bool, or the
        exception / "nan" / "inf" the implementation produced — the latter have no exact value (`frac` is
        None) and break "fitness at most as high" / "coverage at least as high" as such."""
        fs = []
        if not (io["shape_each"] or io.get("real")):   # a real trace is a legitimate input whatever I assume
            return fs
        for name in ("final", "permuted", "grouped", "self"):
            if "err" in io[name]:
                fs.append(Failure({"fn": "ExecutionTrace.merge", "class": f"raises-on-well-formed-traces:{name}"},
                                  f"merging ({name}) raised {io[name]['err']} on well-formed traces"))
        if fs:
            return fs
        pf = projection(io["final"])
        for name in ("permuted", "grouped"):
            if projection(io[name]) != pf:
                fs.append(Failure({"fn": "ExecutionTrace.merge", "class": f"projection-depends-on-order:{name}"},
                                  f"merging in {name} order gives a different coverage-relevant projection",
                                  detail={"final": pf, name: projection(io[name])}))
        ps = projection(io["self"])
        doubled = dict(pf, cnt=[[k, 2 * v] for k, v in pf["cnt"]])
        if ps != doubled:
            fs.append(Failure({"fn": "ExecutionTrace.merge", "class": "not-idempotent"},
                              "merging a trace into itself changes more than the execution counts",
                              detail={"t": pf, "merge(t,t)": ps}))
        last = io["prefix"][-1]
        for name in ("permuted_suite", "grouped_suite"):
            diff = [k for k in base.SUITE_KEYS if io[name][k] != last[k]]
            if diff:
                fs.append(Failure({"fn": "suite-values", "class": f"value-depends-on-order:{name}"},
                                  f"{diff} differ between merge orders",
                                  detail={"in-order": {k: last[k] for k in diff},
                                          name: {k: io[name][k] for k in diff}}))
        valid = (io["hyp"]["valid"] and io["hyp"]["rwf"]) or io.get("real")
        for k in range(len(io["prefix"]) - 1):
            a, b = io["prefix"][k], io["prefix"][k + 1]
            for key in ("bfit", "bfit_ex", "lfit", "cfit"):
                fa, fb = frac(a[key]), frac(b[key])
                if fa is None or fb is None:
                    fs.append(Failure({"fn": key, "class": "raises-or-not-finite-on-well-formed-trace"},
                                      f"{key} has no finite value on a well-formed merged trace: before adding "
                                      f"test {k}: {a[key]!r}, after: {b[key]!r}"))
                elif fb > fa:
                    fs.append(Failure({"fn": key, "class": "fitness-raised-by-added-test"},
                                      f"adding test {k} raised {key} from {float(fa)} to {float(fb)}"))
            # "every fitness function": also the one restricted to a single branch, for every branch
            sa, sb = io["prefix_summands"][k], io["prefix_summands"][k + 1]
            if isinstance(sa, dict) or isinstance(sb, dict):
                fs.append(Failure({"fn": "analyze_results", "class": "raises-on-well-formed-traces"},
                                  f"analyze_results raised on a prefix of well-formed traces: {sa!r} / {sb!r}"))
                continue
            for (p, ta, fa_), (_, tb, fb_) in zip(sa, sb):
                for side, va, vb in (("true", ta, tb), ("false", fa_, fb_)):
                    xa, xb = frac(va), frac(vb)
                    if xa is None or xb is None:
                        fs.append(Failure({"fn": "_predicate_fitness", "class": "raises-or-not-finite-on-well-formed-trace"},
                                          f"fitness restricted to the {side} branch of predicate {p}: before adding "
                                          f"test {k}: {va!r}, after: {vb!r}"))
                    elif xb > xa:
                        fs.append(Failure({"fn": "_predicate_fitness", "class": "fitness-raised-by-added-test"},
                                          f"adding test {k} raised the fitness restricted to the {side} branch of "
                                          f"predicate {p} from {float(xa)} to {float(xb)}"))
            # line / checked verdicts compare lengths: they mean "all lines" only for valid traces
            for key in ("bis", "bis_ex") + (("lis", "cis") if valid else ()):
                if not isinstance(a[key], bool) or not isinstance(b[key], bool):
                    fs.append(Failure({"fn": key, "class": "no-verdict-on-well-formed-trace"},
                                      f"{key} is not a verdict: {a[key]!r} / {b[key]!r}"))
                elif a[key] and not b[key]:
                    fs.append(Failure({"fn": key, "class": "covered-verdict-lost"},
                                      f"adding test {k} turned {key} from True to False"))
            if valid:
                for key in ("bcov", "lcov", "ccov"):
                    ca, cb = frac(a[key]), frac(b[key])
                    if ca is None or cb is None:
                        fs.append(Failure({"fn": key, "class": "raises-or-not-finite-on-valid-trace"},
                                          f"{key} has no finite value on a valid merged trace: {a[key]!r} / {b[key]!r}"))
                    elif cb < ca:
                        fs.append(Failure({"fn": key, "class": "coverage-lowered-by-added-test"},
                                          f"adding test {k} lowered {key} from {float(ca)} to {float(cb)}"))
        return fs

    def classify(self, case, io):
        if io["approx"] or not io["shape_each"] or case["perm"] == sorted(case["perm"]):
            return None
        if "real" in case:
            shared = any(v >= 2 for _, v in io["final"].get("cnt", []))
            return vcommon.jdump(case) if shared else None
        seen, shared = set(), False
        for t in case["traces"]:
            ps = {u[0] for u in t["updates"]}
            shared |= bool(ps & seen)
            seen |= ps
        if not shared:
            return None
        return vcommon.jdump([case["reg"], case["traces"], case["perm"], case["split"]])


if __name__ == "__main__":
    run_main(C11)
