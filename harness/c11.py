"""C11 — adding tests never lowers coverage or raises fitness; trace merging is order-independent
(DESIGN §5 C11).

Correspondence: random families of real `ExecutionTrace`s over a random real `SubjectProperties`
are merged by the real `ExecutionTrace.merge` / `analyze_results` in the given order, in a random
permutation and in a random two-group split; every prefix of the family is evaluated by the real
suite-level fitness and coverage classes.  The Lean model (`Driver/C10.lean`, mode `c11`, shared
with C10) computes the same; merged traces are compared *including* dict / OrderedSet insertion
order, values as exact rationals.

Oracle (on the implementation's values only): the projections (sets as sets, dicts as maps) of the
three merge orders coincide, merging a trace into itself doubles the counts and changes nothing
else, all suite values coincide across orders, fitness is non-increasing and coverage
non-decreasing along the prefixes, and a covered verdict is never lost.
Builders, encoders and generators are shared with `c10.py`.
"""
from __future__ import annotations

from fractions import Fraction

import vcommon
from vcommon import Failure, PropertyCheck, run_main

import c10 as base


def projection(state):
    """The coverage-relevant projection of a trace state: sets as sorted lists, dicts sorted by key."""
    return {"code": sorted(state["code"]), "lines": sorted(state["lines"]), "checked": sorted(state["checked"]),
            "cnt": sorted(state["cnt"]), "dT": sorted(state["dT"], key=lambda e: e[0]),
            "dF": sorted(state["dF"], key=lambda e: e[0])}


#: compared with the model; the verdict of compute_branch_distance_fitness_is_covered is C10's subject
#: (defect D1 / proposed fix) and is only used by the oracle here
CMP_KEYS = [k for k in base.SUITE_KEYS if k not in ("bis", "bis_ex")]


def frac(v):
    return Fraction(v["ok"][0], v["ok"][1]) if isinstance(v, dict) and isinstance(v.get("ok"), list) else None


class C11(PropertyCheck):
    prop_id = "C11"
    prop_modules = ["PynguinModel.Props.C11"]
    extra_modules = ["PynguinModel.Model.Fitness"]
    driver = "Driver/C10.lean"
    n_quick = 1000
    n_thorough = 12000
    n_search = 5000
    rule = ("random registries x families of 2-5 random traces, merged in order / permuted / split in two "
            "groups / into itself, all prefixes evaluated; non-trivial = at least two traces record the same "
            "predicate, the permutation is not the identity, all floats exactly representable")
    assumptions = [
        "traces have non-negative NaN-free distances and the three predicate dicts share their keys "
        "(invariant of update_predicate_distances / merge, proved: merge_preserves_shape)",
        "coverage monotonicity additionally assumes validate_execution_trace-valid traces and unique registry keys",
        "executed_instructions / executed_assertions / object_addresses are not part of the projection "
        "(order-dependent by design, used by no modelled fitness or coverage function)",
        "TestSuiteAssertionCheckedCoverageFunction (slicer based) is not modelled",
    ]
    trusted_base_extra = ["networkx shortest_path_length / pynguin CFG.diameter are parameters of the model"]

    def __init__(self, tier, seed):
        super().__init__(tier, seed)
        self.cmp_stats: dict = {}
        self._mlines: dict = {}

    # -- generation ---------------------------------------------------------------------------
    def gen_case(self, rng):
        reg = base.gen_registry(rng)
        n = rng.choice([2, 2, 3, 3, 4, 5])
        inexact = rng.random() < 0.15
        traces = [base.gen_trace(rng, reg, allow_inexact=inexact) for _ in range(n)]
        if rng.random() < 0.08:
            t = rng.choice(traces)
            k = rng.choice(["unknown_code", "unknown_line", "unknown_checked", "unknown_pred"])
            op = base.gen_corruption(rng, reg, {"updates": []})
            while op[0] != k:
                op = base.gen_corruption(rng, reg, {"updates": []})
            t["corrupt"].append(op)
        perm = list(range(n))
        rng.shuffle(perm)
        case = {"reg": reg, "traces": traces, "perm": perm, "split": rng.randint(0, n)}
        case.update(base.gen_exclusions(rng, reg))
        return case

    # -- implementation -----------------------------------------------------------------------
    def impl(self, case):
        import pynguin.ga.fitness_metrics as fm
        key = vcommon.jdump(case)
        sp, mreg = base.build_registry(case["reg"])
        built = [base.build_trace(t) for t in case["traces"]]
        # merge mutates its receiver only; every merge below starts from fresh ExecutionTrace()s
        def fresh():
            return [base.build_trace(t)[0] for t in case["traces"]]

        def analyze(ts):
            return fm.analyze_results([base.result_of(t) for t in ts])

        traces = [b[0] for b in built]
        n = len(traces)
        final = analyze(fresh())
        permuted_traces = [fresh()[i] for i in case["perm"]]
        permuted = analyze(permuted_traces)
        ts = fresh()
        grouped = analyze(ts[:case["split"]])
        grouped.merge(analyze(ts[case["split"]:]))
        selfm = analyze(fresh())
        selfm.merge(analyze(fresh()))
        out = {
            "prefix": [base.suite_values(traces[:k], sp, case) for k in range(n + 1)],
            "final": base.trace_state(final), "permuted": base.trace_state(permuted),
            "grouped": base.trace_state(grouped), "self": base.trace_state(selfm),
            "permuted_suite": base.suite_values(permuted_traces, sp, case),
            "grouped_suite": base.suite_values([grouped], sp, case),
            "hyp": base.hypotheses(sp, final),
            "shape_each": all(base.hypotheses(sp, t)["shape"] for t in traces),
            "approx": base.approx_flag(final) or any(base.approx_flag(t) for t in traces),
        }
        mcase = {"mode": "c11", "reg": mreg, "traces": [b[1] for b in built], "exCode": case["exCode"],
                 "exT": case["exT"], "exF": case["exF"], "perm": case["perm"], "split": case["split"]}
        self._mlines[key] = vcommon.jdump(mcase)
        self.count("traces:%d" % n)
        self.count("hyp:" + ("all" if all(out["hyp"].values()) else "-".join(k for k, b in out["hyp"].items() if not b)))
        self.count("approx" if out["approx"] else "exact")
        self.count("perm:" + ("identity" if case["perm"] == sorted(case["perm"]) else "shuffled"))
        self.count("split:" + ("edge" if case["split"] in (0, n) else "inner"))
        return out

    # -- model --------------------------------------------------------------------------------
    def model_line(self, case):
        line = self._mlines.pop(vcommon.jdump(case), None)
        if line is None:
            self.impl(case)
            line = self._mlines.pop(vcommon.jdump(case))
        return line

    def compare(self, case, io, mo):
        if "bad-op" in mo or "unparsable" in mo:
            return False
        a, st = io["approx"], self.cmp_stats
        ok = True
        for k in ("final", "permuted", "grouped", "self"):
            ok &= base.deep_eq(io[k], mo[k], False, st)           # insertion orders included
        ok &= len(io["prefix"]) == len(mo["prefix"])
        for pi, pm in zip(io["prefix"], mo["prefix"]):
            ok &= all(base.deep_eq(pi[k], pm[k], a, st) for k in CMP_KEYS)
        for k in ("permuted_suite", "grouped_suite"):
            ok &= all(base.deep_eq(io[k][kk], mo[k][kk], a, st) for kk in CMP_KEYS)
        self.extra_coverage["compare_modes"] = dict(self.cmp_stats)
        return bool(ok)

    # -- property oracle on the implementation ------------------------------------------------
    def oracle(self, case, io):
        fs = []
        if not io["shape_each"]:
            return fs
        pf = projection(io["final"])
        for name in ("permuted", "grouped"):
            if projection(io[name]) != pf:
                fs.append(Failure({"fn": "ExecutionTrace.merge", "class": f"projection-depends-on-order:{name}"},
                                  f"merging in {name} order gives a different coverage-relevant projection",
                                  detail={"final": pf, name: projection(io[name])}))
        ps = projection(io["self"])
        doubled = dict(pf, cnt=[[k, 2 * v] for k, v in pf["cnt"]])
        if ps != doubled:
            fs.append(Failure({"fn": "ExecutionTrace.merge", "class": "not-idempotent"},
                              "merging a trace into itself changes more than the execution counts",
                              detail={"t": pf, "merge(t,t)": ps}))
        last = io["prefix"][-1]
        for name in ("permuted_suite", "grouped_suite"):
            diff = [k for k in base.SUITE_KEYS if io[name][k] != last[k]]
            if diff:
                fs.append(Failure({"fn": "suite-values", "class": f"value-depends-on-order:{name}"},
                                  f"{diff} differ between merge orders",
                                  detail={"in-order": {k: last[k] for k in diff},
                                          name: {k: io[name][k] for k in diff}}))
        valid = io["hyp"]["valid"] and io["hyp"]["rwf"]
        for k in range(len(io["prefix"]) - 1):
            a, b = io["prefix"][k], io["prefix"][k + 1]
            for key in ("bfit", "bfit_ex"):
                fa, fb = frac(a[key]), frac(b[key])
                if fa is None or fb is None:
                    fs.append(Failure({"fn": key, "class": "raises-on-well-formed-trace"},
                                      f"{key} raised on a well-formed merged trace: {a[key]} / {b[key]}"))
                elif fb > fa:
                    fs.append(Failure({"fn": key, "class": "fitness-raised-by-added-test"},
                                      f"adding test {k} raised {key} from {float(fa)} to {float(fb)}"))
            for key in ("lfit", "cfit"):
                if b[key] > a[key]:
                    fs.append(Failure({"fn": key, "class": "fitness-raised-by-added-test"},
                                      f"adding test {k} raised {key} from {a[key]} to {b[key]}"))
            # line / checked verdicts compare lengths: they mean "all lines" only for valid traces
            for key in ("bis", "bis_ex") + (("lis", "cis") if valid else ()):
                if a[key] and not b[key]:
                    fs.append(Failure({"fn": key, "class": "covered-verdict-lost"},
                                      f"adding test {k} turned {key} from True to False"))
            if valid:
                for key in ("bcov", "lcov", "ccov"):
                    ca, cb = frac(a[key]), frac(b[key])
                    if ca is None or cb is None:
                        fs.append(Failure({"fn": key, "class": "raises-on-valid-trace"},
                                          f"{key} raised on a valid merged trace: {a[key]} / {b[key]}"))
                    elif cb < ca:
                        fs.append(Failure({"fn": key, "class": "coverage-lowered-by-added-test"},
                                          f"adding test {k} lowered {key} from {float(ca)} to {float(cb)}"))
        return fs

    def classify(self, case, io):
        if io["approx"] or not io["shape_each"] or case["perm"] == sorted(case["perm"]):
            return None
        seen, shared = set(), False
        for t in case["traces"]:
            ps = {u[0] for u in t["updates"]}
            shared |= bool(ps & seen)
            seen |= ps
        if not shared:
            return None
        return vcommon.jdump([case["reg"], case["traces"], case["perm"], case["split"]])


if __name__ == "__main__":
    run_main(C11)
