"""C31 — in-process and subprocess execution agree (DESIGN §5 C31).

Six kinds of cases, all against the REAL `SubprocessTestCaseExecutor` / `TestCaseExecutor`:

* `real`   — test cases produced by the real `TestFactory` for small instrumented modules, regression
  assertions attached by the real `AssertionGenerator._add_assertions_for` (some then falsified), executed
  as one batch by `SubprocessTestCaseExecutor.execute_multiple` (a real forked child) and one by one by
  `TestCaseExecutor.execute`, both with `RemoteAssertionTraceObserver` + `RemoteAssertionVerificationObserver`
  attached.  Some batches contain a call that kills the child only (`os._exit` when not in the parent), so
  the real crash fallback (one child per test) runs.  The model (`Driver/C31.lean`) gets the in-process
  results, the bindings, what `dill` says about the exceptions and the crash pattern, and must predict the
  batch result exactly.
* `plumb`  — the real `execute_multiple` / `_process_subprocess_results` / `_fallback_on_failure` with a
  scripted child (fake process + connection): every crash pattern of the batch and of the individual
  re-executions, answers of the wrong length, missing / foreign / renamed bindings.
* `fix`    — the real `_create_variable_binding` + `_fix_assertion_trace` on real test cases, traces and
  assertion objects with identical, renamed, colliding, partial and foreign bindings.
* `pickle` — the real `_fix_result_for_pickle` + `_create_new_reference_bindings` on results holding
  unpicklable exceptions and assertion values, next to picklable values that are NOT equal to their pickled copy
  (float NaN, complex NaN alone and in tuples/lists/dicts) and values a lossy transport would change (-0.0, ±inf,
  extremes).  The model gets what `dill.copy` does to every single item (`round_trip`, measured here) and computes
  the answer of `dill.detect.baditems` itself (`Model/SubprocessPickle.lean`).  The real batches get the same
  treatment; subject module `n` returns / holds such values.
* `config` — configuration transport: the real `execute_multiple` / `_setup_subprocess_execution` /
  `_execute_test_cases_in_subprocess` / `_fallback_on_failure` with the operating system replaced by a
  synchronous stand-in for `multiprocess` (the "child" runs `target(*args)` in this process).  Recorded: the
  `args` tuple of every started child, the `poll` time-out the parent waits with, what the child entry point
  receives by parameter name, the `TestCaseExecutor` the child builds (both time settings, subject properties,
  provider, observers) and the `timeout=` of the watchdog `join` of the REAL `TestCaseExecutor.execute` for every
  test, in the child and in-process — under non-default, distinct values of the two time settings, for the
  batch child and the one-by-one children of the crash fallback.  The model (`launches`, `childEntry`,
  `timeBound`, `pollTimeout`) must predict all of it.
* `slow`   — real forked children again, on test cases whose run time is known by construction (`time.sleep` in
  the subject): slower than one per-statement slice but far inside their budget (must finish in both modes),
  or (thorough tier) far over their budget (must be a time-out in both modes).  Slowness of the machine is never
  a failure: a subprocess time-out only counts when the whole subprocess call returned in less than half the
  configured bound of that test.

Oracle (independent of the model): the property in its own words — per test the subprocess result has the
same time-out flag, exception types per position, covered lines, branch outcomes, assertion trace and
verification trace as the in-process result (tests the injected crash loses must be time-outs, all others
must still agree and stay aligned with their test).
"""
from __future__ import annotations

import atexit
import importlib
import os
import shutil
import sys
import tempfile
import types

import vcommon
from vcommon import Failure, PropertyCheck, run_main

# ---------------------------------------------------------------------------------------------
# subject modules
# ---------------------------------------------------------------------------------------------
SUT_A = '''
import enum
import random

COUNTER = 0
NAME = "sut"


class Color(enum.Enum):
    RED = 1
    GREEN = 2


class TwoArg(Exception):
    def __init__(self, code: int, msg: str) -> None:
        super().__init__(msg)
        self.code = code


class Stack:
    limit = 3

    def __init__(self, cap: int = 2) -> None:
        self.cap = cap
        self.items: list[int] = []

    def push(self, x: int) -> int:
        if len(self.items) >= self.cap:
            raise OverflowError("full")
        self.items.append(x)
        return len(self.items)

    def pop(self) -> int:
        if not self.items:
            raise IndexError("empty")
        return self.items.pop()

    def peek(self):
        return self.items[-1] if self.items else None


def classify(x: int, y: int) -> str:
    if x < y:
        return "lt"
    elif x == y:
        return "eq"
    return "gt"


def ratio(a: float, b: float) -> float:
    return a / b


def bump() -> int:
    global COUNTER
    COUNTER += 1
    return COUNTER


def pick(c: Color) -> int:
    if c is Color.RED:
        return 1
    return 2


def draw(n: int) -> float:
    return random.random() + (1.0 if n > 3 else 0.0)


def checked(code: int) -> int:
    if code % 2 == 0:
        raise TwoArg(code, "even")
    return code


def _reset():
    global COUNTER
    COUNTER = 0
'''

SUT_B = '''
TABLE = {"a": 1, "b": 2}


class Missing(Exception):
    pass


def lookup(key: str) -> int:
    if key not in TABLE:
        raise Missing(key)
    return TABLE[key]


def split(s: str, n: int) -> list[str]:
    out = []
    for i in range(0, len(s), max(1, n)):
        out.append(s[i:i + max(1, n)])
    return out


def stats(xs: list[int]) -> tuple[int, float]:
    if not xs:
        raise ValueError("empty")
    return len(xs), sum(xs) / len(xs)


def index(xs: list[int], i: int) -> int:
    return xs[i]


def sign(x: float) -> int:
    if x > 0:
        return 1
    if x < 0:
        return -1
    return 0


def table(n: int) -> dict[str, int]:
    return {str(i): i * i for i in range(n % 5)}


def nothing(flag: bool) -> None:
    if flag:
        return None
    return None


def _reset():
    pass
'''

SUT_C = '''
import enum


class Mode(enum.Enum):
    FAST = "f"
    SLOW = "s"


class Account:
    bank = "b"
    rate = 0.5

    def __init__(self, owner: str, balance: int) -> None:
        self.owner = owner
        self.balance = balance
        self.mode = Mode.FAST

    def deposit(self, amount: int) -> int:
        if amount < 0:
            raise ValueError("negative")
        self.balance += amount
        return self.balance

    def withdraw(self, amount: int) -> int:
        if amount > self.balance:
            raise ArithmeticError("overdrawn")
        self.balance -= amount
        return self.balance

    def switch(self, mode: Mode) -> Mode:
        old = self.mode
        self.mode = mode
        return old

    def history(self) -> list[int]:
        return [self.balance]


class Ledger:
    def __init__(self, first: Account) -> None:
        self.first = first
        self.count = 1

    def total(self) -> int:
        return self.first.balance

    def owner(self) -> Account:
        return self.first


def interest(a: Account, years: int) -> float:
    if years <= 0:
        return 0.0
    return a.balance * a.rate * years


def _reset():
    pass
'''

# SUT_A plus a call that kills the process it runs in unless that is the harness process itself
SUT_E = SUT_A + '''

import os as _os
_PARENT = _os.getpid()


def crash_in_child() -> int:
    if _os.getpid() != _PARENT:
        _os._exit(3)
    return 0
'''

SUT_D = '''
def spin() -> int:
    n = 0
    while True:
        n += 1
    return n


def _reset():
    pass
'''

SUT_S = '''
import time


def nap(ms: int, flag: int) -> int:
    time.sleep(ms / 1000.0)
    if flag > 3:
        return ms + flag
    return ms - flag


def boom(flag: int) -> int:
    if flag > 3:
        raise ValueError("late")
    return flag


def _reset():
    pass
'''

# values that are not equal to themselves (NaN) or easily lost in transport (-0.0, inf, denormals): returned,
# held in public fields of watched objects, in class-level and module-level fields, inside containers
SUT_N = '''
MISSING = float("nan")
EDGE = -0.0


class Summary:
    worst = float("nan")
    top = float("inf")

    def __init__(self, count: int) -> None:
        self.count = count
        self.mean = float("nan") if count % 3 == 0 else count / 3
        self.low = -0.0
        self.phase = complex("nan") if count % 2 == 0 else complex(count, -0.0)

    def spread(self, scale: int) -> float:
        if self.count == 0:
            return self.mean
        return float(scale) / self.count

    def grow(self, by: int) -> int:
        self.count += by
        self.mean = float("nan") if self.count % 3 == 0 else self.count / 3
        return self.count


def mean(values: list[int]) -> float:
    if not values:
        return float("nan")
    return sum(values) / len(values)


def gap(flag: bool) -> float:
    big = float("inf")
    if flag:
        return big - big
    return -big


def tiny(n: int) -> float:
    if n % 2 == 0:
        return -0.0
    return 5e-324


def phase(n: int) -> complex:
    if n % 2 == 0:
        return complex("nan")
    return complex(0.0, float("inf"))


def pair(n: int) -> tuple[complex, int]:
    return (complex("nan"), n)


def table(n: int) -> dict[str, complex]:
    return {"a": complex("nan"), "b": complex(n)}


def series(n: int) -> list[float]:
    return [float("nan"), -0.0, float(n)]


def make(n: int) -> Summary:
    return Summary(n)


def _reset():
    pass
'''

SUTS = {"n": SUT_N, "a": SUT_A, "b": SUT_B, "c": SUT_C, "e": SUT_E, "d": SUT_D, "s": SUT_S}
OBS_POOL = ["ObsA", "ObsB", "ObsC", "RemoteAssertionTraceObserver"]

ASSERT_KINDS = ["TypeName", "Float", "Object", "IsInstance", "CollectionLength", "Exception"]
EXC_NAMES = ["ValueError", "KeyError", "ZeroDivisionError", "TypeError"]


# observed values: ordinary ones, values that are not equal to themselves (NaN: their pickled copy is not equal
# to the original either), and values a lossy transport would change (-0.0, infinities, extremes)
FLOAT_PAYLOADS = ["0.5", "1.0", "-2.25", "nan", "nan", "nan", "-0.0", "inf", "-inf", "5e-324",
                  "1.7976931348623157e+308"]
OBJECT_PAYLOADS = ["1", "'s'", "[1, 2]", "None", "(nan+0j)", "(nan+0j)", "(1, (nan+0j))", "{'k': (nan+0j)}",
                   "[(1+nanj), 2]", "(1+infj)", "{'a': [1, (2,)]}"]


class _Gen:
    """Marker for a value dill cannot pickle (a live generator) in a case description."""


def _mk_gen():
    return (i for i in range(3))


# ---------------------------------------------------------------------------------------------
# canonical forms
# ---------------------------------------------------------------------------------------------
def canon_assertion(a) -> dict:
    import pynguin.assertion.assertion as ass
    k = type(a).__name__.removesuffix("Assertion")
    if isinstance(a, ass.ExceptionAssertion):
        return {"kind": k, "source": None, "payload": f"{a.module}.{a.exception_type_name}"}
    if isinstance(a, (ass.TypeNameAssertion, ass.IsInstanceAssertion)):
        payload = f"{a.module}.{a.qualname}"
    elif isinstance(a, ass.FloatAssertion):
        payload = repr(a.value)
    elif isinstance(a, ass.ObjectAssertion):
        payload = "<gen>" if isinstance(a.object, types.GeneratorType) else repr(a.object)
    elif isinstance(a, ass.CollectionLengthAssertion):
        payload = repr(a.length)
    else:  # an assertion class this check does not know: keep it visible
        payload = repr(a)
    return {"kind": k, "source": a.source, "payload": payload}


_EVAL_NS = {"nan": float("nan"), "inf": float("inf"), "nanj": complex(0.0, float("nan")),
            "infj": complex(0.0, float("inf")), "__builtins__": {}}


def round_trip(obj) -> str:
    """What `dill.copy` does to one item, looked at the way `dill.detect.pickles` looks at it (measured here,
    item by item, independently of pynguin): 'raises' (an error dill traps), 'equal' (copy == original),
    'sameType' (not equal, same type: values that are not equal to themselves) or 'otherType'.  Any other
    exception propagates (then `baditems` itself raises and pynguin clears the field)."""
    import warnings
    import dill
    try:
        pik = dill.copy(obj)
        with warnings.catch_warnings():
            warnings.simplefilter("ignore")
            same = bool(pik == obj)
    except (TypeError, AssertionError, NotImplementedError, dill.PicklingError, dill.UnpicklingError):
        return "raises"
    if same:
        return "equal"
    if type(pik) == type(obj) or repr(type(pik)) == repr(type(obj)):  # noqa: E721 - as dill does
        return "sameType"
    return "otherType"


def trips_of(result) -> dict:
    """The `probes` object of the driver for one real result: the round trip of every exception (by position)
    and of every assertion (by canonical form), in the order `_fix_result_for_pickle` chains them."""
    def probe(pairs):
        try:
            return {"trips": {"items": [[k, round_trip(v)] for k, v in pairs]}}
        except Exception:  # noqa: BLE001 - `baditems` would raise as well: the clear branch
            return "raised"
    return {"excs": probe(list(result.exceptions.items())),
            "asserts": probe([(canon_assertion(a), a) for st in result.assertion_trace.trace.values() for a in st]),
            "auxOut": []}


def bad_positions(probes) -> list:
    """Positions of the exceptions that do not survive `dill.copy` with their type (input of the oracle's
    classification of the known finding)."""
    ex = probes["excs"]
    if ex == "raised":
        return []
    return [p for p, rt in ex["trips"]["items"] if rt not in ("equal", "sameType")]


def canon_trace(trace) -> list:
    return [[pos, [canon_assertion(a) for a in s]] for pos, s in trace.trace.items()]


def canon_result(r) -> dict:
    et = r.execution_trace
    return {
        "timeout": bool(r.timeout),
        "excs": [[p, type(e).__name__] for p, e in r.exceptions.items()],
        "trace": canon_trace(r.assertion_trace),
        "vfailed": [[p, list(s)] for p, s in r.assertion_verification_trace.failed.items()],
        "verror": [[p, list(s)] for p, s in r.assertion_verification_trace.error.items()],
        "cov": {"lines": sorted(et.covered_line_ids),
                "preds": [[k, v] for k, v in sorted(et.executed_predicates.items())],
                "tdist": [[k, repr(v)] for k, v in sorted(et.true_distances.items())],
                "fdist": [[k, repr(v)] for k, v in sorted(et.false_distances.items())],
                "cos": sorted(et.executed_code_objects)},
        "aux": [],
    }


EMPTY_COV = {"lines": [], "preds": [], "tdist": [], "fdist": [], "cos": []}
CLEAN = {"excs": {"bad": {"items": []}}, "asserts": {"bad": {"items": []}}, "auxOut": []}


def proj(c: dict) -> dict:
    """The projection the property compares (positions with an empty assertion set do not count)."""
    return {"timeout": c["timeout"], "excs": sorted(c["excs"]),
            "trace": sorted([e for e in c["trace"] if e[1]], key=lambda e: e[0]),
            "vfailed": sorted([e for e in c["vfailed"] if e[1]]), "verror": sorted([e for e in c["verror"] if e[1]]),
            "cov": c["cov"]}


def make_assertion(d):
    import pynguin.assertion.assertion as ass
    k, src, pl = d["kind"], d["source"], d["payload"]
    if k == "Exception":
        mod, _, name = pl.rpartition(".")
        return ass.ExceptionAssertion(mod, name)
    if k in ("TypeName", "IsInstance"):
        mod, _, name = pl.rpartition(".")
        return (ass.TypeNameAssertion if k == "TypeName" else ass.IsInstanceAssertion)(src, mod, name)
    if k == "Float":
        return ass.FloatAssertion(src, float(pl))
    if k == "CollectionLength":
        return ass.CollectionLengthAssertion(src, int(pl))
    return ass.ObjectAssertion(src, _mk_gen() if pl == "<gen>" else eval(pl, dict(_EVAL_NS)))  # noqa: S307 - own literals


def make_trace(spec):
    import pynguin.assertion.assertion_trace as at
    from pynguin.utils.orderedset import OrderedSet
    t = at.AssertionTrace()
    for pos, items in spec:
        t.trace[pos] = OrderedSet()
        for d in items:
            t.trace[pos].add(make_assertion(d))
    return t


def make_result(spec, gen_excs=()):
    """A real `ExecutionResult` from a canonical description (exceptions by builtin type name)."""
    import builtins
    from pynguin.testcase.execution_result import ExecutionResult
    r = ExecutionResult(timeout=spec["timeout"])
    for pos, name in spec["excs"]:
        r.exceptions[pos] = getattr(builtins, name)(_mk_gen() if pos in gen_excs else "x")
    r.assertion_trace = make_trace(spec["trace"])
    return r


def make_test_case(stmts):
    import libcst as cst
    import pynguin.testcase.testcase as tc
    t = tc.TestCase()
    for v in stmts:
        src = f"{v} = 1\n" if v is not None else "print(1)\n"
        t.add_statement(tc.Statement(node=cst.parse_module(src).body[0], bound_variable=v))
    return t


# ---------------------------------------------------------------------------------------------
class C31(PropertyCheck):
    prop_id = "C31"
    level = "proof"
    prop_modules = ["PynguinModel.Props.C31"]
    extra_modules = ["PynguinModel.Model.SubprocessAlign", "PynguinModel.Model.SubprocessConfig",
                     "PynguinModel.Model.SubprocessPickle"]
    driver = "Driver/C31.lean"
    n_quick = 280
    n_thorough = 4800
    n_search = 1200
    real_every = {"quick": 70, "thorough": 60}
    slow_every = {"quick": 150, "thorough": 150}
    rule = ("every 70th (quick) / 60th (thorough) case is a batch of 2-5 test cases from the real TestFactory on "
            "one of 5 small modules (one of them returns / holds NaN, -0.0, infinities and complex NaN in floats, "
            "fields of watched objects, class and module fields), with regression assertions (some falsified), run "
            "by a real forked child and in-process, 1 in 6 of them with a child-only crash (+ 3 written-out corpus "
            "batches on the NaN module); every 150th case (+ 1 corpus case) is a batch with a "
            "sleeping test of known run time (slower than one per-statement slice, >= 12x inside its budget; "
            "thorough tier also 2x over budget) run by a real forked child and in-process under distinct time "
            "settings; the rest: 38 % rebinding cases on real traces, 30 % scripted-child plumbing cases (all crash "
            "patterns, wrong lengths, foreign bindings), 17 % pickle-safety cases, 15 % configuration-transport "
            "cases (distinct non-default time settings, 0-3 remote and 0-2 plain observers, batches of 0-4 tests of "
            "0-6 statements, every dead/alive pattern of batch child and one-by-one children); non-trivial = real "
            "batch with at least one assertion and one covered predicate, a plumbing case with a failing child or a "
            "lying answer, a rebinding with renamed or foreign bindings, a pickle case with an unpicklable item, a "
            "configuration case with a test of >= 2 statements and a running child, every slow case")
    assumptions = [
        "fork start method (multiprocess default on Linux, as in pynguin's own tests); the spawn start method "
        "used by the command line is not exercised",
        "test cases are deterministic given the process state at the start of the execution (the harness resets "
        "the module state before each run; PYTHONHASHSEED is inherited by the child)",
        "time-outs of 60 s per statement / 120 s per test for terminating tests, so that load cannot fake one",
        "slow cases: a sleeping test runs >= 0.6 s longer than one per-statement slice and its budget is >= 12x its "
        "run time; a subprocess time-out of such a test is a violation only if the whole subprocess call returned "
        "in less than half that budget and no crash fallback ran (a legitimate time-out waits for the full budget, a "
        "child killed by the operating system triggers the fallback), otherwise the test is counted as inconclusive; in-process results that contradict the nominal run time make the case "
        "inconclusive as well",
        "configuration cases replace `multiprocess` by a synchronous stand-in (Pipe = list, Process.start runs "
        "target(*args) here); fork/pickle of the tuple is exercised by the real and slow cases",
    ]
    trusted_base_extra = [
        "harness/c31.py: the canonical form of an ExecutionResult, the scripted child of the plumbing cases, "
        "dill.copy + `==` + `type` per item (round_trip) as the source of the round-trip outcomes handed to the model, "
        "which computes the answer of dill.detect.baditems itself",
    ]

    _ready = False

    def __init__(self, tier, seed):
        super().__init__(tier, seed)
        self._ncase = 0
        self._stash: dict = {}
        self.extra_coverage["real_batches"] = 0
        self.extra_coverage["real_tests_compared"] = 0
        self.extra_coverage["child_processes"] = 0
        self.extra_coverage["config_children_recorded"] = 0
        self.extra_coverage["slow_tests_compared"] = 0
        self.extra_coverage["slow_inconclusive"] = 0

    # -- set-up ---------------------------------------------------------------------------------
    def _setup(self):
        if self._ready:
            return
        import pynguin.configuration as config
        from pynguin.generator import _patch_random
        from pynguin.instrumentation.tracer import SubjectProperties

        self.tmp = tempfile.mkdtemp(prefix="verif-c31-")
        sys.path.insert(0, self.tmp)
        self.config = config
        cfg = config.configuration
        self._saved = (cfg.module_name, cfg.project_path, list(cfg.statistics_output.coverage_metrics),
                       cfg.seeding.seed, cfg.search_algorithm.chromosome_length)
        cfg.project_path = self.tmp
        cfg.statistics_output.coverage_metrics = [config.CoverageMetric.BRANCH, config.CoverageMetric.LINE]
        cfg.seeding.seed = 7
        cfg.search_algorithm.chromosome_length = 8
        _patch_random()
        self.suts: dict = {}
        self.plumb_sp = SubjectProperties()
        atexit.register(self._teardown)
        self._ready = True

    def _teardown(self):
        if not self._ready:
            return
        cfg = self.config.configuration
        (cfg.module_name, cfg.project_path, cfg.statistics_output.coverage_metrics, cfg.seeding.seed,
         cfg.search_algorithm.chromosome_length) = self._saved
        for s in self.suts.values():
            sys.modules.pop(s["name"], None)
            s["hook"].uninstall()
        if self.tmp in sys.path:
            sys.path.remove(self.tmp)
        shutil.rmtree(self.tmp, ignore_errors=True)
        self._ready = False

    def _sut(self, key):
        """Import one subject module instrumented (once) and build its cluster and factory."""
        if key in self.suts:
            return self.suts[key]
        from pynguin.analyses.module import generate_test_cluster
        from pynguin.instrumentation.machinery import install_import_hook
        from pynguin.instrumentation.tracer import SubjectProperties
        import pynguin.ga.testcasefactory as tcf
        import pynguin.testcase.testfactory as tfm
        name = f"sutc31{key}_{os.getpid()}"
        with open(os.path.join(self.tmp, name + ".py"), "w") as f:
            f.write(SUTS[key].lstrip())
        importlib.invalidate_caches()
        self.config.configuration.module_name = name
        sp = SubjectProperties()
        hook = install_import_hook(name, sp)
        try:
            with sp.instrumentation_tracer:
                mod = importlib.import_module(name)
            with sp.instrumentation_tracer.temporarily_disable():
                cluster = generate_test_cluster(name)
        finally:
            hook.uninstall()
        factory = tfm.TestFactory(cluster)
        self.suts[key] = {"name": name, "sp": sp, "hook": hook, "mod": mod, "cluster": cluster,
                          "tcfactory": tcf.RandomLengthTestCaseFactory(factory, cluster)}
        return self.suts[key]

    @staticmethod
    def _reset_state(sut):
        """Module state of the subjects (not through the instrumented `_reset`: the tracer belongs to test threads)."""
        if hasattr(sut["mod"], "COUNTER"):
            sut["mod"].COUNTER = 0

    # -- generation -----------------------------------------------------------------------------
    def gen_case(self, rng):
        self._ncase += 1
        if self._ncase % self.slow_every[self.tier] == 0:
            self.count("kind:slow")
            return self._gen_slow(rng)
        if self._ncase % self.real_every[self.tier] == 0:
            crash = rng.random() < 1 / 6
            self.count("kind:real-crash" if crash else "kind:real")
            return {"kind": "real", "sut": "e" if crash else rng.choice(["a", "n", "b", "c", "n"]),
                    "seed": rng.randrange(1 << 30), "k": rng.randint(2, 3) if crash else rng.randint(2, 5),
                    "crash": crash, "falsify": rng.randrange(1 << 30)}
        k = rng.random()
        if k < 0.38:
            self.count("kind:fix")
            return self._gen_fix(rng)
        if k < 0.68:
            self.count("kind:plumb")
            return self._gen_plumb(rng)
        if k < 0.85:
            self.count("kind:pickle")
            return self._gen_pickle(rng)
        self.count("kind:config")
        return self._gen_config(rng)

    @staticmethod
    def _gen_config(rng):
        """Distinct, non-default time settings; observers; a batch; which started children are alive."""
        max_t = rng.randint(6, 90)
        per = rng.choice([x for x in range(5, 41) if x != max_t])
        n = rng.choice([0, 1, 1, 2, 2, 3, 3, 4])
        sizes = [rng.choice([0, 1, 2, 2, 3, 4, 5, 6]) for _ in range(n)]
        stmts = [[None if rng.random() < 0.2 else f"var_{j}" for j in range(sz)] for sz in sizes]
        alive = [rng.random() < 0.6] + [rng.random() < 0.7 for _ in range(n)]
        return {"kind": "config", "maxT": max_t, "perStmt": per,
                "remoteObs": [rng.choice(OBS_POOL) for _ in range(rng.randint(0, 3))],
                "obs": [rng.choice(OBS_POOL[:3]) for _ in range(rng.choice([0, 0, 1, 2]))],
                "stmts": stmts, "alive": alive, "via": rng.choice(["multiple", "multiple", "execute"]) if n == 1
                else "multiple"}

    def _gen_slow(self, rng):
        """A batch with one sleeping test whose run time is known, under distinct time settings."""
        over = self.tier == "thorough" and rng.random() < 0.25
        fast = lambda: {"n": rng.randint(2, 6), "naps": [rng.choice([0, 0, 40])], "flag": rng.randint(0, 7),  # noqa: E731
                        "boom": rng.random() < 0.3}
        if over:      # budget = maxT; the test sleeps twice as long (+0.6 s)
            max_t, per = rng.choice([2, 3]), rng.randint(20, 40)
            slow = {"n": 3, "naps": [2 * max_t * 1000 + 600], "flag": rng.randint(0, 7), "boom": False}
            tests = [slow] + [dict(fast(), n=3) for _ in range(rng.choice([0, 2, 3]))]
        else:         # budget = min(maxT, per * n) >= 24 s; the test sleeps per + 0.6 .. per + 0.9 s
            per = rng.choice([1, 1, 2])
            max_t = rng.randint(45, 90)
            total = per * 1000 + rng.randint(600, 900)
            first = rng.choice([total, total // 2, total - 100])
            naps = [first] + ([total - first] if total > first else [])
            slow = {"n": rng.randint(24, 40), "naps": naps, "flag": rng.randint(0, 7), "boom": rng.random() < 0.4}
            tests = [slow] + [fast() for _ in range(rng.choice([0, 1, 1]))]
            rng.shuffle(tests)
        return {"kind": "slow", "maxT": max_t, "perStmt": per, "tests": tests}

    @staticmethod
    def _gen_stmts(rng, n=None):
        n = rng.randint(0, 5) if n is None else n
        names = [f"var_{i}" for i in range(n)]
        if rng.random() < 0.15 and n >= 2:      # the same variable bound twice
            names[rng.randrange(n)] = names[rng.randrange(n)]
        return [None if rng.random() < 0.25 else nm for nm in names]

    @staticmethod
    def _gen_trace(rng, names, n_pos, alias="m_"):
        """A well-formed trace (unique positions, no duplicate assertion per position)."""
        pool = list(names) + [f"{nm}.{f}" for nm in names for f in ("x", "items")] + \
               [f"{alias}.COUNTER", f"{alias}.Stack.limit", "other_0"]
        positions = rng.sample(range(max(1, n_pos + 1)), rng.randint(0, min(4, n_pos + 1)))
        out = []
        for p in positions:
            items, seen = [], set()
            for _ in range(rng.randint(0, 4)):
                kind = rng.choice(ASSERT_KINDS)
                if kind == "Exception":
                    d = {"kind": kind, "source": None, "payload": "builtins." + rng.choice(EXC_NAMES)}
                else:
                    src = rng.choice(pool) if pool else "other_0"
                    pl = {"TypeName": "builtins.generator", "IsInstance": "builtins.int",
                          "Float": rng.choice(FLOAT_PAYLOADS), "Object": rng.choice(OBJECT_PAYLOADS),
                          "CollectionLength": repr(rng.randint(0, 3))}[kind]
                    d = {"kind": kind, "source": src, "payload": pl}
                key = vcommon.jdump(d)
                if key not in seen:
                    seen.add(key)
                    items.append(d)
            out.append([p, items])
        return out

    def _gen_fix(self, rng):
        stmts = self._gen_stmts(rng)
        bound = [(i, v) for i, v in enumerate(stmts) if v is not None]
        names = sorted({v for _, v in bound})
        trace = self._gen_trace(rng, names, len(stmts))
        variant = rng.choice(["same", "same", "same", "none", "renamed", "renamed", "collide", "subset", "foreign"])
        rho = {}
        if variant == "same":
            new = [[p, v] for p, v in bound]
        elif variant == "none":
            new = None
        elif variant == "renamed":   # the remote side calls the variables r_i; its trace uses those names
            rho = {v: f"r_{i}" for i, v in enumerate(names)}
            new = [[p, rho[v]] for p, v in bound]
            for _, items in trace:
                for d in items:
                    if d["source"] in rho:
                        d["source"] = rho[d["source"]]
            for _, items in trace:      # renaming may merge assertions: keep the sets duplicate-free
                seen, keep = set(), []
                for d in items:
                    if vcommon.jdump(d) not in seen:
                        seen.add(vcommon.jdump(d))
                        keep.append(d)
                items[:] = keep
        elif variant == "collide":
            new = [[p, "r_0" if rng.random() < 0.6 else v] for p, v in bound]
        elif variant == "subset":
            new = [[p, v] for p, v in bound if rng.random() < 0.5]
        else:
            new = [[p, v] for p, v in bound] + [[len(stmts) + rng.randint(0, 2), "var_9"]]
            rng.shuffle(new)
        return {"kind": "fix", "stmts": stmts, "trace": trace, "new": new, "variant": variant, "rho": rho}

    def _gen_res(self, rng, stmts):
        names = sorted({v for v in stmts if v is not None})
        excs = [[rng.randrange(len(stmts)), rng.choice(EXC_NAMES)]] if stmts and rng.random() < 0.3 else []
        return {"timeout": False, "excs": excs, "trace": self._gen_trace(rng, names, len(stmts)),
                "vfailed": [], "verror": [], "cov": EMPTY_COV, "aux": []}

    def _gen_reply(self, rng, tests, honest_p):
        r = rng.random()
        if r < 0.22:
            return "noResults"
        if r < 0.40:
            return "recvFailed"
        rs = [self._gen_res(rng, t["stmts"]) for t in tests]
        nb = []
        for t, res in zip(tests, rs):
            bound = [[i, v] for i, v in enumerate(t["stmts"]) if v is not None]
            c = rng.random()
            if c < honest_p:
                nb.append(bound if res["trace"] else None)   # what the real child sends
            elif c < honest_p + 0.08:
                nb.append(None)
            elif c < honest_p + 0.16:
                nb.append(bound + [[len(t["stmts"]) + 1, "var_8"]])   # a position the parent does not know
            else:
                nb.append([[p, "r_0"] for p, _ in bound])
        lie = rng.random()
        if lie < 0.06:
            rs = rs[:-1] if rng.random() < 0.5 else rs + [self._gen_res(rng, tests[0]["stmts"])]
        elif lie < 0.12:
            nb = nb[:-1] if rng.random() < 0.5 else nb + [None]
        return {"results": {"rs": rs, "newB": nb}}

    def _gen_plumb(self, rng):
        n = rng.choice([0, 1, 1, 2, 2, 3, 4])
        tests = [{"stmts": self._gen_stmts(rng, rng.randint(1, 4))} for _ in range(n)]
        honest = rng.choice([1.0, 1.0, 0.7])
        batch = self._gen_reply(rng, tests, honest) if n else "noResults"
        singles = [self._gen_reply(rng, [t], honest) for t in tests] if n > 1 else []
        return {"kind": "plumb", "tests": tests, "batch": batch, "singles": singles}

    def _gen_pickle(self, rng):
        stmts = self._gen_stmts(rng, rng.randint(1, 4))
        res = self._gen_res(rng, stmts)
        gen_excs = [p for p, _ in res["excs"] if rng.random() < 0.6]
        bad = []
        for _, items in res["trace"]:
            for d in items:
                if d["kind"] == "Object" and rng.random() < 0.4:
                    d["payload"] = "<gen>"
            seen, keep = set(), []
            for d in items:
                if vcommon.jdump(d) not in seen:
                    seen.add(vcommon.jdump(d))
                    keep.append(d)
            items[:] = keep
            bad += [d for d in items if d["payload"] == "<gen>"]
        return {"kind": "pickle", "stmts": stmts, "res": res, "genExcs": gen_excs, "badAsserts": bad}

    # -- implementation adapter: cheap kinds --------------------------------------------------------
    def _impl_fix(self, case):
        from pynguin.testcase.subprocess_executor import SubprocessTestCaseExecutor as SE
        tcase = make_test_case(case["stmts"])
        old = SE._create_variable_binding(tcase)
        trace = make_trace(case["trace"])
        out = {"old": [[p, v] for p, v in old.items()]}
        if case["new"] is None:     # `if new_reference_bindings is not None` in _process_subprocess_results
            out["ok"] = canon_trace(trace)
            return out
        try:
            SE._fix_assertion_trace(trace, old, {p: v for p, v in case["new"]})
            out["ok"] = canon_trace(trace)
        except KeyError:
            out["err"] = "KeyError"
        return out

    def _impl_pickle(self, case):
        from pynguin.testcase.subprocess_executor import SubprocessTestCaseExecutor as SE
        import logging
        r = make_result(case["res"], gen_excs=case["genExcs"])
        logging.disable(logging.CRITICAL)
        try:
            SE._fix_result_for_pickle(r)
            nb = SE._create_new_reference_bindings(r, {0: "b"})
        finally:
            logging.disable(logging.NOTSET)
        return {"res": canon_result(r), "newB": nb is not None}

    def _impl_plumb(self, case):
        import logging
        from pynguin.testcase.subprocess_executor import SubprocessTestCaseExecutor as SE
        from pynguin.utils import randomness
        self.config.configuration.module_name = "c31_plumb"
        tcs = [make_test_case(t["stmts"]) for t in case["tests"]]
        ids = {id(t): i for i, t in enumerate(tcs)}
        sp = self.plumb_sp
        script = {tuple(range(len(tcs))): case["batch"]}
        for i, rep in enumerate(case["singles"]):
            script.setdefault((i,), rep)
        launched = []

        class Proc:
            def __init__(self, alive):
                self.exitcode = None if alive else 3

            def kill(self):
                self.exitcode = -9

            def join(self, timeout=None):
                if self.exitcode is None:
                    self.exitcode = 0

        class Conn:
            def __init__(self, reply, provider):
                self.reply, self.provider = reply, provider

            def poll(self, timeout=None):
                return self.reply != "noResults"

            def recv(self):
                if self.reply == "recvFailed":
                    raise EOFError
                rs = tuple(make_result(s) for s in self.reply["results"]["rs"])
                nb = tuple(None if b is None else {p: v for p, v in b} for b in self.reply["results"]["newB"])
                return (sp.instrumentation_tracer.tracer, self.provider, rs, nb, randomness.RNG.getstate())

            def close(self):
                pass

        def fake_setup(self_, test_cases_tuple, references_bindings):
            key = tuple(ids[id(t)] for t in test_cases_tuple)
            launched.append(key)
            reply = script[key]
            return Proc(alive=reply == "noResults"), Conn(reply, self_._module_provider)

        orig = SE._setup_subprocess_execution
        SE._setup_subprocess_execution = fake_setup
        logging.disable(logging.CRITICAL)
        try:
            ex = SE(sp, maximum_test_execution_timeout=120, test_execution_time_per_statement=60)
            try:
                results = list(ex.execute_multiple(tcs))
            except Exception as e:  # noqa: BLE001 - whatever the real code raises is its behaviour
                results, out = None, {"err": type(e).__name__}
            if results is not None:
                out = {"ok": [canon_result(r) for r in results]}
        finally:
            logging.disable(logging.NOTSET)
            SE._setup_subprocess_execution = orig
        out["launched"] = [list(k) for k in launched]
        return out

    # -- implementation adapter: configuration transport ------------------------------------------
    def _observer_classes(self):
        """Harness observers (do nothing; identified by their class name) — defined once pynguin is importable."""
        if hasattr(self, "_obs_cls"):
            return self._obs_cls
        import pynguin.assertion.assertiontraceobserver as ato
        from pynguin.testcase.execution_observers import ExecutionObserver, RemoteExecutionObserver

        class _Remote(RemoteExecutionObserver):
            def before_test_case_execution(self, test_case):
                pass

            def after_test_case_execution(self, executor, test_case, result):
                pass

        class _Plain(ExecutionObserver):
            def __init__(self, remote):
                self._remote = remote

            @property
            def remote_observer(self):
                return self._remote

            def before_remote_test_case_execution(self, test_case):
                pass

            def after_remote_test_case_execution(self, test_case, result):
                pass

        remote = {n: type(n, (_Remote,), {}) for n in OBS_POOL[:3]}
        remote["RemoteAssertionTraceObserver"] = ato.RemoteAssertionTraceObserver
        self._obs_cls = (remote, _Plain)
        return self._obs_cls

    def _config_module(self):
        name = f"c31cfg_{os.getpid()}"
        path = os.path.join(self.tmp, name + ".py")
        if not os.path.exists(path):
            with open(path, "w") as f:
                f.write("X = 1\n")
            importlib.invalidate_caches()
        return name

    def _impl_config(self, case):
        """The real parent and child code with `multiprocess` replaced by a synchronous stand-in."""
        import inspect
        import logging
        import threading
        import pynguin.testcase.execution as exm
        import pynguin.testcase.subprocess_executor as sem
        import pynguin.testcase.testcase as tcm
        from pynguin.testcase.execution_isolation import PatchRandomOnUnpickle
        from pynguin.testcase.execution_observers import RemoteExecutionObserver
        from pynguin.instrumentation.tracer import SubjectProperties
        SE, TE = sem.SubprocessTestCaseExecutor, exm.TestCaseExecutor
        remote_cls, plain_cls = self._observer_classes()
        cfg = self.config.configuration
        cfg.module_name = self._config_module()
        sp = self.plumb_sp
        tcs = [make_test_case(st) for st in case["stmts"]]
        ids = {id(t): i for i, t in enumerate(tcs)}
        launches, joins, state = [], [], {"cur": None, "parent": None}

        def attach(executor):
            for n in case["remoteObs"]:
                executor.add_remote_observer(remote_cls[n]())
            for n in case["obs"]:
                executor.add_observer(plain_cls(remote_cls[n]()))

        def canon_arg(a):
            if isinstance(a, PatchRandomOnUnpickle):
                return {"patchRandom": int(a._config is cfg)}
            if isinstance(a, SubjectProperties):
                return {"props": int(a is sp)}
            if isinstance(a, exm.ModuleProvider):
                return {"provider": int(a is state["parent"]._module_provider)}
            if isinstance(a, int) and not isinstance(a, bool):
                return {"num": a}
            if isinstance(a, Send):
                return "conn"
            if isinstance(a, tuple):
                if all(isinstance(x, RemoteExecutionObserver) for x in a):
                    return {"observers": [type(x).__name__ for x in a]}
                if all(isinstance(x, tcm.TestCase) for x in a):
                    return {"tests": [ids.get(id(x), -1) for x in a]}
                if all(isinstance(x, dict) for x in a):
                    return {"bindings": [[[k, v] for k, v in x.items()] for x in a]}
            return {"other": type(a).__name__}

        class Recv:
            def __init__(self, box):
                self.box = box

            def poll(self, timeout=None):
                launches[-1]["poll"] = timeout
                return bool(self.box)

            def recv(self):
                if not self.box:
                    raise EOFError
                return self.box.pop(0)

            def close(self):
                pass

        class Send:
            def __init__(self, box):
                self.box = box

            def send(self, obj):
                self.box.append(obj)

            def close(self):
                pass

        class Proc:
            def __init__(self, target=None, args=(), kwargs=None, daemon=None, **_):
                self.target, self.args, self.kwargs, self.exitcode = target, args, kwargs or {}, None

            def start(self):
                k = len(launches)
                rec = {"args": [canon_arg(a) for a in self.args], "poll": None, "child": None}
                launches.append(rec)
                if not (k < len(case["alive"]) and case["alive"][k]):
                    self.exitcode = 3          # died before sending anything
                    return
                state["cur"] = rec
                rec["child"] = {"raises": True}
                del joins[:]
                try:
                    self.target(*self.args, **self.kwargs)
                    self.exitcode = 0
                except BaseException:  # noqa: BLE001 - a real child would die here
                    self.exitcode = 1
                finally:
                    if "maxT" in rec["child"]:
                        rec["child"]["bounds"] = list(joins)
                    state["cur"] = None

            def join(self, timeout=None):
                pass

            def kill(self):
                self.exitcode = -9

        class FakeMp:
            Process = Proc

            @staticmethod
            def Pipe(duplex=False):  # noqa: N802, FBT002
                box = []
                return Recv(box), Send(box)

        class RecThread(threading.Thread):
            def join(self, timeout=None):
                if not getattr(self, "_c31_joined", False):
                    self._c31_joined = True
                    joins.append(timeout)
                return super().join(timeout)

        class ThreadingShim:
            Thread = RecThread

            def __getattr__(self, name):
                return getattr(threading, name)

        class RecExecutor(TE):
            """The executor the child builds: record what it was built with."""

            def __init__(self_, *a, **k):  # noqa: N805
                super().__init__(*a, **k)
                rec = state["cur"]
                if rec is not None:
                    rec["child"].pop("raises", None)
                    rec["child"].update({"maxT": self_._maximum_test_execution_timeout,
                                         "perStmt": self_._test_execution_time_per_statement,
                                         "props": int(self_._subject_properties is sp),
                                         "provider": int(self_._module_provider is state["parent"]._module_provider),
                                         "observers": []})

            def add_remote_observer(self_, o):  # noqa: N805
                super().add_remote_observer(o)
                rec = state["cur"]
                if rec is not None and "observers" in rec["child"]:
                    rec["child"]["observers"].append(type(o).__name__)

        orig_entry = SE.__dict__["_execute_test_cases_in_subprocess"]
        entry_fn = orig_entry.__func__ if isinstance(orig_entry, staticmethod) else orig_entry

        def entry(*a, **k):
            rec = state["cur"]
            try:
                b = inspect.signature(entry_fn).bind(*a, **k).arguments
                hook = b.get("_patch_random_hook")
                rec["child"]["settings"] = int(isinstance(hook, PatchRandomOnUnpickle) and hook._config is cfg)
                rec["child"]["recv"] = [b.get("maximum_test_execution_timeout"), b.get("test_execution_time_per_statement")]
                rec["child"]["recv"] = [x if isinstance(x, int) else type(x).__name__ for x in rec["child"]["recv"]]
            except TypeError:
                pass
            return entry_fn(*a, **k)

        saved = (sem.mp, sem.TestCaseExecutor, exm.threading)
        logging.disable(logging.CRITICAL)
        try:
            sem.mp, sem.TestCaseExecutor, exm.threading = FakeMp, RecExecutor, ThreadingShim()
            SE._execute_test_cases_in_subprocess = staticmethod(entry)
            parent = SE(sp, maximum_test_execution_timeout=case["maxT"],
                        test_execution_time_per_statement=case["perStmt"])
            state["parent"] = parent
            attach(parent)
            want_obs = [type(o).__name__ for o in parent._yield_remote_observers()]
            try:
                if case["via"] == "execute":
                    results = [parent.execute(tcs[0])]
                else:
                    results = list(parent.execute_multiple(tcs))
                out = {"nres": len(results)}
            except Exception as e:  # noqa: BLE001 - whatever the real code raises is its behaviour
                out = {"err": type(e).__name__}
            # the in-process executor with the same configuration: its watchdog bound per test
            del joins[:]
            local = TE(sp, parent._module_provider, case["maxT"], case["perStmt"])
            attach(local)
            for t in tcs:
                local.execute(t)
            out["local"] = list(joins)
        finally:
            sem.mp, sem.TestCaseExecutor, exm.threading = saved
            SE._execute_test_cases_in_subprocess = orig_entry
            logging.disable(logging.NOTSET)
        out["launches"] = launches
        out["wantObs"] = want_obs
        self.extra_coverage["config_children_recorded"] += sum(1 for l in launches if l["child"])
        return out

    # -- implementation adapter: slow tests in real processes -----------------------------------------
    def _slow_test(self, sut, spec):
        import libcst as cst
        import pynguin.testcase.testcase as tc
        from pynguin.utils.naming import get_module_alias
        alias = get_module_alias(sut["name"])
        tail = [f"{alias}.nap({ms}, var_0)" for ms in spec["naps"]] + ([f"{alias}.boom(var_0)"] if spec["boom"] else [])
        fill = max(0, spec["n"] - 1 - len(tail))
        srcs = [f"var_0 = {spec['flag']}"] + [f"var_{i + 1} = {i}" for i in range(fill)]
        srcs += [f"var_{len(srcs) + j} = {call}" for j, call in enumerate(tail)]
        t = tc.TestCase()
        for j, src in enumerate(srcs):
            t.add_statement(tc.Statement(node=cst.parse_module(src + "\n").body[0], bound_variable=f"var_{j}"))
        return t

    def _impl_slow(self, case):
        import logging
        import time
        import dill
        from pynguin.testcase.execution import SubprocessTestCaseExecutor
        sut = self._sut("s")
        self.config.configuration.module_name = sut["name"]
        sys.meta_path.insert(0, sut["hook"].hook)
        logging.disable(logging.CRITICAL)
        orig_setup = self._count_children(SubprocessTestCaseExecutor)
        orig_fallback = SubprocessTestCaseExecutor._fallback_on_failure
        fallbacks = []

        def counting_fallback(self_, *a, **k):
            fallbacks.append(1)
            return orig_fallback(self_, *a, **k)
        SubprocessTestCaseExecutor._fallback_on_failure = counting_fallback
        try:
            tests = [self._slow_test(sut, sp) for sp in case["tests"]]
            loc, sub = self._executors(sut, (case["maxT"], case["perStmt"]))
            t0 = time.monotonic()
            try:
                sub_out = [canon_result(r) for r in sub.execute_multiple(tests)]
            except Exception as e:  # noqa: BLE001 - whatever the real code raises is its behaviour
                sub_out = {"err": type(e).__name__}
            wall_sub = time.monotonic() - t0
            loc_res, wall_loc = [], []
            for t, sp in zip(tests, case["tests"]):
                t0 = time.monotonic()
                loc_res.append(loc.execute(t))
                el = time.monotonic() - t0
                wall_loc.append(round(el, 2))
                if loc_res[-1].timeout:   # let the abandoned thread die before the next test starts
                    time.sleep(max(0.0, sum(sp["naps"]) / 1000.0 + 0.5 - el))
            bindings = [[[p, v] for p, v in SubprocessTestCaseExecutor._create_variable_binding(t).items()]
                        for t in tests]
            trips = [trips_of(r) for r in loc_res]
            bad_excs = [bad_positions(pr) for pr in trips]
        finally:
            SubprocessTestCaseExecutor._setup_subprocess_execution = orig_setup
            SubprocessTestCaseExecutor._fallback_on_failure = orig_fallback
            logging.disable(logging.NOTSET)
            if sut["hook"].hook in sys.meta_path:
                sys.meta_path.remove(sut["hook"].hook)
        sizes = [t.size() for t in tests]
        return {"sub": sub_out, "loc": [canon_result(r) for r in loc_res], "bindings": bindings, "badExcs": bad_excs,
                "trips": trips, "reaches": [False] * len(tests), "batchCrash": False, "loop": False,
                "code": [t.to_code() for t in tests], "sizes": sizes,
                "durs": [sum(sp["naps"]) for sp in case["tests"]],
                "bounds": [min(case["maxT"], case["perStmt"] * max(n, 1)) for n in sizes],
                "wallSub": round(wall_sub, 2), "wallLoc": wall_loc, "fallbacks": len(fallbacks)}

    @staticmethod
    def _slow_status(case, io):
        """Per test of a slow case: 'ok' (comparable), 'early-timeout' (the subprocess reports a time-out although
        a child answered (no crash fallback ran) and the whole subprocess call took less than half the bound of this
        test — no legitimate time-out can be that fast), or 'inconclusive' (machine load or a child killed by the
        operating system may explain what was observed)."""
        out = []
        sub = io["sub"] if isinstance(io["sub"], list) and len(io["sub"]) == len(io["loc"]) else None
        for i, l in enumerate(io["loc"]):
            nominal_timeout = io["durs"][i] >= 1000 * io["bounds"][i]
            if l["timeout"] != nominal_timeout:
                out.append("inconclusive")
            elif sub is not None and sub[i]["timeout"] and not nominal_timeout:
                early = io["wallSub"] < io["bounds"][i] / 2 and io.get("fallbacks", 0) == 0
                out.append("early-timeout" if early else "inconclusive")
            else:
                out.append("ok")
        return out

    # -- implementation adapter: real processes ----------------------------------------------------
    def _falsify(self, tests, rng):
        """Make some of the attached assertions wrong so that the verification trace is not empty."""
        import pynguin.assertion.assertion as ass
        n = 0
        for t in tests:
            for st in t.statements():
                for i, a in enumerate(list(st.assertions)):
                    r = rng.random()
                    if r > 0.3:
                        continue
                    if isinstance(a, ass.ExceptionAssertion):
                        st.assertions[i] = ass.ExceptionAssertion(a.module, "KeyError" if a.exception_type_name != "KeyError" else "OSError")
                    elif isinstance(a, ass.ObjectAssertion) and r < 0.15:
                        st.assertions[i] = ass.ObjectAssertion(a.source, "c31-wrong")
                    elif isinstance(a, ass.FloatAssertion) and r < 0.15:
                        st.assertions[i] = ass.FloatAssertion(a.source, a.value + 5.0)
                    elif isinstance(a, ass.ReferenceAssertion) and r < 0.22:
                        a.source = "c31_undefined"        # evaluating it raises NameError
                    else:
                        continue
                    n += 1
        return n

    def _executors(self, sut, budgets):
        import pynguin.assertion.assertiontraceobserver as ato
        from pynguin.testcase.execution import SubprocessTestCaseExecutor, TestCaseExecutor
        kw = {"maximum_test_execution_timeout": budgets[0], "test_execution_time_per_statement": budgets[1]}
        loc = TestCaseExecutor(sut["sp"], **kw)
        sub = SubprocessTestCaseExecutor(sut["sp"], **kw)
        for e in (loc, sub):
            e.add_remote_observer(ato.RemoteAssertionTraceObserver())
            e.add_remote_observer(ato.RemoteAssertionVerificationObserver())
        return loc, sub

    def _count_children(self, sub_cls):
        orig = sub_cls._setup_subprocess_execution
        chk = self

        def counting(self_, *a, **k):
            chk.extra_coverage["child_processes"] += 1
            return orig(self_, *a, **k)
        sub_cls._setup_subprocess_execution = counting
        return orig

    def _impl_real(self, case):
        import logging
        import random as pyrandom
        import dill
        import pynguin.assertion.assertiongenerator as ag
        import pynguin.assertion.assertiontraceobserver as ato
        from pynguin.testcase.execution import SubprocessTestCaseExecutor, TestCaseExecutor
        from pynguin.utils import randomness
        sut = self._sut(case["sut"])
        cfg = self.config.configuration
        cfg.module_name = sut["name"]
        loop = case.get("loop", False)
        sys.meta_path.insert(0, sut["hook"].hook)
        logging.disable(logging.CRITICAL)
        orig_setup = self._count_children(SubprocessTestCaseExecutor)
        try:
            if loop:
                import libcst as cst
                import pynguin.testcase.testcase as tc
                from pynguin.utils.naming import get_module_alias
                t = tc.TestCase()
                node = cst.parse_module(f"var_0 = {get_module_alias(sut['name'])}.spin()\n").body[0]
                t.add_statement(tc.Statement(node=node, bound_variable="var_0"))
                tests = [t]
                loc, sub = self._executors(sut, (1, 1))
            else:
                randomness.RNG.seed(case["seed"])
                tests = []
                if case.get("stmts"):     # corpus: the batch is written out (`{m}` = alias of the subject module)
                    import libcst as cst
                    import pynguin.testcase.testcase as tc
                    from pynguin.utils.naming import get_module_alias
                    alias = get_module_alias(sut["name"])
                    for lines in case["stmts"]:
                        t = tc.TestCase()
                        for src in lines:
                            src = src.replace("{m}", alias)
                            head = src.split(" = ", 1)[0] if " = " in src else None
                            bound = head if head is not None and head.isidentifier() else None
                            t.add_statement(tc.Statement(node=cst.parse_module(src + "\n").body[0],
                                                         bound_variable=bound))
                        tests.append(t)
                for _ in range(0 if case.get("stmts") else case["k"] * 6):
                    t = sut["tcfactory"].get_test_case()
                    if t.size() > 0:
                        tests.append(t)
                    if len(tests) == case["k"]:
                        break
                # regression assertions, as AssertionGenerator._add_assertions does (in-process run)
                plain = TestCaseExecutor(sut["sp"], maximum_test_execution_timeout=120,
                                         test_execution_time_per_statement=60)
                plain.add_remote_observer(ato.RemoteAssertionTraceObserver())
                gen = ag.AssertionGenerator(plain)
                self._reset_state(sut)
                for t in tests:
                    gen._add_assertions_for(t, plain.execute(t))
                frng = pyrandom.Random(case["falsify"])
                self._falsify(tests, frng)
                if case["crash"] and not any("crash_in_child(" in t.to_code() for t in tests):
                    import libcst as cst
                    import pynguin.testcase.testcase as tc
                    from pynguin.utils.naming import get_module_alias
                    node = cst.parse_module(f"var_99 = {get_module_alias(sut['name'])}.crash_in_child()\n").body[0]
                    frng.choice(tests).insert_statement(0, tc.Statement(node=node, bound_variable="var_99"))
                loc, sub = self._executors(sut, (120, 60))
            crash_text = "crash_in_child("
            has_crash = [crash_text in t.to_code() for t in tests]
            # subprocess first (it cannot change the state of this process), then in-process
            self._reset_state(sut)
            try:
                sub_res = list(sub.execute_multiple(tests))
            except Exception as e:  # noqa: BLE001 - whatever the real code raises is its behaviour
                sub_res, sub_out = None, {"err": type(e).__name__}
            if sub_res is not None:
                sub_out = [canon_result(r) for r in sub_res]

            def run_local(per_test_reset):
                self._reset_state(sut)
                res = []
                for t in tests:
                    if per_test_reset:
                        self._reset_state(sut)
                    res.append(loc.execute(t))
                self._reset_state(sut)
                return res

            def reach(results):
                """Does the test reach its crash call?  (an earlier exception stops the test before it)"""
                out = []
                for t, r, hc in zip(tests, results, has_crash):
                    first = min((i for i, st in enumerate(t.statements()) if crash_text in cst_code(st)),
                                default=None) if hc else None
                    exc = r.get_first_position_of_thrown_exception()
                    out.append(first is not None and (exc is None or first < exc))
                return out

            # The batch child runs the tests one after the other in ONE process (module state carries over),
            # so it dies iff under that regime some test reaches the crash call; after that every test is
            # re-executed alone, each in a fresh copy of THIS process (module state as reset).
            loc_res = run_local(per_test_reset=False)
            batch_crash = any(reach(loc_res))
            if batch_crash:
                loc_res = run_local(per_test_reset=True)
                reaches = reach(loc_res)
            else:
                reaches = [False] * len(tests)
            loc_out = [canon_result(r) for r in loc_res]
            bindings = [[[p, v] for p, v in SubprocessTestCaseExecutor._create_variable_binding(t).items()]
                        for t in tests]
            # what `dill.copy` does to every in-process exception / assertion (input of the model, which then
            # computes what `dill.detect.baditems` answers the way the code calls it)
            trips = [trips_of(r) for r in loc_res]
            bad_excs = [bad_positions(pr) for pr in trips]
        finally:
            SubprocessTestCaseExecutor._setup_subprocess_execution = orig_setup
            logging.disable(logging.NOTSET)
            if sut["hook"].hook in sys.meta_path:
                sys.meta_path.remove(sut["hook"].hook)
        self.extra_coverage["real_batches"] += 1
        self.extra_coverage["real_tests_compared"] += len(tests)
        return {"sub": sub_out, "loc": loc_out, "bindings": bindings, "badExcs": bad_excs,
                "trips": trips, "reaches": reaches, "batchCrash": batch_crash, "loop": loop,
                "code": [t.to_code() for t in tests],
                "nassert": sum(len(st.assertions) for t in tests for st in t.statements())}

    def impl(self, case):
        self._setup()
        kind = case["kind"]
        out = {"fix": self._impl_fix, "pickle": self._impl_pickle, "plumb": self._impl_plumb,
               "real": self._impl_real, "config": self._impl_config, "slow": self._impl_slow}[kind](case)
        if kind in ("real", "slow"):
            self._stash[vcommon.jdump(case)] = out
        return out

    # -- model side ----------------------------------------------------------------------------
    def model_line(self, case):
        kind = case["kind"]
        if kind == "fix":
            return vcommon.jdump({"fix": {"stmts": case["stmts"], "trace": case["trace"], "new": case["new"]}})
        if kind == "pickle":
            # what `dill.copy` does to every item of the very result `_impl_pickle` builds, measured item by item
            probes = trips_of(make_result(case["res"], gen_excs=case["genExcs"]))
            return vcommon.jdump({"pickle": {"res": case["res"], "probes": probes}})
        if kind == "plumb":
            tests = [{"bound": [[i, v] for i, v in enumerate(t["stmts"]) if v is not None],
                      "run": {"timeout": True, "excs": [], "trace": [], "vfailed": [], "verror": [],
                              "cov": EMPTY_COV, "aux": []}, "probes": CLEAN} for t in case["tests"]]
            return vcommon.jdump({"exec": {"c": {"tests": tests, "batch": case["batch"], "singles": case["singles"]}}})
        if kind == "config":
            bound = [[[i, v] for i, v in enumerate(st) if v is not None] for st in case["stmts"]]
            cfg = {"maxTimeout": case["maxT"], "perStatement": case["perStmt"], "props": 1, "provider": 1,
                   "remoteObs": case["remoteObs"], "obs": case["obs"]}
            return vcommon.jdump({"config": {"c": {"settings": 1, "cfg": cfg, "sizes": [len(st) for st in case["stmts"]],
                                                   "bound": bound, "alive": case["alive"]}}})
        io = self._stash.pop(vcommon.jdump(case), None)
        if io is None:
            io = self.impl(case)
            self._stash.pop(vcommon.jdump(case), None)
        if kind == "slow":
            cfg = {"maxTimeout": case["maxT"], "perStatement": case["perStmt"], "props": 1, "provider": 1,
                   "remoteObs": ["RemoteAssertionTraceObserver", "RemoteAssertionVerificationObserver"], "obs": []}
            tests = [{"bound": b, "run": loc, "size": n, "dur": d, "probes": pr}
                     for b, loc, n, d, pr in zip(io["bindings"], io["loc"], io["sizes"], io["durs"], io["trips"])]
            return vcommon.jdump({"timed": {"c": {"cfg": cfg, "tests": tests}}})
        if io["loop"]:   # the only test never answers: the child is killed after the time-out
            crash_batch, crash_single = "noResults", ["noResults"]
        else:
            crash_batch = "recvFailed" if io["batchCrash"] else "child"
            crash_single = ["recvFailed" if r else "child" for r in io["reaches"]]
        tests = [{"bound": b, "run": loc, "probes": pr}
                 for b, loc, pr in zip(io["bindings"], io["loc"], io["trips"])]
        return vcommon.jdump({"exec": {"c": {"tests": tests, "batch": crash_batch,
                                              "singles": crash_single if len(tests) > 1 else []}}})

    def compare(self, case, io, mo):
        kind = case["kind"]
        if not isinstance(mo, dict) or "bad-op" in mo:
            return False
        if kind == "fix":
            return mo.get("old") == io["old"] and mo.get("ok") == io.get("ok") and mo.get("err") == io.get("err")
        if kind == "pickle":
            return mo.get("res") == io["res"] and mo.get("newB") == io["newB"]
        if kind == "plumb":
            return mo.get("ok") == io.get("ok") and mo.get("err") == io.get("err")
        if kind == "config":
            if "err" in io or mo.get("local") != io["local"] or len(mo.get("launches", [])) != len(io["launches"]):
                return False
            for ml, il in zip(mo["launches"], io["launches"]):
                ic = None if il["child"] is None else {k: v for k, v in il["child"].items() if k != "recv"}
                if ml["args"] != il["args"] or ml["poll"] != il["poll"] or ml["child"] != ic:
                    return False
                if il["child"] is not None and il["child"].get("recv") != [ml["child"].get("maxT"), ml["child"].get("perStmt")]:
                    return False
            return True
        if kind == "slow":
            if "inconclusive" in self._slow_status(case, io):
                return True      # load may explain the observation: nothing to hold against the model
            if isinstance(io["sub"], dict):
                return mo.get("err") == io["sub"]["err"]
            return mo.get("ok") == io["sub"] and mo.get("local") == io["loc"]
        if isinstance(io["sub"], dict):
            return mo.get("err") == io["sub"]["err"]
        if io["loop"]:  # an in-process time-out keeps no trace; the model's `run` is not consulted for a lost test
            return mo.get("ok") == io["sub"]
        return mo.get("ok") == io["sub"]

    # -- the property itself ------------------------------------------------------------------------
    def oracle(self, case, io):
        kind = case["kind"]
        fs = []
        if kind == "fix":
            if "ok" not in io:
                return fs
            got = sorted([e for e in io["ok"] if e[1]], key=lambda e: e[0])
            if case["variant"] in ("same", "none"):
                want = sorted([e for e in case["trace"] if e[1]], key=lambda e: e[0])
                if got != want:
                    fs.append(Failure({"class": "rebinding-changes-trace", "variant": "same-bindings"},
                                      f"_fix_assertion_trace with the child's own bindings changed the assertion "
                                      f"trace: {vcommon.jdump(case['trace'])} -> {vcommon.jdump(io['ok'])}"))
            elif case["variant"] == "renamed":
                inv = {v: k for k, v in case["rho"].items()}
                want = sorted([[p, [dict(d, source=inv.get(d["source"], d["source"])) for d in items]]
                               for p, items in case["trace"] if items], key=lambda e: e[0])
                if got != want:
                    fs.append(Failure({"class": "rebinding-changes-trace", "variant": "renamed"},
                                      f"remote names {case['rho']} are not mapped back: got {vcommon.jdump(io['ok'])}"))
            return fs
        if kind == "pickle":
            if not case["genExcs"] and not case["badAsserts"]:
                if proj(io["res"]) != proj(case["res"]):
                    fs.append(Failure({"class": "pickle-fix-changes-picklable-result"},
                                      f"_fix_result_for_pickle changed a result without unpicklable items: "
                                      f"{vcommon.jdump(case['res'])} -> {vcommon.jdump(io['res'])}"))
            # picklable exceptions / assertions survive, at their positions
            kept_excs = [e for e in case["res"]["excs"] if e[0] not in case["genExcs"]]
            kept_tr = {p: [d for d in items if d not in case["badAsserts"]] for p, items in case["res"]["trace"]}
            got_tr = {p: items for p, items in io["res"]["trace"]}
            if any(e not in io["res"]["excs"] for e in kept_excs) or \
                    any(d not in got_tr.get(p, []) for p, items in kept_tr.items() for d in items):
                fs.append(Failure({"class": "pickle-fix-drops-picklable-item"},
                                  f"_fix_result_for_pickle dropped a picklable exception/assertion: "
                                  f"{vcommon.jdump(case['res'])} (unpicklable: exceptions at {case['genExcs']}, "
                                  f"assertions {vcommon.jdump(case['badAsserts'])}) -> {vcommon.jdump(io['res'])}"))
            return fs
        if kind == "plumb":
            return self._oracle_plumb(case, io)
        if kind == "config":
            return self._oracle_config(case, io)
        return self._oracle_real(case, io)

    def _oracle_config(self, case, io):
        """The child executor must treat every test of the batch like the in-process executor with the same
        configuration: same watchdog bound for the test (else a deterministic test of that size that runs for a
        time between the two bounds is a time-out in one mode only), same observers (else the facets these
        observers fill differ).  Both sides are measured on the real code, not recomputed here."""
        fs = []
        sizes = [len(st) for st in case["stmts"]]
        for k, l in enumerate(io.get("launches", [])):
            ch = l["child"]
            if not ch or "bounds" not in ch:
                continue
            tests = next((a["tests"] for a in l["args"] if isinstance(a, dict) and "tests" in a), None)
            if tests is not None and len(tests) == len(ch["bounds"]) and all(0 <= i < len(sizes) for i in tests):
                for i, b in zip(tests, ch["bounds"]):
                    lb = io["local"][i]
                    if b != lb:
                        lo, hi = sorted([b, lb])
                        fs.append(Failure(
                            {"class": "timeout-flag-differs", "cause": "child-time-bound-differs"},
                            f"executor settings maximum_test_execution_timeout={case['maxT']}, "
                            f"test_execution_time_per_statement={case['perStmt']}: for test #{i} ({sizes[i]} statements) "
                            f"the in-process executor waits {lb} s, the executor built in child #{k} "
                            f"(maximum={ch.get('maxT')}, per statement={ch.get('perStmt')}; received "
                            f"{ch.get('recv')}) waits {b} s: a deterministic test case of {sizes[i]} statements that "
                            f"runs for more than {lo} s and less than {hi} s has timeout={lb < b} in-process and "
                            f"timeout={b < lb} in the subprocess",
                            detail={"launch": l}))
                        break
            if set(ch.get("observers", [])) != set(io["wantObs"]):   # a kind of observer missing / extra
                fs.append(Failure({"class": "child-observers-differ"},
                                  f"the in-process executor runs with remote observers {io['wantObs']}, the executor "
                                  f"built in child #{k} with {ch.get('observers')}: the result facets these "
                                  f"observers fill (assertion / verification trace) differ",
                                  detail={"launch": l}))
        return fs[:2]

    def _oracle_plumb(self, case, io):
        """Alignment, on honest answers: one result per test; each is its test's answer or a time-out."""
        fs = []
        n = len(case["tests"])

        def honest(rep, k):
            if isinstance(rep, str):
                return True
            rs, nb = rep["results"]["rs"], rep["results"]["newB"]
            return len(rs) == k and len(nb) == k

        def honest_nb(rep, tests):
            if isinstance(rep, str):
                return True
            for t, res, b in zip(tests, rep["results"]["rs"], rep["results"]["newB"]):
                bound = [[i, v] for i, v in enumerate(t["stmts"]) if v is not None]
                if b is not None and b != bound:
                    return False
            return True
        if not (honest(case["batch"], n) and honest_nb(case["batch"], case["tests"])
                and all(honest(s, 1) and honest_nb(s, [t]) for s, t in zip(case["singles"], case["tests"]))):
            return fs
        if "ok" not in io:
            fs.append(Failure({"class": "execute-multiple-raises", "err": io.get("err")},
                              f"execute_multiple raised {io.get('err')} although every child answered consistently"))
            return fs
        if len(io["ok"]) != n:
            fs.append(Failure({"class": "results-not-aligned", "what": "length"},
                              f"{n} test cases, {len(io['ok'])} results"))
            return fs
        for i, got in enumerate(io["ok"]):
            if isinstance(case["batch"], dict):
                want = case["batch"]["results"]["rs"][i]
            elif n == 1 or isinstance(case["singles"][i], str):
                want = None
            else:
                want = case["singles"][i]["results"]["rs"][0]
            if want is None:
                ok = got["timeout"] and not got["excs"] and not got["trace"]
            else:
                ok = proj(got) == proj(want)
            if not ok:
                fs.append(Failure({"class": "results-not-aligned", "what": "content"},
                                  f"result #{i} is neither the answer for test #{i} nor a time-out: "
                                  f"{vcommon.jdump(got)[:300]}"))
                break
        return fs

    def _oracle_real(self, case, io):
        fs = []
        sub, loc = io["sub"], io["loc"]
        if isinstance(sub, dict):
            return [Failure({"class": "execute-multiple-raises", "err": sub["err"]},
                            f"SubprocessTestCaseExecutor.execute_multiple raised {sub['err']} on {io['code']}")]
        if len(sub) != len(loc):
            return [Failure({"class": "results-not-aligned", "what": "length"},
                            f"{len(loc)} test cases, {len(sub)} subprocess results")]
        any_crash = io.get("batchCrash", False)
        status = self._slow_status(case, io) if case.get("kind") == "slow" else None
        for i, (s, l) in enumerate(zip(sub, loc)):
            code = io["code"][i]
            if status is not None:
                if status[i] == "inconclusive":
                    self.extra_coverage["slow_inconclusive"] += 1
                    continue
                self.extra_coverage["slow_tests_compared"] += 1
                if status[i] == "early-timeout":
                    fs.append(Failure(
                        {"class": "timeout-flag-differs", "cause": "subprocess-timeout-before-configured-bound"},
                        f"test #{i} of the batch ({io['sizes'][i]} statements, sleeps {io['durs'][i]} ms; executor "
                        f"settings maximum={case['maxT']} s, per statement={case['perStmt']} s, so its budget is "
                        f"{io['bounds'][i]} s) finishes in-process (timeout=False, {io['wallLoc'][i]} s) but the "
                        f"subprocess executor reports timeout=True although the whole subprocess call returned after "
                        f"{io['wallSub']} s, less than half that budget; test case: {code}",
                        detail={"batch": io["code"]}))
                    continue
            if io["reaches"][i]:      # this test kills its child: not comparable, must be reported as time-out
                if not s["timeout"]:
                    fs.append(Failure({"class": "crashed-child-not-reported-as-timeout"},
                                      f"test #{i} kills its child process but the result has timeout=False: {code}"))
                continue
            ps, pl = proj(s), proj(l)
            if ps == pl:
                continue
            for field in ("timeout", "excs", "cov", "trace", "vfailed", "verror"):
                if ps[field] == pl[field]:
                    continue
                sig = {"class": {"timeout": "timeout-flag-differs", "excs": "exceptions-differ",
                                 "cov": "coverage-differs", "trace": "assertion-trace-differs",
                                 "vfailed": "verification-trace-differs",
                                 "verror": "verification-trace-differs"}[field]}
                if field == "excs":
                    dropped = [e for e in pl["excs"] if e not in ps["excs"]]
                    extra = [e for e in ps["excs"] if e not in pl["excs"]]
                    if dropped and not extra and all(p in io["badExcs"][i] for p, _ in dropped):
                        sig = {"class": "exception-dropped", "cause": "unpicklable-exception"}
                if field == "cov":
                    sig["part"] = next(k for k in ("lines", "preds", "tdist", "fdist", "cos")
                                       if ps["cov"][k] != pl["cov"][k])
                if any_crash and sig["class"] != "exception-dropped":
                    sig["after"] = "child-crash-fallback"
                fs.append(Failure(sig, f"test #{i} of the batch: {field} in-process {vcommon.jdump(pl[field])[:400]} "
                                       f"vs subprocess {vcommon.jdump(ps[field])[:400]}; test case: {code}",
                                  detail={"batch": io["code"]}))
        return fs

    def classify(self, case, io):
        kind = case["kind"]
        if kind == "fix":
            return vcommon.jdump(case) if case["variant"] not in ("same", "none") and case["trace"] else None
        if kind == "pickle":
            nonrefl = sum(1 for _, items in case["res"]["trace"] for d in items if "nan" in d["payload"])
            self.count("pickle:assertions-on-values-not-equal-to-their-copy", nonrefl)
            return vcommon.jdump(case) if case["genExcs"] or case["badAsserts"] or nonrefl else None
        if kind == "plumb":
            reps = [case["batch"], *case["singles"]]
            return vcommon.jdump(case) if case["tests"] and (isinstance(case["batch"], str) or "err" in io) else None
        if kind == "config":
            ok = any(l["child"] for l in io.get("launches", [])) and any(len(st) >= 2 for st in case["stmts"])
            self.count("config:children", len(io.get("launches", [])))
            return vcommon.jdump(case) if ok else None
        if kind == "slow":
            return vcommon.jdump(case)
        if isinstance(io["sub"], dict):
            return vcommon.jdump(case)
        n_tr = sum(len(e[1]) for r in io["loc"] for e in r["trace"])
        n_pred = sum(len(r["cov"]["preds"]) for r in io["loc"])
        self.count("real:assertions-in-traces", n_tr)
        self.count("real:assertions-on-values-not-equal-to-their-copy",
                   sum(1 for pr in io.get("trips", []) if isinstance(pr["asserts"], dict)
                       for _, rt in pr["asserts"]["trips"]["items"] if rt == "sameType"))
        self.count("real:exceptions", sum(len(r["excs"]) for r in io["loc"]))
        self.count("real:verification-entries", sum(len(e[1]) for r in io["loc"] for e in r["vfailed"] + r["verror"]))
        self.count("real:lost-to-crash", sum(io["reaches"]))
        return vcommon.jdump(case) if (n_tr and n_pred) or any(io["reaches"]) or io["loop"] else None

    # -- known-finding witness ------------------------------------------------------------------------
    def witnesses(self):
        """`checked(2)` raises an exception whose constructor takes two arguments: dill cannot round-trip it."""
        import logging
        import libcst as cst
        import pynguin.testcase.testcase as tc
        from pynguin.testcase.execution import SubprocessTestCaseExecutor
        from pynguin.utils.naming import get_module_alias
        self._setup()
        sut = self._sut("a")
        self.config.configuration.module_name = sut["name"]
        alias = get_module_alias(sut["name"])
        t = tc.TestCase()
        for j, src in enumerate([f"var_0 = {alias}.checked(3)", f"var_1 = {alias}.checked(2)"]):
            t.add_statement(tc.Statement(node=cst.parse_module(src + "\n").body[0], bound_variable=f"var_{j}"))
        sys.meta_path.insert(0, sut["hook"].hook)
        logging.disable(logging.CRITICAL)
        try:
            loc, sub = self._executors(sut, (120, 60))
            self._reset_state(sut)
            try:
                sres = sub.execute(t)
            except Exception as e:  # noqa: BLE001
                sres = None
                serr = type(e).__name__
            s = canon_result(sres) if sres is not None else {"err": serr}
            l = canon_result(loc.execute(t))
        finally:
            logging.disable(logging.NOTSET)
            sys.meta_path.remove(sut["hook"].hook)
        io = {"sub": [s] if "err" not in s else s, "loc": [l], "badExcs": [[1]], "reaches": [False],
              "code": [t.to_code()], "loop": False}
        got = self._oracle_real({"kind": "real"}, io)
        for f in got:
            f.case = {"witness": "two-argument exception", "code": t.to_code()}
            f.what = "witness of C31_full_cex: " + f.what
        self.extra_coverage["witness_unpicklable_exception_reproduces"] = bool(got)
        return got


def cst_code(statement) -> str:
    import libcst as cst
    return cst.Module(body=[statement.node]).code


if __name__ == "__main__":
    run_main(C31)
