"""C09 — Dynamic slices are sound and checked lines were executed.

Three parties per generated case:

* the REAL pynguin code: the module is imported through pynguin's import hook with the CHECKED (+LINE)
  instrumentation, a real libcst-backed `TestCase` is run by a real `TestCaseExecutor` with
  `RemoteStatementSlicingObserver` and `RemoteAssertionExecutionObserver`; `DynamicSlicer.slice`,
  `compute_statement_checked_lines`, `AssertionSlicer` / `compute_assertion_checked_coverage`,
  `ExecutionFlowBuilder` and `CheckedCoverageInstrumentation` are all on the path;
* the Lean model (`Model/PyMini.lean` interpreter + `Model/Slice.lean` backward slicer) through
  `Driver/C09.lean`;
* an independent oracle in this file: CPython itself under `sys.monitoring` (lines and opcodes that
  really ran, on an un-instrumented copy of the module) and a forward *provenance* interpreter for
  the PyMini fragment (every value carries the set of lines it depends on — a different algorithm
  from the backward slicer).

Property parts: (a) checked lines ⊆ executed lines, (b) slice instructions ⊆ executed instructions
and the criterion is in its slice, (c) on the fragment: lines the sliced value depends on ⊆ slice, and
⊆ the lines `compute_statement_checked_lines` reports for the test (except, per statement, the line of
its own trailing `return None`, which `_cleanse_included_implicit_return_none` drops on purpose).
"""
from __future__ import annotations

import dis
import importlib
import itertools
import os
import random
import shutil
import sys
import tempfile

sys.path.insert(0, os.path.dirname(os.path.abspath(__file__)))
from vcommon import Failure, PropertyCheck, jdump, run_main  # noqa: E402

_counter = itertools.count()
FUEL = 6000
# progen features used for the wide (subset-checks only) programs.  "comp" is left out on purpose: on
# CPython 3.12 the CHECKED instrumentation makes the interpreter crash (SIGSEGV) on an inlined
# comprehension whose variable is otherwise unbound (`InstrumentationFastLoad` of a NULL local around
# LOAD_FAST_AND_CLEAR / the restoring STORE_FAST) — a defect outside C09's statement (see design note).
WIDE_FEATURES = {"boolop", "chain", "none", "in", "while", "for", "try", "with", "match", "closure"}
FRAGMENT_KINDS = ("mini", "obj", "rec")
LOOP_SIG = {"part": "c-dependence-complete", "class": "loop-carried-control-dependence"}
REC_SIG = {"part": "c-dependence-complete", "class": "recursive-call-local-variable"}

# ---------------------------------------------------------------------------------------------
# PyMini programs: generator (emits the JSON shape `deriving FromJson` expects) and renderer
# ---------------------------------------------------------------------------------------------
BIN = {"add": "+", "sub": "-", "mul": "*", "mod": "%"}
CMP = {"lt": "<", "le": "<=", "eq": "==", "ne": "!=", "gt": ">", "ge": ">="}


def K(n):
    return {"k": {"n": n}}


def L(i):
    return {"l": {"i": i}}


def G(i):
    return {"g": {"i": i}}


def A(i, r="self"):
    """`<r>.a<i>` — r = "self" or a local (`L(i)`) holding an object."""
    return {"at": {"r": r, "i": i}}


def B(op, a, b):
    return {"bin": {"op": op, "a": a, "b": b}}


def norm_prog(prog):
    """Fill in the fields older (corpus / witness) programs do not carry."""
    out = dict(prog)
    out.setdefault("classes", [])
    out["funs"] = [dict({"void": False, "cls": 0}, **f) for f in prog["funs"]]
    return out


# Identifier shapes for attribute / method names ({} = the index).  Names that start with two underscores
# and do not end with two are name-mangled by the compiler inside the class body (`self.__a1` is the
# attribute `_C0__a1`): the renderer writes the short form inside the class, the test case (outside) the
# mangled one.  `_` alone is a legal attribute name.
ATTR_SHAPES = ["a{}", "_a{}", "_a{}", "__a{}", "a{}_", "_a{}_", "a_{}", "__a{}__", "_{}", "___a{}__", "_a_{}"]
METH_SHAPES = ["m{}", "_m{}", "_m{}", "__m{}", "m{}_", "_m{}_", "m_{}", "__m{}__", "_m_{}"]


def pick_names(rng: random.Random, nattr: int, nfun: int):
    """`names` entry of a program: attribute names by index, method names by function index."""
    plain = rng.random() < 0.15
    attr = ["a%d" % i if plain or rng.random() < 0.2 else rng.choice(ATTR_SHAPES).format(i) for i in range(nattr)]
    if nattr and rng.random() < 0.15:
        attr[rng.randrange(nattr)] = "_"
    meth = ["m%d" % i if plain or rng.random() < 0.3 else rng.choice(METH_SHAPES).format(i) for i in range(nfun)]
    return {"attr": attr, "meth": meth}


def mangled(name: str, cls: int) -> str:
    """The name the compiler stores for identifier `name` inside `class C<cls>`."""
    if name.startswith("__") and not name.endswith("__"):
        return f"_C{cls}{name}"
    return name


def attr_name(prog, i, cls=None) -> str:
    """Name of attribute i as written inside its class (cls None) or as seen from outside class cls."""
    names = (prog.get("names") or {}).get("attr") or []
    name = names[i] if i < len(names) else f"a{i}"
    return name if cls is None else mangled(name, cls)


def fun_name(prog, fi, outside=False) -> str:
    f = prog["funs"][fi]
    cls = f.get("cls", 0)
    if cls == 0:
        return f"f{fi}"
    if prog.get("classes", [])[cls - 1]["init"] == fi:
        return "__init__"
    names = (prog.get("names") or {}).get("meth") or []
    name = names[fi] if fi < len(names) else f"m{fi}"
    return mangled(name, cls - 1) if outside else name


class MiniGen:
    """Random terminating PyMini module + pynguin-shaped test."""

    def __init__(self, rng: random.Random):
        self.r = rng
        self.line = 0
        self.nattr = 0        # > 0 while a method body is generated: attributes self.a0 … self.a<nattr-1>
        self.callable = []    # module functions SUT code may call (they return a value)
        self.smeths = []      # methods of the class being generated, callable through self: (index, np, void)
        self.nps = []
        self.branch_first = False

    def nl(self) -> int:
        self.line += 1
        return self.line

    def atom(self, locs, ng):
        r = self.r
        k = r.random()
        if self.nattr and k < 0.3:
            return A(r.randrange(self.nattr))
        if k < 0.6 and locs:
            return L(r.choice(locs))
        if k < 0.72 and ng:
            return G(r.randrange(ng))
        return K(r.randint(-3, 7))

    def expr(self, locs, ng, depth=0):
        r = self.r
        if depth >= 2 or r.random() < 0.45:
            return self.atom(locs, ng)
        op = r.choice(["add", "add", "sub", "mul", "mod"])
        if op == "mod":
            return B("mod", self.expr(locs, ng, depth + 1), K(r.randint(2, 5)))
        if op == "mul":
            return B("mul", self.atom(locs, ng), K(r.randint(-2, 3)))
        return B(op, self.expr(locs, ng, depth + 1), self.expr(locs, ng, depth + 1))

    def cond(self, locs, ng):
        return {"op": self.r.choice(list(CMP)), "a": self.expr(locs, ng, 1), "b": self.expr(locs, ng, 1)}

    def block(self, fi, locs, targets, ng, depth, n, counters):
        out = []
        for _ in range(n):
            out += self.stmt(fi, locs, targets, ng, depth, counters)
        return out

    def stmt(self, fi, locs, targets, ng, depth, counters):
        r = self.r
        kinds = ["asg", "asg", "asg", "aug"]
        if ng:
            kinds += ["gasg"]
        if self.nattr:
            kinds += ["aasg", "aasg", "aaug"]
        if depth < 2:
            kinds += ["if", "ifelse", "ifelse", "while"]
        if self.callable:
            kinds += ["call", "call"]
        if self.smeths:
            kinds += ["scall", "scall"]
        k = r.choice(kinds)
        if self.branch_first:
            self.branch_first = False
            k = r.choice(["if", "ifelse", "ifelse"])
        if k == "asg":
            return [{"asg": {"ln": self.nl(), "tg": L(r.choice(targets)), "e": self.expr(locs, ng)}}]
        if k == "aug":
            t = r.choice(targets)
            return [{"asg": {"ln": self.nl(), "tg": L(t),
                             "e": B(r.choice(["add", "sub"]), L(t), self.expr(locs, ng, 1))}}]
        if k == "gasg":
            return [{"asg": {"ln": self.nl(), "tg": G(r.randrange(ng)), "e": self.expr(locs, ng)}}]
        if k == "aasg":
            return [{"asg": {"ln": self.nl(), "tg": A(r.randrange(self.nattr)), "e": self.expr(locs, ng)}}]
        if k == "aaug":
            t = A(r.randrange(self.nattr))
            return [{"asg": {"ln": self.nl(), "tg": t,
                             "e": B(r.choice(["add", "sub"]), t, self.expr(locs, ng, 1))}}]
        if k == "if":
            ln = self.nl()
            c = self.cond(locs, ng)
            a = self.block(fi, locs, targets, ng, depth + 1, r.randint(1, 2), counters)
            return [{"ite": {"ln": ln, "c": c, "a": a, "b": []}}]
        if k == "ifelse":
            ln = self.nl()
            c = self.cond(locs, ng)
            a = self.block(fi, locs, targets, ng, depth + 1, r.randint(1, 2), counters)
            self.nl()  # the `else:` line
            b = self.block(fi, locs, targets, ng, depth + 1, r.randint(1, 2), counters)
            return [{"ite": {"ln": ln, "c": c, "a": a, "b": b}}]
        if k == "while":
            cn = counters[0]
            counters[0] += 1
            init = {"asg": {"ln": self.nl(), "tg": L(cn), "e": K(0)}}
            ln = self.nl()
            c = {"op": "lt", "a": L(cn), "b": B("mod", self.expr(locs, ng, 1), K(r.randint(2, 4)))}
            inc = {"asg": {"ln": self.nl(), "tg": L(cn), "e": B("add", L(cn), K(1))}}
            body = [inc] + self.block(fi, locs + [cn], targets, ng, depth + 1, r.randint(1, 2), counters)
            return [init, {"wh": {"ln": ln, "c": c, "a": body}}]
        if k == "call":
            callee = r.choice(self.callable)
            np_ = self.nps[callee]
            tg = L(r.choice(targets)) if (not ng or r.random() < 0.85) else G(r.randrange(ng))
            return [{"call": {"ln": self.nl(), "tg": tg, "f": callee,
                              "args": [self.expr(locs, ng, 1) for _ in range(np_)]}}]
        if k == "scall":
            callee, np_, void = r.choice(self.smeths)
            tg = None if void else (L(r.choice(targets)) if r.random() < 0.8 else A(r.randrange(self.nattr)))
            return [{"mcall": {"ln": self.nl(), "tg": tg, "r": "self", "f": callee,
                               "args": [self.expr(locs, ng, 1) for _ in range(np_)]}}]
        raise AssertionError(k)

    def function(self, fi, ng, cls=0, nattr=0, void=False, init=False, small=False):
        """One `def`: module function (cls 0) or method of class cls-1.  A void function has no
        `return`: its last statement is a simple assignment whose line also carries the implicit
        `return None` (that is `retLn`)."""
        r = self.r
        np_ = r.randint(0, 2) if cls else r.randint(1, 3)
        self.nps.append(np_)
        def_ln = self.nl()
        if ng:
            self.nl()  # `global ...` line
        self.nattr = nattr
        locs = list(range(np_))
        body = []
        nloc = r.randint(0, 2) if small else r.randint(1, 3)
        if np_ == 0:
            nloc = max(nloc, 1)
        if init:
            nloc = 0 if np_ else 1
        for j in range(np_, np_ + nloc):
            body.append({"asg": {"ln": self.nl(), "tg": L(j), "e": self.expr(locs, ng, 1)}})
            locs.append(j)
        counters = [np_ + nloc]
        if init:
            for i in range(nattr):
                if r.random() < 0.6:
                    body.append({"asg": {"ln": self.nl(), "tg": A(i), "e": self.expr(locs, ng, 1)}})
        else:
            n = r.randint(0, 2) if small else r.randint(2, 4)
            if n and r.random() < 0.5:
                # the first statement after the locals is a branch (block 0 of every such code object ends in
                # a conditional jump, the dominated regions differ from function to function)
                self.branch_first = True
            body += self.block(fi, locs, list(locs), ng, 0, n, counters)
            self.branch_first = False
        if void:
            k = r.random()
            if nattr and k < 0.75:
                tg = A(r.randrange(nattr))
            elif ng and k < 0.75:
                tg = G(r.randrange(ng))
            else:
                tg = L(r.choice(locs))
            ret_ln = self.nl()
            body.append({"asg": {"ln": ret_ln, "tg": tg, "e": self.expr(locs, ng, 1)}})
            ret = K(0)
        else:
            ret_ln = self.nl()
            ret = self.expr(locs, ng)
            if nattr and r.random() < 0.7:     # getters: the result depends on the object's state
                ret = B(r.choice(["add", "sub"]), A(r.randrange(nattr)), ret) if r.random() < 0.5 \
                    else A(r.randrange(nattr))
        self.nattr = 0
        return {"defLn": def_ln, "np": np_, "body": body, "retLn": ret_ln, "ret": ret,
                "void": void, "cls": cls}

    def module(self):
        r = self.r
        ng = r.choice([0, 1, 2])
        ginit = []
        for i in range(ng):
            ginit.append([self.nl(), [i, r.randint(-2, 6)]])
        nf = r.choice([1, 2, 2, 3, 3, 4])
        funs = []
        for fi in range(nf):
            void = r.random() < 0.2
            # small and large functions side by side: their CFGs / CDGs differ in size (block numbering)
            funs.append(self.function(fi, ng, void=void, small=r.random() < 0.4))
            if not void:
                self.callable.append(fi)
        # test case
        test = []
        for _ in range(r.randint(1, 3)):
            test.append({"const": {"n": r.randint(-4, 9)}})
        ncalls = r.choice([1, 2, 2, 3, 3]) + (1 if len(self.callable) < nf else 0)
        for _ in range(ncalls):
            f = r.randrange(nf) if r.random() < 0.7 else nf - 1
            test.append({"call": {"f": f, "args": [self.int_stmt(test, funs) for _ in range(self.nps[f])]}})
        asserts = sorted({i for i in range(len(test)) if "call" in test[i]
                          and not funs[test[i]["call"]["f"]]["void"] and r.random() < 0.5})
        return {"ginit": ginit, "funs": funs, "classes": [], "test": test, "asserts": asserts}

    def int_stmt(self, test, funs):
        """Index of a test statement that holds an int."""
        ok = [k for k, t in enumerate(test) if "const" in t or "attr" in t
              or ("call" in t and not funs[t["call"]["f"]]["void"])
              or ("mcall" in t and not funs[t["mcall"]["f"]]["void"])]
        return self.r.choice(ok)

    # ---- modules with classes ---------------------------------------------------------------
    def module_obj(self):
        """Classes with class-level attribute defaults, optional `__init__`, value methods (`return e`
        over `self.a<i>`) and void methods (last line = attribute store + implicit `return None`),
        methods calling each other through `self`; optionally a module global and module functions.
        The test creates objects and calls methods on them, every statement bound."""
        r = self.r
        ng = r.choice([0, 0, 1])
        ginit = [[self.nl(), [i, r.randint(-2, 6)]] for i in range(ng)]
        funs, classes = [], []
        for _ in range(r.choice([0, 0, 1])):
            void = bool(ng) and r.random() < 0.5
            funs.append(self.function(len(funs), ng, void=void, small=True))
            if not void:
                self.callable.append(len(funs) - 1)
        meths = []     # per class: [(index, void)]
        for c in range(r.choice([1, 1, 2])):
            cls_ln = self.nl()
            nattr = r.randint(1, 3)
            defaults = [[self.nl(), [i, r.randint(-2, 6)]] for i in range(nattr)]
            init = None
            self.smeths = []
            if r.random() < 0.5:
                init = len(funs)
                funs.append(self.function(init, ng, cls=c + 1, nattr=nattr, void=True, init=True))
            mine = []
            nm = r.randint(2, 4)
            for j in range(nm):
                # at least one void and one value method per class
                void = (j == 0) or (j != 1 and r.random() < 0.45)
                fi = len(funs)
                funs.append(self.function(fi, ng, cls=c + 1, nattr=nattr, void=void, small=True))
                self.smeths.append((fi, self.nps[fi], void))
                mine.append((fi, void))
            self.smeths = []
            classes.append({"ln": cls_ln, "defaults": defaults, "init": init, "nattr": nattr})
            meths.append(mine)
        # ---- test case
        test = [{"const": {"n": r.randint(-4, 9)}} for _ in range(r.randint(1, 2))]
        nconst = len(test)
        objs = []      # (statement index, class)
        for c, k in enumerate(classes):
            for _ in range(r.choice([1, 1, 2])):
                np_ = self.nps[k["init"]] if k["init"] is not None else 0
                objs.append((len(test), c))
                test.append({"new": {"c": c, "args": [r.randrange(nconst) for _ in range(np_)]}})

        def margs(f):
            return [r.randrange(nconst) if r.random() < 0.6 else self.int_stmt(test, funs)
                    for _ in range(self.nps[f])]

        for _ in range(r.randint(2, 6)):
            k = r.random()
            o, c = r.choice(objs)
            if k < 0.12 and any(f["cls"] == 0 for f in funs):
                f = r.choice([i for i, fn in enumerate(funs) if fn["cls"] == 0])
                test.append({"call": {"f": f, "args": margs(f)}})
            elif k < 0.27:
                test.append({"attr": {"o": o, "i": r.randrange(classes[c]["nattr"])}})
            else:
                f, _ = r.choice(meths[c])
                test.append({"mcall": {"o": o, "f": f, "args": margs(f)}})
        if r.random() < 0.4:
            # a common shape of generated tests: set, observe, set again (all bound)
            o, c = r.choice(objs)
            setter = r.choice([f for f, v in meths[c] if v])
            getters = [f for f, v in meths[c] if not v]
            test.append({"mcall": {"o": o, "f": setter, "args": margs(setter)}})
            for _ in range(r.randint(1, 2)):
                if r.random() < 0.3:
                    test.append({"attr": {"o": o, "i": r.randrange(classes[c]["nattr"])}})
                else:
                    g = r.choice(getters)
                    test.append({"mcall": {"o": o, "f": g, "args": margs(g)}})
            test.append({"mcall": {"o": o, "f": setter, "args": margs(setter)}})
        asserts = sorted({i for i, t in enumerate(test) if r.random() < 0.4 and (
            "attr" in t or ("call" in t and not funs[t["call"]["f"]]["void"])
            or ("mcall" in t and not funs[t["mcall"]["f"]]["void"]))})
        names = pick_names(r, max(k["nattr"] for k in classes), len(funs))
        for k in classes:
            del k["nattr"]
        return {"ginit": ginit, "funs": funs, "classes": classes, "test": test, "asserts": asserts,
                "names": names}


REC_TEMPLATES = 3


def rec_module(rng: random.Random):
    """Directly recursive functions in the fragment (separate kind: known finding on locals)."""
    t = rng.randrange(REC_TEMPLATES)
    a, b = rng.randint(1, 5), rng.randint(6, 9)
    n0 = rng.randint(1, 3)
    if t == 0:
        # def f0(v0):            1
        #     if v0 > 0:         2
        #         v1 = a         3
        #         v2 = f0(v0-1)  4
        #     else:              5
        #         v1 = b         6
        #         v2 = 0         7
        #     return v1          8
        body = [{"ite": {"ln": 2, "c": {"op": "gt", "a": L(0), "b": K(0)},
                         "a": [{"asg": {"ln": 3, "tg": L(1), "e": K(a)}},
                               {"call": {"ln": 4, "tg": L(2), "f": 0, "args": [B("sub", L(0), K(1))]}}],
                         "b": [{"asg": {"ln": 6, "tg": L(1), "e": K(b)}},
                               {"asg": {"ln": 7, "tg": L(2), "e": K(0)}}]}}]
        funs = [{"defLn": 1, "np": 1, "body": body, "retLn": 8, "ret": L(1)}]
    elif t == 1:
        # v1 defined before the recursive call, the callee overwrites its own v1 on another line
        # def f0(v0):            1
        #     v1 = v0 * a        2
        #     if v0 > 0:         3
        #         v2 = f0(v0-1)  4
        #         v1 = v1 + 0    5   (keeps the dependence on line 2 alive)
        #     else:              6
        #         v1 = b         7
        #     return v1          8
        body = [{"asg": {"ln": 2, "tg": L(1), "e": B("mul", L(0), K(a))}},
                {"ite": {"ln": 3, "c": {"op": "gt", "a": L(0), "b": K(0)},
                         "a": [{"call": {"ln": 4, "tg": L(2), "f": 0, "args": [B("sub", L(0), K(1))]}},
                               {"asg": {"ln": 5, "tg": L(1), "e": B("add", L(1), K(0))}}],
                         "b": [{"asg": {"ln": 7, "tg": L(1), "e": K(b)}}]}}]
        funs = [{"defLn": 1, "np": 1, "body": body, "retLn": 8, "ret": L(1)}]
    else:
        # accumulating recursion (result really depends on every level): no dependence is lost
        # def f0(v0):            1
        #     v1 = a             2
        #     if v0 > 0:         3
        #         v1 = f0(v0-1)  4
        #         v1 = v1 + v0   5
        #     return v1          6
        body = [{"asg": {"ln": 2, "tg": L(1), "e": K(a)}},
                {"ite": {"ln": 3, "c": {"op": "gt", "a": L(0), "b": K(0)},
                         "a": [{"call": {"ln": 4, "tg": L(1), "f": 0, "args": [B("sub", L(0), K(1))]}},
                               {"asg": {"ln": 5, "tg": L(1), "e": B("add", L(1), L(0))}}],
                         "b": []}}]
        funs = [{"defLn": 1, "np": 1, "body": body, "retLn": 6, "ret": L(1)}]
    test = [{"const": {"n": n0}}, {"call": {"f": 0, "args": [0]}}]
    return {"ginit": [], "funs": funs, "test": test, "asserts": [1] if rng.random() < 0.5 else []}


AKEY_NAMES = ["_step", "step", "_double", "__init__", "__x", "_C0__x", "_", "__", "a_", "a_b", "_a_b_", "x", "a0",
              "___", "_1", "value_", "__len__", "\u00e9_t", "_\u00e9"]


def gen_akey(rng: random.Random):
    """Pending attribute uses (address, name) and the address of an object being created: the code path
    `_add_attribute_uses` -> `attr_uses` -> conversion in `check_explicit_data_dependency`."""
    base = rng.choice([0x7F3A5C000000 + 16 * rng.randrange(1 << 24), rng.randrange(1, 1 << 16),
                       rng.randrange(1, 1 << 44)])
    addrs = [base, base] + [base + 16 * rng.randint(1, 60) for _ in range(rng.randint(0, 2))]
    if rng.random() < 0.25:
        addrs.append(base * 16 + rng.randrange(16))      # hex(base) is a proper prefix of this one's hex
    if rng.random() < 0.15:
        addrs.append(base // 16)

    def name():
        if rng.random() < 0.5:
            return rng.choice(AKEY_NAMES)
        first = rng.choice("__abxyzS")
        return first + "".join(rng.choice("__ab1Z") for _ in range(rng.randint(0, 6)))

    uses = [[rng.choice(addrs), name()] for _ in range(rng.randint(1, 6))]
    created = 0 if rng.random() < 0.05 else rng.choice(addrs[:3])
    return {"kind": "akey", "addr": created, "uses": uses}


def run_akey(case):
    """The real code: `DynamicSlicer._add_attribute_uses` on real `ExecutedAttributeInstruction`s, then
    `DynamicSlicer.check_explicit_data_dependency` on the store of a freshly created object."""
    from opcode import opmap

    from pynguin.slicer.dynamicslicer import DynamicSlicer, SlicingContext
    from pynguin.slicer.executedinstruction import ExecutedAttributeInstruction, ExecutedMemoryInstruction
    from pynguin.slicer.executionflowbuilder import UniqueInstruction

    slicer = DynamicSlicer({})
    ctx = SlicingContext()
    for j, (addr, name) in enumerate(case["uses"]):
        slicer._add_attribute_uses(ctx, ExecutedAttributeInstruction(  # noqa: SLF001
            file="sut.py", code_object_id=1, node_id=0, opcode=opmap["LOAD_ATTR"], argument=name, lineno=3,
            instr_original_index=j, src_address=addr, arg_address=0x5000 + j, is_mutable_type=False,
            is_method=False))
    keys = sorted(ctx.attr_uses)
    store = ExecutedMemoryInstruction(
        file="sut.py", code_object_id=0, node_id=0, opcode=opmap["STORE_FAST"], argument="obj_0", lineno=1,
        instr_original_index=2, arg_address=case["addr"], is_mutable_type=False, object_creation=True)
    instr = UniqueInstruction(file="sut.py", name="STORE_FAST", code_object_id=0, node_id=0,
                              instr_original_index=2, is_method=False, is_jump_target=False, arg="obj_0", lineno=1)
    covered, names = slicer.check_explicit_data_dependency(ctx, store, instr)
    return {"keys": keys, "names": sorted(names), "remaining": sorted(ctx.attr_uses), "covered": bool(covered),
            "pending_addr": sorted(ctx.var_address_uses)}


def r_recv(rv) -> str:
    return "self" if rv == "self" else f"v{rv['l']['i']}"


def r_expr(e, an=None) -> str:
    if "k" in e:
        return str(e["k"]["n"]) if e["k"]["n"] >= 0 else f"({e['k']['n']})"
    if "l" in e:
        return f"v{e['l']['i']}"
    if "g" in e:
        return f"G{e['g']['i']}"
    if "at" in e:
        return f"{r_recv(e['at']['r'])}.{an(e['at']['i']) if an else 'a%d' % e['at']['i']}"
    b = e["bin"]
    return f"({r_expr(b['a'], an)} {BIN[b['op']]} {r_expr(b['b'], an)})"


def r_cond(c, an=None) -> str:
    return f"{r_expr(c['a'], an)} {CMP[c['op']]} {r_expr(c['b'], an)}"


def r_tgt(t, an=None) -> str:
    if "at" in t:
        return f"{r_recv(t['at']['r'])}.{an(t['at']['i']) if an else 'a%d' % t['at']['i']}"
    return f"v{t['l']['i']}" if "l" in t else f"G{t['g']['i']}"


def render(prog) -> str:
    """Python source of a PyMini module; every statement lands on the line its `ln` says."""
    prog = norm_prog(prog)
    lines: dict[int, str] = {}
    ng = len(prog["ginit"])

    def an(i):
        return attr_name(prog, i)

    def R_expr(e):
        return r_expr(e, an)

    def R_tgt(t):
        return r_tgt(t, an)

    def R_cond(c):
        return r_cond(c, an)

    def put(ln, text):
        assert ln not in lines, (ln, text, lines[ln])
        lines[ln] = text

    def block(stmts, ind):
        pad = "    " * ind
        for s in stmts:
            if "asg" in s:
                a = s["asg"]
                e = a["e"]
                tg = R_tgt(a["tg"])
                if ("bin" in e and e["bin"]["op"] in ("add", "sub") and e["bin"]["a"] == a["tg"]
                        and a["ln"] % 2 == 0):
                    put(a["ln"], f"{pad}{tg} {BIN[e['bin']['op']]}= {R_expr(e['bin']['b'])}")
                else:
                    put(a["ln"], f"{pad}{tg} = {R_expr(e)}")
            elif "ite" in s:
                i = s["ite"]
                put(i["ln"], f"{pad}if {R_cond(i['c'])}:")
                block(i["a"], ind + 1)
                if i["b"]:
                    first_b = min(stmt_lines(i["b"]))
                    put(first_b - 1, f"{pad}else:")
                    block(i["b"], ind + 1)
            elif "wh" in s:
                w = s["wh"]
                put(w["ln"], f"{pad}while {R_cond(w['c'])}:")
                block(w["a"], ind + 1)
            elif "mcall" in s:
                c = s["mcall"]
                lhs = f"{R_tgt(c['tg'])} = " if c.get("tg") is not None else ""
                put(c["ln"], f"{pad}{lhs}{r_recv(c['r'])}.{fun_name(prog, c['f'])}"
                             f"({', '.join(R_expr(x) for x in c['args'])})")
            elif "new" in s:
                c = s["new"]
                put(c["ln"], f"{pad}{R_tgt(c['tg'])} = C{c['c']}({', '.join(R_expr(x) for x in c['args'])})")
            else:
                c = s["call"]
                put(c["ln"], f"{pad}{R_tgt(c['tg'])} = f{c['f']}({', '.join(R_expr(x) for x in c['args'])})")

    for ln, (i, n) in prog["ginit"]:
        put(ln, f"G{i} = {n}")
    for ci, k in enumerate(prog["classes"]):
        put(k["ln"], f"class C{ci}:")
        for ln, (i, n) in k["defaults"]:
            put(ln, f"    {an(i)} = {n}")
    for fi, f in enumerate(prog["funs"]):
        ind = 1 if f["cls"] else 0
        pad = "    " * ind
        params = (["self"] if f["cls"] else []) + ["v%d" % i for i in range(f["np"])]
        put(f["defLn"], f"{pad}def {fun_name(prog, fi)}({', '.join(params)}):")
        if ng:
            put(f["defLn"] + 1, pad + "    global " + ", ".join(f"G{i}" for i in range(ng)))
        block(f["body"], ind + 1)
        if not f["void"]:
            put(f["retLn"], f"{pad}    return {R_expr(f['ret'])}")
    last = max(lines)
    return "\n".join(lines.get(i, "") for i in range(1, last + 1)) + "\n"


def stmt_lines(stmts):
    out = []
    for s in stmts:
        (kind, v), = s.items()
        out.append(v["ln"])
        for sub in ("a", "b"):
            if kind in ("ite", "wh") and sub in v:
                out += stmt_lines(v[sub])
    return out


def has_loop(prog) -> bool:
    def blk(stmts):
        return any("wh" in s or ("ite" in s and (blk(s["ite"]["a"]) or blk(s["ite"]["b"]))) for s in stmts)
    return any(blk(f["body"]) for f in prog["funs"])


def test_view(prog):
    """The test as [('const', n) | ('call', 'f<i>', [args]) | ('new', 'C<c>', [args]) |
    ('mcall', obj statement, 'm<i>', [args]) | ('attr', obj statement, 'a<i>')] (args = statement indices)."""
    out = []
    for t in prog["test"]:
        if "const" in t:
            out.append(("const", t["const"]["n"]))
        elif "call" in t:
            out.append(("call", f"f{t['call']['f']}", list(t["call"]["args"])))
        elif "new" in t:
            out.append(("new", f"C{t['new']['c']}", list(t["new"]["args"])))
        elif "mcall" in t:
            m = t["mcall"]
            out.append(("mcall", m["o"], fun_name(prog, m["f"], outside=True), list(m["args"])))
        else:
            cls = prog["test"][t["attr"]["o"]]["new"]["c"]
            out.append(("attr", t["attr"]["o"], attr_name(prog, t["attr"]["i"], cls)))
    return out


def void_ret_line(prog, k):
    """Line of the implicit `return None` test statement k ends with (a call of a void function or
    method, or of a class with `__init__`), else None.  `_cleanse_included_implicit_return_none`
    takes exactly that line out of the statement's own contribution to the checked lines."""
    prog = norm_prog(prog)
    t = prog["test"][k]
    f = None
    if "call" in t:
        f = t["call"]["f"]
    elif "mcall" in t:
        f = t["mcall"]["f"]
    elif "new" in t:
        f = prog["classes"][t["new"]["c"]]["init"]
    if f is None or not prog["funs"][f]["void"]:
        return None
    return prog["funs"][f]["retLn"]


def test_names(test):
    """pynguin-style variable names of the test statements."""
    names = []
    for k, t in enumerate(test):
        names.append(f"obj_{k}" if t[0] == "new" else f"int_{k}")
    return names


def stmt_code(t, names, alias):
    if t[0] == "const":
        return str(t[1])
    if t[0] in ("call", "new"):
        return f"{alias}.{t[1]}({', '.join(names[a] for a in t[2])})"
    if t[0] == "mcall":
        return f"{names[t[1]]}.{t[2]}({', '.join(names[a] for a in t[3])})"
    return f"{names[t[1]]}.{t[2]}"


class Canon:
    """JSON-able values of test statements: ints as they are, None as 0, SUT objects by creation order."""

    def __init__(self):
        self.seen = {}
        self.keep = []

    def __call__(self, v):
        if isinstance(v, bool) or isinstance(v, (int, dict)):
            return v
        if v is None:
            return 0
        if id(v) not in self.seen:
            self.seen[id(v)] = len(self.seen) + 1
            self.keep.append(v)
        return self.seen[id(v)]


# ---------------------------------------------------------------------------------------------
# Independent oracle 1: forward provenance interpreter for PyMini (value, set of lines)
# ---------------------------------------------------------------------------------------------
class OutOfFuel(Exception):
    pass


class Prov:
    def __init__(self, prog, carried=True):
        self.p = norm_prog(prog)
        self.carried = carried   # False: only the first evaluation of a loop test controls the body
        self.gl = {}
        self.heap = {}           # (object, attribute) -> (value, lines)
        self.cdef = {}           # (class, attribute) -> (value, lines): class-level defaults
        self.cls_of = {}
        self.nobj = 0
        self.executed = set()
        self.fuel = 200000

    def recv(self, rv, env):
        """(object, lines the reference depends on) of a receiver."""
        return env["self"] if rv == "self" else env[rv["l"]["i"]]

    def ev(self, e, env):
        if "k" in e:
            return e["k"]["n"], frozenset()
        if "l" in e:
            return env[e["l"]["i"]]
        if "g" in e:
            return self.gl[e["g"]["i"]]
        if "at" in e:
            o, dr = self.recv(e["at"]["r"], env)
            key = (o, e["at"]["i"])
            v, d = self.heap[key] if key in self.heap else self.cdef[(self.cls_of[o], key[1])]
            return v, d | dr
        b = e["bin"]
        (x, dx), (y, dy) = self.ev(b["a"], env), self.ev(b["b"], env)
        v = {"add": x + y, "sub": x - y, "mul": x * y}.get(b["op"])
        if b["op"] == "mod":
            v = x % y
        return v, dx | dy

    def cond(self, c, env):
        (x, dx), (y, dy) = self.ev(c["a"], env), self.ev(c["b"], env)
        v = {"lt": x < y, "le": x <= y, "eq": x == y, "ne": x != y, "gt": x > y, "ge": x >= y}[c["op"]]
        return v, dx | dy

    def tuses(self, tg, env):
        """Lines the stored-to location depends on (the receiver of `self.a = …`)."""
        return self.recv(tg["at"]["r"], env)[1] if "at" in tg else frozenset()

    def store(self, tg, val, env):
        if "l" in tg:
            env[tg["l"]["i"]] = val
        elif "g" in tg:
            self.gl[tg["g"]["i"]] = val
        else:
            self.heap[(self.recv(tg["at"]["r"], env)[0], tg["at"]["i"])] = val

    def block(self, stmts, env, ctrl):
        for s in stmts:
            self.fuel -= 1
            if self.fuel < 0:
                raise OutOfFuel
            if "asg" in s:
                a = s["asg"]
                self.executed.add(a["ln"])
                v, d = self.ev(a["e"], env)
                self.store(a["tg"], (v, d | ctrl | {a["ln"]} | self.tuses(a["tg"], env)), env)
            elif "ite" in s:
                i = s["ite"]
                self.executed.add(i["ln"])
                v, d = self.cond(i["c"], env)
                self.block(i["a"] if v else i["b"], env, ctrl | d | {i["ln"]})
            elif "wh" in s:
                w = s["wh"]
                hdr = ctrl | {w["ln"]}
                first = True
                while True:
                    self.fuel -= 1
                    if self.fuel < 0:
                        raise OutOfFuel
                    self.executed.add(w["ln"])
                    v, d = self.cond(w["c"], env)
                    if self.carried or first:
                        hdr = hdr | d      # iteration k's test is controlled by the tests before it
                    first = False
                    if not v:
                        break
                    self.block(w["a"], env, hdr)
            else:
                (kind, c), = s.items()
                ln = c["ln"]
                self.executed.add(ln)
                here = ctrl | {ln}
                res = None
                if kind == "call":
                    f, selfv, cuses = c["f"], None, frozenset()
                elif kind == "mcall":
                    o, dr = self.recv(c["r"], env)
                    # the receiver and the class-level `def` found through it select the callee
                    f, selfv, cuses = c["f"], (o, dr | here), dr | {self.p["funs"][c["f"]]["defLn"]}
                else:
                    self.nobj += 1
                    o = self.nobj
                    self.cls_of[o] = c["c"]
                    f, selfv, cuses = self.p["classes"][c["c"]]["init"], (o, here), frozenset()
                    res = (o, here)                                # the reference: just the creation
                if f is not None:
                    args = [self.ev(x, env) for x in c["args"]]
                    rv = self.call(f, [(v, d | here) for v, d in args], here | cuses, selfv)
                    if res is None:
                        res = rv
                if c.get("tg") is not None:
                    self.store(c["tg"], (res[0], res[1] | here | self.tuses(c["tg"], env)), env)

    def call(self, f, args, ctrl, selfv=None):
        fn = self.p["funs"][f]
        env = dict(enumerate(args))
        if selfv is not None:
            env["self"] = selfv
        self.block(fn["body"], env, ctrl)
        if fn["void"]:
            return 0, ctrl | {fn["retLn"]}      # the implicit `return None` on the last statement's line
        self.executed.add(fn["retLn"])
        v, d = self.ev(fn["ret"], env)
        return v, d | ctrl | {fn["retLn"]}

    def run(self):
        for ln, (i, n) in self.p["ginit"]:
            self.executed.add(ln)
            self.gl[i] = (n, frozenset({ln}))
        for f in self.p["funs"]:
            self.executed.add(f["defLn"])
        for ci, k in enumerate(self.p["classes"]):
            self.executed.add(k["ln"])
            for ln, (i, n) in k["defaults"]:
                self.executed.add(ln)
                self.cdef[(ci, i)] = (n, frozenset({ln}))
        vals, deps = [], []
        env = {}
        for k, t in enumerate(self.p["test"]):
            tg = L(k)
            if "const" in t:
                s = {"asg": {"ln": 0, "tg": tg, "e": K(t["const"]["n"])}}
            elif "call" in t:
                s = {"call": {"ln": 0, "tg": tg, "f": t["call"]["f"], "args": [L(a) for a in t["call"]["args"]]}}
            elif "new" in t:
                s = {"new": {"ln": 0, "tg": tg, "c": t["new"]["c"], "args": [L(a) for a in t["new"]["args"]]}}
            elif "mcall" in t:
                m = t["mcall"]
                s = {"mcall": {"ln": 0, "tg": tg, "r": L(m["o"]), "f": m["f"], "args": [L(a) for a in m["args"]]}}
            else:
                s = {"asg": {"ln": 0, "tg": tg, "e": A(t["attr"]["i"], L(t["attr"]["o"]))}}
            self.block([s], env, frozenset())
            vals.append(env[k][0])
            deps.append(sorted(env[k][1] - {0}))
        return vals, deps, sorted(self.executed - {0})


# ---------------------------------------------------------------------------------------------
# Independent oracle 2: what CPython really executed (un-instrumented copy, sys.monitoring)
# ---------------------------------------------------------------------------------------------
def run_plain(src: str, test, workdir: str, canon_vals: bool = False):
    """Import + run the test on a plain copy. Returns (vals, executed lines, executed opcode keys)."""
    name = f"c09plain_{os.getpid()}_{next(_counter)}"
    path = os.path.join(workdir, name + ".py")
    with open(path, "w", encoding="utf-8") as f:
        f.write(src)
    lines: set[int] = set()
    ops: set[tuple] = set()
    tables: dict = {}

    def table(code):
        t = tables.get(code)
        if t is None:
            t = {i.offset: i for i in dis.get_instructions(code)}
            tables[code] = t
        return t

    mon = sys.monitoring
    tool = next(t for t in (3, 4, 5, 2) if mon.get_tool(t) is None)

    def on_line(code, line):
        if code.co_filename != path:
            return mon.DISABLE
        lines.add(line)
        return None

    def on_instr(code, offset):
        if code.co_filename != path:
            return mon.DISABLE
        ins = table(code).get(offset)
        if ins is not None:
            ln = ins.positions.lineno if ins.positions is not None else None
            ops.add((code.co_qualname, ln, ins.opname))
            ops.add((code.co_qualname, None, ins.opname))
            if ln is not None:
                lines.add(ln)
        return None

    vals = []
    canon = Canon()
    sys.path.insert(0, workdir)
    mon.use_tool_id(tool, "verif-c09")
    try:
        mon.register_callback(tool, mon.events.LINE, on_line)
        mon.register_callback(tool, mon.events.INSTRUCTION, on_instr)
        mon.restart_events()
        mon.set_events(tool, mon.events.LINE | mon.events.INSTRUCTION)
        try:
            mod = importlib.import_module(name)
            env = {}
            for k, t in enumerate(test):
                try:
                    if t[0] == "const":
                        env[k] = t[1]
                    elif t[0] in ("call", "new"):
                        env[k] = getattr(mod, t[1])(*[env[a] for a in t[2]])
                    elif t[0] == "mcall":
                        env[k] = getattr(env[t[1]], t[2])(*[env[a] for a in t[3]])
                    else:
                        env[k] = getattr(env[t[1]], t[2])
                except Exception as e:  # noqa: BLE001  (the SUT may raise: the test stops here)
                    vals.append({"err": type(e).__name__})
                    break
                vals.append(canon(env[k]) if canon_vals else env[k])
        finally:
            mon.set_events(tool, 0)
    finally:
        mon.register_callback(tool, mon.events.LINE, None)
        mon.register_callback(tool, mon.events.INSTRUCTION, None)
        mon.free_tool_id(tool)
        sys.path.remove(workdir)
        sys.modules.pop(name, None)
    if lines and not ops:
        raise RuntimeError("sys.monitoring delivered no INSTRUCTION events")
    return vals, lines, ops


# ---------------------------------------------------------------------------------------------
# The real implementation
# ---------------------------------------------------------------------------------------------
def run_real(src: str, test, asserts, plain_vals, workdir: str, canon_vals: bool = False):
    import libcst as cst
    import pynguin.assertion.assertion as ass
    import pynguin.configuration as config
    import pynguin.testcase.execution as ex
    import pynguin.testcase.testcase as tc
    from pynguin.ga.checked_coverage import compute_assertion_checked_coverage
    from pynguin.instrumentation import AST_FILENAME
    from pynguin.instrumentation.machinery import install_import_hook
    from pynguin.instrumentation.tracer import SubjectProperties
    from pynguin.slicer.dynamicslicer import DynamicSlicer
    from pynguin.slicer.statementslicingobserver import RemoteStatementSlicingObserver
    from pynguin.utils.naming import get_module_alias

    class Grab(ex.RemoteExecutionObserver):
        def __init__(self):
            super().__init__()
            self.vals, self.pos, self.criteria = {}, 0, {}

        def before_test_case_execution(self, test_case):
            pass

        def before_statement_execution(self, statement, node, exec_ctx):
            return node

        def after_statement_execution(self, statement, executor, namespace, exception):
            p = self.pos
            self.pos += 1
            if exception is not None:
                self.vals[p] = {"err": type(exception).__name__}
            else:
                self.vals[p] = namespace.get(statement.bound_variable)
            # the criteria exactly as pynguin's observer recorded them (thread-local: copy in-thread)
            self.criteria = dict(slicing_observer._slicing_local_state.slicing_criteria)  # noqa: SLF001

        def after_test_case_execution(self, executor, test_case, result):
            self.criteria = dict(slicing_observer._slicing_local_state.slicing_criteria)  # noqa: SLF001

    name = f"c09sut_{os.getpid()}_{next(_counter)}"
    with open(os.path.join(workdir, name + ".py"), "w", encoding="utf-8") as f:
        f.write(src)
    metrics = [config.CoverageMetric.CHECKED]
    config.configuration.module_name = name
    config.configuration.statistics_output.coverage_metrics = metrics
    config.configuration.stopping.maximum_slicing_time = 600
    sp = SubjectProperties()
    alias = get_module_alias(name)
    out: dict = {}
    sys.path.insert(0, workdir)
    try:
        with install_import_hook(name, sp, coverage_metrics=set(metrics)):
            with sp.instrumentation_tracer:
                importlib.import_module(name)
            executor = ex.TestCaseExecutor(sp, maximum_test_execution_timeout=120,
                                           test_execution_time_per_statement=60)
            executor.set_instrument(True)
            slicing_observer = RemoteStatementSlicingObserver()
            executor.add_remote_observer(slicing_observer)
            executor.add_remote_observer(ex.RemoteAssertionExecutionObserver())
            grab = Grab()
            executor.add_remote_observer(grab)
            case = tc.TestCase()
            names = test_names(test)
            for k, t in enumerate(test):
                code = f"{names[k]} = {stmt_code(t, names, alias)}"
                node = cst.parse_module(code + "\n").body[0]
                case.add_statement(tc.Statement(node=node, bound_variable=names[k],
                                                bound_type=None if t[0] == "new" else int))
            for k in asserts:
                if k < len(plain_vals) and isinstance(plain_vals[k], int) and test[k][0] != "new":
                    case.get_statement(k).assertions.append(ass.ObjectAssertion(names[k], plain_vals[k]))
            result = executor.execute(case)
            if result.timeout:
                return {"timeout": True}
            trace = result.execution_trace
            instrs = trace.executed_instructions
            known = sp.existing_code_objects

            def ln(ids):
                # line-less instructions (DESIGN D23, property C02) are not lines: dropped here
                return sorted({sp.existing_lines[i].line_number for i in ids} - {None})

            def qual(u):
                return known[u.code_object_id].code_object.co_qualname

            canon = Canon() if canon_vals else (lambda v: v)
            out["vals"] = [canon(grab.vals.get(k)) for k in range(len(test)) if k in grab.vals]
            out["checked"] = ln(trace.checked_lines)
            out["n_instr"] = len(instrs)
            criteria = grab.criteria
            slicer = DynamicSlicer(known)
            out["slices"], out["slice_keys"], out["crit_missing"] = [], [], []
            out["trailing_none"], out["slice_errors"] = [], []
            for k in sorted(criteria):
                crit = criteria[k]
                try:
                    sl = slicer.slice(trace, crit)
                except Exception as e:  # noqa: BLE001  pynguin's slicer raised: no slice for an executed statement
                    out["slice_errors"].append(["stmt", k, type(e).__name__])
                    continue
                out["slices"].append([k, ln(DynamicSlicer.map_instructions_to_lines(sl, sp))])
                # a `return None` directly before the criterion: the only line the cleansing of
                # compute_statement_checked_lines may take out of this statement's contribution
                if (len(sl) >= 2 and sl[-2].name == "RETURN_CONST" and sl[-2].arg is None
                        and sl[-2].file != AST_FILENAME):
                    out["trailing_none"].append([k, sl[-2].lineno])
                out["slice_keys"].append([k, sorted({(qual(u), u.lineno, u.name) for u in sl
                                                     if u.file != AST_FILENAME}, key=repr)])
                ci = instrs[crit.trace_position]
                if not any(u.code_object_id == ci.code_object_id and u.node_id == ci.node_id
                           and u.instr_original_index == ci.instr_original_index for u in sl):
                    out["crit_missing"].append(["stmt", k])
            # assertions: through the real entry point (fills assertion.checked_instructions)
            out["aslices"], out["aslice_keys"] = [], []
            try:
                cov = compute_assertion_checked_coverage(trace, sp)
            except Exception as e:  # noqa: BLE001
                out["slice_errors"].append(["assert", -1, type(e).__name__])
                for ea in trace.executed_assertions:
                    del ea.assertion.checked_instructions[:]
                cov = None
            union = set()
            for j, ea in enumerate(trace.executed_assertions):
                sl = list(ea.assertion.checked_instructions)
                lines = ln(DynamicSlicer.map_instructions_to_lines(sl, sp))
                union |= set(lines)
                out["aslices"].append(lines)
                out["aslice_keys"].append([j, sorted({(qual(u), u.lineno, u.name) for u in sl
                                                      if u.file != AST_FILENAME}, key=repr)])
                ci = instrs[ea.trace_position]
                if not any(u.code_object_id == ci.code_object_id and u.node_id == ci.node_id
                           and u.instr_original_index == ci.instr_original_index for u in sl):
                    out["crit_missing"].append(["assert", j])
            existing = len(sp.existing_lines)
            out["acov_consistent"] = bool(existing == 0 or cov is None or cov == len(union) / existing)
            out["n_assert"] = len(trace.executed_assertions)
    finally:
        sys.path.remove(workdir)
        sys.modules.pop(name, None)
    return out


# ---------------------------------------------------------------------------------------------
class C09(PropertyCheck):
    prop_id = "C09"
    level = "proof"
    prop_modules = ["PynguinModel.Props.C09"]
    extra_modules = ["PynguinModel.Model.PyMini"]
    driver = "Driver/C09.lean"
    n_quick = 70
    n_thorough = 680
    n_search = 1500
    rule = ("non-trivial = some statement/assertion slice of the case is non-empty and a strict subset of "
            "the executed lines (the slicer had to decide something); distinct by program text + slices")
    assumptions = [
        "events are statement-level steps; pynguin's operand-stack simulation inside one statement is abstracted",
        "dependence-completeness (c) is claimed for the PyMini fragment without recursion "
        "(int locals/params, module globals, assignment, if/else, while, calls ending in `return e`, classes with "
        "attribute defaults / __init__ / methods over self.a<i>, void functions and methods; every test statement bound)",
        "checked lines of a test (compute_statement_checked_lines) = union of the statements' slice lines, each "
        "statement's own trailing `return None` line excepted (_cleanse_included_implicit_return_none)",
        "a value obtained through an instance (`obj.a`, `obj.m()`) depends on the class-level line (`a = n`, `def m`) "
        "that defines the name when no store on the instance does; module-level `def f` lines and `def __init__` are "
        "not part of the fragment's dependence relation",
    ]
    trusted_base_extra = [
        "CPython's sys.monitoring LINE/INSTRUCTION events on an un-instrumented copy define 'executed'",
        "harness renderer PyMini -> Python source (validated per case: CPython result and executed lines "
        "must equal the Lean interpreter's)",
    ]

    def __init__(self, tier, seed):
        super().__init__(tier, seed)
        self.workdir = tempfile.mkdtemp(prefix="verif_c09_")
        import atexit
        atexit.register(shutil.rmtree, self.workdir, True)

    # ---- generation ---------------------------------------------------------------------------
    def gen_case(self, rng: random.Random):
        k = rng.random()
        p_mini, p_obj, p_rec = (0.40, 0.34, 0.06) if self.tier == "quick" else (0.38, 0.30, 0.07)
        if k >= 0.86:
            return gen_akey(rng)       # cheap (no module is imported)
        if k < p_mini:
            return {"kind": "mini", "prog": MiniGen(rng).module()}
        if k < p_mini + p_obj:
            return {"kind": "obj", "prog": MiniGen(rng).module_obj()}
        if k < p_mini + p_obj + p_rec:
            return {"kind": "rec", "prog": rec_module(rng)}
        import progen
        seed = rng.randrange(1 << 30)
        nf = 1 if rng.random() < 0.7 else 2
        calls = []
        for _ in range(rng.randint(1, 3)):
            calls.append([rng.randrange(nf)] + [rng.randint(-3, 7) for _ in range(3)])
        src = progen.gen_module(random.Random(seed), n_funcs=nf, features=WIDE_FEATURES, with_class=False,
                                with_generator=False)
        return {"kind": "wide", "seed": seed, "nf": nf, "calls": calls, "src": src,
                "asserts": [i for i in range(len(calls)) if rng.random() < 0.5]}

    @staticmethod
    def _wide_test(case):
        test, asserts = [], []
        for ci, c in enumerate(case["calls"]):
            base = len(test)
            test += [("const", c[1]), ("const", c[2]), ("const", c[3]),
                     ("call", f"f{c[0]}", [base, base + 1, base + 2])]
            if ci in case.get("asserts", []):
                asserts.append(base + 3)
        return test, asserts

    # ---- implementation -----------------------------------------------------------------------
    def impl(self, case):
        kind = case["kind"]
        self.count("kind:" + kind)
        if kind == "akey":
            return run_akey(case)
        frag = kind in FRAGMENT_KINDS
        if frag:
            src = render(case["prog"])
            test = test_view(norm_prog(case["prog"]))
            asserts = list(case["prog"]["asserts"])
        else:
            src = case["src"]
            test, asserts = self._wide_test(case)
        pvals, plines, pops = run_plain(src, test, self.workdir, canon_vals=frag)
        out = run_real(src, test, asserts, pvals, self.workdir, canon_vals=frag)
        if out.get("timeout"):
            # pynguin reported the execution as timed out; in practice: the slicing observer raised
            # (`get_line_id_by_instruction` on a line-less JUMP_BACKWARD), nothing is reported as checked
            self.count("execution-without-result:" + kind)
            return {"timeout": True, "fragment": frag}
        out["plain_vals"] = pvals
        out["executed"] = sorted(plines)
        # (b): instructions of a slice that CPython did not execute in this execution
        unexec = []
        for tag, keysets in (("stmt", out.pop("slice_keys")), ("assert", out.pop("aslice_keys"))):
            for k, keys in keysets:
                bad = [list(key) for key in keys if tuple(key) not in pops]
                if bad:
                    unexec.append([tag, k, bad[:5]])
        out["unexecuted"] = unexec
        # lines of a statement's slice (other than its trailing `return None` line) that the test's
        # checked lines do not contain
        own = dict((k, l) for k, l in out["trailing_none"])
        checked = set(out["checked"])
        out["unreported"] = [[k, sorted(set(lines) - checked - {own.get(k)})] for k, lines in out["slices"]
                             if set(lines) - checked - {own.get(k)}]
        self.count("test-void-stmts:%d" % min(len(own), 3))
        self.count("stmts:%d" % min(len(test), 9))
        self.count("instr:%s" % ("<50" if out["n_instr"] < 50 else "<200" if out["n_instr"] < 200 else ">=200"))
        if any(isinstance(v, dict) for v in out["vals"]):
            self.count("sut-exception")
        return out

    # ---- model --------------------------------------------------------------------------------
    def model_line(self, case):
        if case["kind"] == "wide":
            return None
        if case["kind"] == "akey":
            return jdump({"akey": {"c": {"addr": case["addr"], "uses": case["uses"]}}})
        prog = {k: v for k, v in norm_prog(case["prog"]).items() if k != "names"}
        return jdump({"mini": {"c": {"prog": prog, "fuel": FUEL}}})

    def compare(self, case, io, mo) -> bool:
        if case["kind"] == "akey":
            # key construction (`combined_attr`), selection (`startswith`), name extraction, removal
            return ("keys" in mo and io["keys"] == sorted(mo["keys"]) and io["names"] == sorted(mo["names"])
                    and io["remaining"] == sorted(mo["remaining"]) and io["covered"] == mo["covered"]
                    and mo["recovered"] == [n for _, n in case["uses"]])
        if io.get("timeout"):
            return True
        if "vals" not in mo:
            return False
        # correspondence 1: the PyMini semantics is CPython's on this program
        if io["vals"] != mo["vals"] or io["plain_vals"] != mo["vals"]:
            return False
        if io["executed"] != mo["executed"]:
            return False
        # the two independent formulations of dynamic dependence agree (backward closure in Lean vs
        # forward provenance here)
        pv, pdeps, pexec = Prov(case["prog"]).run()
        if pv != mo["vals"] or pdeps != mo["slices"] or pexec != mo["executed"]:
            return False
        if Prov(case["prog"], carried=False).run()[1] != mo["wslices"]:
            return False
        if case["kind"] == "rec":
            return True     # ⊇ not demanded here: see the known finding (oracle reports it)
        # correspondence 2: the real slice contains every line of the model's slice.  For loops the
        # model without loop-carried control dependence is the bound (known finding); without loops
        # both models coincide.
        islices = dict((k, v) for k, v in io["slices"])
        for k, need in enumerate(mo["wslices"]):
            if not set(need) <= set(islices.get(k, [])):
                return False
        if io["n_assert"] != len(mo["waslices"]):
            return False
        for need, got in zip(mo["waslices"], io["aslices"]):
            if not set(need) <= set(got):
                return False
        # correspondence 3: compute_statement_checked_lines (slice, cleanse the statement's own trailing
        # `return None` line, accumulate) reports at least what its model reports
        if not set(mo["wchecked"]) <= set(io["checked"]):
            return False
        if not has_loop(case["prog"]) and mo["wchecked"] != mo["checked"]:
            return False
        if not has_loop(case["prog"]) and (mo["wslices"] != mo["slices"] or mo["waslices"] != mo["aslices"]):
            return False
        return True

    # ---- the property itself on the implementation ----------------------------------------------
    def oracle(self, case, io):
        if case["kind"] == "akey":
            # a pending read of `obj.<name>` is a dependence on the class-level definition of <name>: at the
            # creation of obj the slicer must go on looking for exactly that name
            if not case["addr"]:
                return []
            need = {n for a, n in case["uses"] if a == case["addr"]}
            lost = sorted(need - set(io["names"]))
            if lost:
                return [Failure({"part": "c-dependence-complete", "class": "attribute-name-not-recovered"},
                                f"pending attribute uses {io['keys']}: at the creation of the object at "
                                f"{hex(case['addr'])} the slicer looks for the class-level names {io['names']}; "
                                f"the definitions of {lost} (read through that object) are never looked for")]
            return []
        if io.get("timeout"):
            if io.get("fragment"):
                # a terminating test on a program of the fragment: the execution ended without a result, i.e.
                # the slicing observer raised — nothing is reported as checked, no statement got a slice
                return [Failure({"part": "c-dependence-complete", "class": "no-slice-produced"},
                                "the execution of a terminating test of the fragment produced no result "
                                "(slicing observer raised): no slice / checked lines for any statement")]
            return []
        fs = []
        if io["slice_errors"]:
            tag, k, err = io["slice_errors"][0]
            fs.append(Failure({"part": "c-dependence-complete", "class": "slicer-raises"},
                              f"pynguin's slicer raised {err} on the criterion of {tag} {k}: no slice for an executed "
                              f"statement"))
        executed = set(io["executed"])
        extra = set(io["checked"]) - executed
        if extra:
            fs.append(Failure({"part": "a-checked-executed", "via": "statement"},
                              f"lines {sorted(extra)} reported as checked by a statement were not executed"))
        for j, lines in enumerate(io["aslices"]):
            extra = set(lines) - executed
            if extra:
                fs.append(Failure({"part": "a-checked-executed", "via": "assertion"},
                                  f"lines {sorted(extra)} reported as checked by assertion {j} were not executed"))
                break
        for k, lines in io["slices"]:
            extra = set(lines) - executed
            if extra:
                fs.append(Failure({"part": "b-slice-executed", "level": "line"},
                                  f"slice of statement {k} contains lines {sorted(extra)} that were not executed"))
                break
        if io["unexecuted"]:
            tag, k, bad = io["unexecuted"][0]
            fs.append(Failure({"part": "b-slice-executed", "level": "instruction"},
                              f"slice of {tag} {k} contains instructions CPython did not execute: {bad}"))
        if io["crit_missing"]:
            fs.append(Failure({"part": "b-criterion-in-slice"},
                              f"slice does not contain its criterion: {io['crit_missing'][0]}"))
        if case["kind"] in FRAGMENT_KINDS:
            try:
                pv, pdeps, _ = Prov(case["prog"]).run()
            except OutOfFuel:
                return fs + self._unreported(io)
            if pv == io["plain_vals"]:      # the oracle's semantics is validated on this very run
                islices = dict((k, v) for k, v in io["slices"])
                wdeps = Prov(case["prog"], carried=False).run()[1]
                frag = {"part": "c-dependence-complete", "class": "fragment"}
                for k, need in enumerate(pdeps):
                    missing = set(need) - set(islices.get(k, []))
                    if not missing:
                        continue
                    if case["kind"] == "rec":
                        sig = REC_SIG
                    elif set(wdeps[k]) <= set(islices.get(k, [])):
                        sig = LOOP_SIG    # everything but loop-carried control dependence is there
                        missing = set(need) - set(wdeps[k]) - set(islices.get(k, []))
                    else:
                        sig = frag
                        missing = set(wdeps[k]) - set(islices.get(k, []))
                    fs.append(Failure(sig, f"value of int_{k} depends on lines {sorted(missing)} "
                                           f"which are not in its slice {islices.get(k)}"))
                    break
                # the lines the test reports as checked by its statements: every line a bound statement's
                # value depends on, except the line of that statement's own trailing `return None`.
                # (Lines the slicer itself misses are reported above, per slice — known findings included.)
                checked = set(io["checked"])
                for k, need in enumerate(pdeps):
                    if k not in islices:
                        continue
                    lost = (set(need) & set(islices[k])) - checked - {void_ret_line(case["prog"], k)}
                    if lost:
                        fs.append(Failure(
                            {"part": "c-checked-lines-complete", "class": "dependence-line-not-reported"},
                            f"value of statement {k} depends on lines {sorted(lost)} (they are in its slice), "
                            f"but the lines reported as checked for the test case are {sorted(checked)}"))
                        break
        return fs + self._unreported(io)

    @staticmethod
    def _unreported(io):
        """The same clause without a dependence oracle (all kinds of programs): what
        compute_statement_checked_lines reports contains every statement's slice lines except that
        statement's own trailing `return None` line."""
        if not io["unreported"]:
            return []
        k, lines = io["unreported"][0]
        return [Failure({"part": "c-checked-lines-complete", "class": "slice-line-not-reported"},
                        f"lines {lines} are in the slice of statement {k} (and are not the line of its own "
                        f"trailing `return None`) but the test's checked lines {io['checked']} lack them")]

    def classify(self, case, io):
        if case["kind"] == "akey":
            return jdump(["akey", io["keys"], io["names"]]) if io["names"] and io["remaining"] else None
        if io.get("timeout"):
            return None
        executed = set(io["executed"])
        nontrivial = any(lines and set(lines) < executed for _, lines in io["slices"]) or \
            any(lines and set(lines) < executed for lines in io["aslices"])
        if not nontrivial:
            return None
        self.count("nontrivial:" + case["kind"])
        src = case.get("src") or jdump(case["prog"])
        return jdump([src, io["slices"], io["aslices"]])

    # ---- witnesses of the known finding ---------------------------------------------------------
    def witnesses(self):
        """Replay the witnesses of the two known findings on the real slicer."""
        out = []
        for case in (REC_WITNESS, LOOP_WITNESS):
            io = self.impl(case)
            for f in self.oracle(case, io):
                f.case = case
                out.append(f)
        return out


LOOP_WITNESS = {"kind": "mini", "prog": {
    "ginit": [], "asserts": [],
    "funs": [{"defLn": 1, "np": 1, "retLn": 7, "ret": L(1), "body": [
        {"asg": {"ln": 2, "tg": L(1), "e": K(0)}},
        {"asg": {"ln": 3, "tg": L(2), "e": K(0)}},
        {"wh": {"ln": 4, "c": {"op": "lt", "a": L(2), "b": B("mod", L(0), K(4))},
                "a": [{"asg": {"ln": 5, "tg": L(2), "e": B("add", L(2), K(1))}},
                      {"asg": {"ln": 6, "tg": L(1), "e": L(0)}}]}}]}],
    "test": [{"const": {"n": 3}}, {"call": {"f": 0, "args": [0]}}]}}


class _Fixed:
    """A scripted stand-in for random.Random (witness replay)."""

    def __init__(self, vals):
        self.vals = list(vals)

    def _next(self):
        return self.vals.pop(0)

    def randrange(self, *a):
        return self._next()

    def randint(self, *a):
        return self._next()

    def random(self):
        return self._next()


REC_WITNESS = {"kind": "rec", "prog": rec_module(_Fixed([0, 1, 6, 1, 0.9]))}


if __name__ == "__main__":
    run_main(C09)

