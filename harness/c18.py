"""C18 — generated test files pass when run against the module under test (DESIGN §5 C18).

Correspondence: random suites of REAL `TestCase`/`Statement` objects over a fixed deterministic module
(numeric, string, container, class-state, enum, float-returning and raising callables) carry assertions
produced the way pynguin produces them (observed value -> Float/Object/IsInstance/TypeName/Length
assertion, kept only if it verifies in an executor-like namespace); the REAL `TestSuiteWriter.write`
emits the file; the file is parsed with `ast` and RUN WITH PYTEST in a fresh interpreter against the
uninstrumented module.  The Lean model (`Driver/C18.lean`) gets the abstraction of the same suite
(what the writer looks at) and predicts import list, decorators, wrappers, kept assertions and the
pytest report.  In addition a few REAL pynguin pipeline runs (corpus of small modules x seeds x
assertion-generation modes) are executed in subprocesses with `TestSuiteWriter.write` observed; their
suites go through the same model comparison and the same oracle.

Oracle (independent of the Lean model): the file compiles; every name loaded in a test function — in a
decorator, in the `pytest.raises(<class>)` header, in a statement, in an assertion (the place is part of
the failure signature) — is a local assigned earlier, a module-level name or a builtin; pytest collects
the file; every test not marked xfail passes and every test marked `xfail(strict=True)` is reported
xfailed.
"""
from __future__ import annotations

import ast
import builtins
import json
import os
import shutil
import subprocess
import sys
import tempfile
import xml.etree.ElementTree as ET
from pathlib import Path

if __name__ == "__main__" and os.environ.get("C18_PIPELINE_OUT"):
    sys.path.insert(0, str(Path(__file__).resolve().parent))

import vcommon
from vcommon import Failure, PropertyCheck, run_main

# ---------------------------------------------------------------------------------------------
# The module under test for the synthetic suites (deterministic, no module-level mutable state)
# ---------------------------------------------------------------------------------------------
ZOO = '''"""A deterministic zoo of callables."""
import decimal
import enum
import json
from uuid import SafeUUID

import c18aux
from c18aux import Tint


class Shade(enum.Enum):
    DARK = "d"
    LIGHT = "l"


class _Mode(enum.Enum):
    LOW = 1
    HIGH = 2


class AppError(Exception):
    pass


class _HiddenError(Exception):
    pass


class _HiddenSub(AppError):
    pass


class Box:
    class Inner(ValueError):
        pass

    class _Cap(AppError):
        pass

    class _Veiled(_HiddenError):
        pass

    limit = 3

    def __init__(self, v=0):
        self.v = v
        self.items = []

    def put(self, x):
        if len(self.items) >= Box.limit:
            raise AppError("full")
        self.items.append(x)
        return len(self.items)

    def total(self):
        return float(sum(self.items)) + self.v / 4.0

    def get(self, i):
        return self.items[i]

    def boom(self):
        raise Box.Inner("inner")

    def hide(self):
        raise _HiddenError(self.v)

    def cap(self):
        raise Box._Cap("cap")


def half(x):
    return x / 2.0


def ratio(a, b):
    return a / b


def nanval():
    return float("nan")


def infval(neg):
    return float("-inf") if neg else float("inf")


def negzero():
    return -0.0


def shout(s):
    return s.upper() + "!"


def split(s):
    return s.split(",")


def pairs(n):
    return {i: str(i) for i in range(n % 5)}


def uniq(xs):
    return set(xs)


def tup(x):
    return (x,)


def shade(flag):
    return Shade.DARK if flag else Shade.LIGHT


def mode(x):
    return _Mode.HIGH if x > 10 else _Mode.LOW


def check(x):
    """Check.

    Raises:
        AppError: if negative
        ValueError: if zero
    """
    if x < 0:
        raise AppError("neg")
    if x == 0:
        raise ValueError("zero")
    return x


def nested_fail():
    raise Box.Inner("inner")


def local_fail():
    class Local(KeyError):
        pass

    raise Local("k")


def mk_box(v):
    return Box(v)


def gen(n):
    return (i for i in range(n))


def quit_(code):
    raise SystemExit(code)


def cplx(x):
    return complex(x, -0.0)


def parse(s):
    return json.loads(s)


def invdec(x):
    return float(decimal.Decimal(1) / decimal.Decimal(x))


def hidden_fail():
    raise _HiddenError("h")


def hidden_sub_fail():
    raise _HiddenSub("hs")


def veiled_fail():
    raise Box._Veiled("v")


def aux_fail(flag):
    """Fail with a class of another module.

    Raises:
        AuxError: if flag
        _AuxHidden: if not flag
    """
    raise c18aux.AuxError("a") if flag else c18aux._AuxHidden("h")


def aux_deep_fail(flag):
    raise c18aux.Holder.Deep("d") if flag else c18aux.make_local()("l")


def tint(flag):
    return Tint.WARM if flag else Tint.COLD


def tints(n):
    return [Tint.WARM, Tint.COLD, Tint.WARM][: n % 4]


def tint_of(shade_):
    return {"tint": Tint.COLD if shade_ is Shade.DARK else Tint.WARM}


def safety(flag):
    return SafeUUID.safe if flag else SafeUUID.unknown


def guard(x):
    """Pass small numbers through.

    Raises:
        _HiddenError: if x is large
    """
    if x > 5:
        raise _HiddenError(x)
    return x
'''

# a second module, NOT under test: exception classes the module under test raises but does not define
AUX = '''import enum


class Tint(enum.Enum):
    WARM = "w"
    COLD = "c"


class AuxError(Exception):
    pass


class _AuxHidden(AuxError):
    pass


class Holder:
    class Deep(AuxError):
        pass


def make_local():
    class LocalAux(_AuxHidden):
        pass

    return LocalAux
'''

PRIV = '''class _PErr(Exception):
    pass


def _hidden(x):
    return x * 2.5


def _fail(x):
    raise LookupError(x)


def _pfail(x):
    class _Loc(_PErr):
        pass

    raise _PErr(x) if x > 0 else _Loc(x)
'''

# a module that is deterministic BECAUSE it seeds its generators explicitly (falsy seeds included) or relies on the
# run seed pynguin installs (unseeded generators, the hidden global generator, a module-level generator that is
# reseeded before every test).  pynguin exports such a module with the seed preamble (`seed=<run seed>`).
RND = '''"""Callables drawing from explicitly seeded / run-seeded generators."""
import random

_SHARED = random.Random(0)


class Tok:
    pass


class Nil:
    def __len__(self):
        return 0


def lottery(n):
    rng = random.Random(0)
    return [rng.randrange(1000) for _ in range(n % 5 + 1)]


def pick(s):
    rng = random.Random()
    rng.seed(0)
    return rng.choice(list(s) + ["-", "+", "*"])


def coin():
    return random.Random(0.0).random()


def word():
    return random.Random("").randrange(10 ** 6)


def raw():
    return random.Random(b"").randrange(10 ** 6)


def flag():
    return random.Random(False).randrange(10 ** 6)


def fixed(n):
    return random.Random(42).randrange(10 ** 6) + n % 7


def named():
    return random.Random("abc").random()


def offset():
    return random.Random().randrange(10 ** 6)


def glob0():
    random.seed(0)
    return random.randrange(10 ** 6)


def roll():
    return random.randrange(6)


def shared():
    return _SHARED.randrange(1000)


def by_obj(empty):
    return random.Random(Nil() if empty else Tok()).randrange(10 ** 6)
'''

SUTS = {"aux": AUX, "zoo": ZOO, "priv": PRIV, "rnd": RND}

# name, params (kind per param), declared exceptions, result is a Box?
FUNCS = [
    ("half", ["num"], []), ("ratio", ["num", "num"], ["ZeroDivisionError"]), ("nanval", [], []),
    ("infval", ["bool"], []), ("negzero", [], []), ("shout", ["str"], []), ("split", ["str"], []),
    ("pairs", ["small"], []), ("uniq", ["list"], []), ("tup", ["any"], []), ("shade", ["bool"], []),
    ("mode", ["num"], []), ("check", ["num"], ["AppError", "ValueError"]), ("nested_fail", [], ["Inner"]),
    ("local_fail", [], ["Local"]), ("mk_box", ["num"], []), ("gen", ["small"], []), ("quit_", ["small"], []),
    ("cplx", ["num"], []), ("Box", ["num"], []), ("parse", ["str"], ["JSONDecodeError"]),
    ("invdec", ["any"], ["DivisionByZero", "InvalidOperation"]), ("hidden_fail", [], ["_HiddenError"]),
    ("hidden_sub_fail", [], ["_HiddenSub"]), ("veiled_fail", [], ["_Veiled"]),
    ("aux_fail", ["bool"], ["AuxError", "_AuxHidden"]), ("aux_deep_fail", ["bool"], ["Deep", "LocalAux"]),
    ("guard", ["num"], ["_HiddenError"]),
    ("tint", ["bool"], []), ("tints", ["small"], []), ("tint_of", ["any"], []), ("safety", ["bool"], []),
]
METHODS = [("put", ["num"], ["AppError"]), ("total", [], []), ("get", ["small"], ["IndexError"]), ("boom", [], []),
           ("hide", [], ["_HiddenError"]), ("cap", [], ["_Cap"])]
RND_FUNCS = [("lottery", ["small"], []), ("pick", ["str"], []), ("coin", [], []), ("word", [], []), ("raw", [], []),
             ("flag", [], []), ("fixed", ["small"], []), ("named", [], []), ("offset", [], []), ("glob0", [], []),
             ("roll", [], []), ("shared", [], []), ("by_obj", ["bool"], [])]
# run seeds for the module that uses `random` (pynguin passes `seed=<run seed>` to the writer iff the module does)
RND_SEEDS = [1, 1, 977]
# probe arguments for the emitted / generation-time `seed` patch: python expression, model abstraction
SEED_PROBES = [
    ("None", "none"), ("0", None), ("0.0", None), ("''", None), ("b''", None), ("False", None), ("()", None),
    ("7", None), ("-3", None), ("2.5", None), ("'abc'", None), ("b'x'", None), ("True", None), ("(1, 2)", None),
    ("_Tok()", {"idHashed": {"tyModule": "c18probe", "tyName": "_Tok", "truthy": True}}),
    ("_Nil()", {"idHashed": {"tyModule": "c18probe", "tyName": "_Nil", "truthy": False}}),
]
PRIV_FUNCS = [("_hidden", ["num"], []), ("_fail", ["num"], ["LookupError"]), ("_pfail", ["num"], ["_PErr", "_Loc"])]
# callables that raise a class which is not a builtin: private / nested / function-local classes of the module
# under test, classes of another module (public, private, nested, function-local), a standard-library class
CUSTOM_RAISERS = {"check", "nested_fail", "local_fail", "hidden_fail", "hidden_sub_fail", "veiled_fail", "aux_fail",
                  "aux_deep_fail", "guard", "parse", "invdec", "boom", "hide", "cap", "put", "_pfail"}

BUILTIN_NAMES = set(dir(builtins))


# ---------------------------------------------------------------------------------------------
# Abstraction of a real suite (shared by the in-process adapter and the pipeline subprocess)
# ---------------------------------------------------------------------------------------------
def _obj_json(name, alias, public):
    if name == alias:
        return "sut"
    if name in public:
        return {"sutAttr": {"n": name}}
    if name in BUILTIN_NAMES:
        return {"builtin": {"n": name}}
    # a name the emitted file binds nowhere (e.g. a private class): meant is an attribute of the module
    return {"sutAttr": {"n": name}}


def _loaded_names(code: str):
    out = []
    for n in ast.walk(ast.parse(code)):
        if isinstance(n, ast.Name) and isinstance(n.ctx, ast.Load) and n.id not in out:
            out.append(n.id)
    return out


def _cls_json(c):
    import sys as _s
    owner = _s.modules.get(c.__module__)
    return {"module": c.__module__, "name": c.__name__,
            "resolvable": owner is not None and getattr(owner, c.__name__, None) is c}


def abstract_suite(test_cases, module_name, seed, no_xfail, exc_lists):
    """The model's input for a list of real TestCase objects (BEFORE `write` cleaned them) and the
    per-statement exception types `_per_statement_exceptions` returned during `write`."""
    import importlib
    import libcst as cst
    import pynguin.assertion.assertion as ass
    from pynguin.assertion.assertion_to_ast import assertion_to_cst
    from pynguin.utils.generic.genericaccessibleobject import GenericCallableAccessibleObject
    from pynguin.utils.naming import canonical_module_name, get_module_alias

    alias = get_module_alias(module_name)
    mod = importlib.import_module(module_name)
    public = sorted(n for n in dir(mod) if not n.startswith("_") and n != alias)
    canonical = canonical_module_name(module_name)
    # `import random` in the module under test makes `random` one of its public names; with a seed preamble the
    # emitted `from <sut> import …, random, …` re-binds the name the preamble's `import random` bound to the SAME
    # module object — a no-op the model (one object per binding site) does not need to see
    import random as _stdlib_random
    benign = [n for n in public if seed is not None and n == "random" and getattr(mod, n) is _stdlib_random]
    public = [n for n in public if n not in benign]
    kinds = {ass.FloatAssertion: "float", ass.ObjectAssertion: "object", ass.TypeNameAssertion: "typeName",
             ass.IsInstanceAssertion: "isinstance", ass.CollectionLengthAssertion: "len",
             ass.ExceptionAssertion: "exception"}
    kind_builtin = {"len": "len", "isinstance": "isinstance", "typeName": "type"}
    tests = []
    for tc, excs in zip(test_cases, exc_lists):
        local = {s["bound"] for s in tc if s["bound"]}
        stmts = []
        for s, exc in zip(tc, excs):
            names = _loaded_names(s["code"])
            asserts = []
            for a in s["assertions"]:
                k = kinds[type(a)]
                if k == "exception":
                    asserts.append({"kind": k, "root": None, "valueRefs": []})
                    continue
                root = a.source.split(".")[0]
                code = cst.Module(body=[assertion_to_cst(a)]).code
                vrefs = []
                dropped_kind_builtin = False
                for n in _loaded_names(code):
                    if n == root or n == "pytest" or n in local:
                        continue
                    if n == kind_builtin.get(k) and not dropped_kind_builtin:
                        dropped_kind_builtin = True
                        continue
                    vrefs.append([n, _obj_json(n, alias, public)])
                asserts.append({"kind": k, "root": None if root == alias else root, "valueRefs": vrefs})
            acc = s["accessible"]
            stmts.append({
                "bound": s["bound"], "simpleAssign": s["simple_assign"], "uses": sorted(s["uses"]),
                "reads": [n for n in names if n in local],
                "grefs": [[n, _obj_json(n, alias, public)] for n in names if n not in local],
                "asserts": asserts,
                "acc": sorted(acc.expected_exceptions) if isinstance(acc, GenericCallableAccessibleObject) else None,
                "exc": None if exc is None else [_cls_json(c) for c in exc.__mro__ if c is not object],
            })
        tests.append(stmts)
    return {"sutName": canonical, "pkgRoot": canonical.split(".")[0], "alias": alias, "publicNames": public,
            "seed": seed, "noXfail": bool(no_xfail), "tests": tests, "benignRebinds": benign}


def snapshot_test_case(tc):
    """What the abstraction needs from a real TestCase, taken before `write` mutates it."""
    import libcst as cst
    out = []
    for st in tc.statements():
        node = st.node
        simple = isinstance(node, cst.SimpleStatementLine) and any(
            isinstance(b, cst.Assign) and len(b.targets) == 1 for b in node.body)
        out.append({"code": cst.Module(body=[node]).code, "bound": st.bound_variable, "simple_assign": simple,
                    "uses": set(st.used_variables()), "assertions": list(st.assertions),
                    "accessible": st.accessible})
    return out


def observed_write(writer, suite, module_name, out_dir, **kw):
    """Run the real `write`, recording what `_per_statement_exceptions` returned per test case."""
    snaps = [snapshot_test_case(c.test_case) for c in suite.test_case_chromosomes]
    rec = []
    orig = type(writer)._per_statement_exceptions

    def spy(self, tc, *a, **k):
        r = orig(self, tc, *a, **k)
        rec.append(list(r))
        return r
    type(writer)._per_statement_exceptions = spy
    try:
        path = writer.write(suite, module_name, out_dir, **kw)
    finally:
        type(writer)._per_statement_exceptions = orig
    return path, abstract_suite(snaps, module_name, kw.get("seed"), writer._no_xfail, rec)


# ---------------------------------------------------------------------------------------------
# Reading an emitted file back
# ---------------------------------------------------------------------------------------------
def _assert_kind(node: ast.Assert) -> str:
    t = node.test
    if isinstance(t, ast.Call) and isinstance(t.func, ast.Name) and t.func.id == "isinstance":
        return "isinstance"
    if isinstance(t, ast.Compare):
        left, right = t.left, t.comparators[0]
        if isinstance(right, ast.Call) and isinstance(right.func, ast.Attribute) and right.func.attr == "approx":
            return "float"
        if isinstance(left, ast.JoinedStr):
            return "typeName"
        if isinstance(left, ast.Call) and isinstance(left.func, ast.Name) and left.func.id == "len":
            return "len"
        return "object"
    return "other"


def _bound_of(node):
    if isinstance(node, ast.Assign) and len(node.targets) == 1 and isinstance(node.targets[0], ast.Name):
        return node.targets[0].id
    return None


def _is_xfail(dec):
    return (isinstance(dec, ast.Call) and isinstance(dec.func, ast.Attribute) and dec.func.attr == "xfail"
            and any(k.arg == "strict" and isinstance(k.value, ast.Constant) and k.value.value is True
                    for k in dec.keywords))


def parse_emitted(text: str):
    """Structure of the emitted file + the static scoping facts the oracle needs."""
    try:
        tree = ast.parse(text)
        compile(text, "<emitted>", "exec")
    except SyntaxError as e:
        return {"syntax_error": str(e)}
    names, fns, unbound = [], [], []
    for node in tree.body:
        if isinstance(node, ast.Import):
            names += [(a.asname or a.name.split(".")[0]) for a in node.names]
        elif isinstance(node, ast.ImportFrom):
            names += [(a.asname or a.name) for a in node.names]
        elif isinstance(node, ast.Assign):
            names += [t.id for t in node.targets if isinstance(t, ast.Name)]
        elif isinstance(node, ast.FunctionDef):
            names.append(node.name)
    module_names = set(names)
    for node in tree.body:
        if isinstance(node, ast.If):   # the seed patch block: conditional helper names
            for sub in ast.walk(node):
                if isinstance(sub, ast.Name) and isinstance(sub.ctx, ast.Store):
                    module_names.add(sub.id)
                elif isinstance(sub, ast.FunctionDef):
                    module_names.add(sub.name)
    for node in tree.body:
        if not (isinstance(node, ast.FunctionDef) and node.name.startswith("test_")):
            continue
        items = []
        assigned: set[str] = set()

        def check(sub_root, assigned_now, where):
            # comprehension / lambda parameters are local to the expression
            inner = {n.id for n in ast.walk(sub_root) if isinstance(n, ast.Name) and isinstance(n.ctx, ast.Store)}
            inner |= {a.arg for n in ast.walk(sub_root) if isinstance(n, ast.arguments)
                      for a in n.args + n.kwonlyargs + ([n.vararg] if n.vararg else []) + ([n.kwarg] if n.kwarg else [])}
            for n in ast.walk(sub_root):
                if isinstance(n, ast.Name) and isinstance(n.ctx, ast.Load):
                    if n.id in assigned_now or n.id in module_names or n.id in BUILTIN_NAMES or n.id in inner:
                        continue
                    # where: decorator | raises (the `with pytest.raises(<class>)` header) | statement | assert
                    unbound.append([node.name, n.id, where])
        for dec in node.decorator_list:
            check(dec, set(), "decorator")
        for st in node.body:
            if isinstance(st, ast.Pass):
                continue
            if isinstance(st, ast.With):
                call = st.items[0].context_expr
                exc = call.args[0].id if isinstance(call, ast.Call) and call.args and isinstance(call.args[0], ast.Name) else "?"
                inner_bound = _bound_of(st.body[0]) if st.body else None
                items.append(["raises", exc, inner_bound])
                check(call, assigned, "raises")
                for b in st.body:
                    check(b.value if isinstance(b, (ast.Assign, ast.Expr)) else b, assigned, "statement")
                    if _bound_of(b):
                        assigned.add(_bound_of(b))
            elif isinstance(st, ast.Assert):
                items.append(["assert", _assert_kind(st)])
                check(st, assigned, "assert")
            else:
                items.append(["bare", _bound_of(st)])
                check(st.value if isinstance(st, (ast.Assign, ast.Expr)) else st, assigned, "statement")
                if _bound_of(st):
                    assigned.add(_bound_of(st))
        fns.append({"name": node.name, "xfail": any(_is_xfail(d) for d in node.decorator_list), "items": items})
    return {"names": names, "fns": fns, "unbound": unbound,
            "needs_pytest": any(isinstance(n, ast.Import) and any(a.name == "pytest" for a in n.names)
                                for n in tree.body)}


def run_pytest(root: Path, targets: list[str], pythonpath: list[str], importlib_mode: bool):
    """Run pytest in a fresh interpreter; returns {classname: {test: outcome}}, {file: collect error}."""
    junit = root / "junit.xml"
    env = dict(os.environ)
    env["PYTHONPATH"] = os.pathsep.join(pythonpath)          # the ORIGINAL, uninstrumented modules
    env.pop("PYNGUIN_DANGER_AWARE", None)
    env["PYTHONHASHSEED"] = "0"
    cmd = [vcommon.PY, "-m", "pytest", "-q", "-p", "no:cacheprovider", "-p", "no:randomly", f"--junitxml={junit}",
           "--rootdir", str(root), "-o", "junit_family=xunit1", "--tb=line", "--continue-on-collection-errors"]
    if importlib_mode:
        cmd.append("--import-mode=importlib")
    r = subprocess.run(cmd + targets, cwd=str(root), env=env, capture_output=True, text=True, timeout=900)
    if not junit.exists():
        raise RuntimeError(f"pytest produced no report (rc {r.returncode}): {r.stdout[-600:]} {r.stderr[-600:]}")
    res: dict[str, dict[str, str]] = {}
    errs: dict[str, str] = {}
    for tc in ET.parse(junit).getroot().iter("testcase"):
        cls, name = tc.get("classname") or "", tc.get("name")
        kids = {c.tag: c for c in tc}
        if "error" in kids and (not name or not name.startswith("test_") or "collection" in (kids["error"].get("message") or "")):
            errs[cls or name] = (kids["error"].get("message") or "") + " " + (kids["error"].text or "")[-400:]
            continue
        if "failure" in kids:
            out = "failed: " + (kids["failure"].get("message") or "")[:200]
        elif "error" in kids:
            out = "error: " + (kids["error"].get("message") or "")[:200]
        elif "skipped" in kids:
            out = "xfailed" if "xfail" in (kids["skipped"].get("type") or "") else "skipped"
        else:
            out = "passed"
        res.setdefault(cls, {})[name] = out
    junit.unlink()
    return res, errs


# ---------------------------------------------------------------------------------------------
# Pipeline subprocess mode: `C18_PIPELINE_OUT=<json> python c18.py <pynguin args…>`
# ---------------------------------------------------------------------------------------------
def pipeline_runner():
    vcommon.use_repo_sources()
    out = os.environ["C18_PIPELINE_OUT"]
    import pynguin.testcase.export as export
    captured = []
    orig_write = export.TestSuiteWriter.write

    def patched(self, suite, module_name, output_path, project_path=None, **kw):
        if project_path and project_path not in sys.path:
            sys.path.insert(0, project_path)
        snaps = [snapshot_test_case(c.test_case) for c in suite.test_case_chromosomes]
        rec = []
        orig_pse = export.TestSuiteWriter._per_statement_exceptions

        def spy(self2, tc, *a, **k):
            r = orig_pse(self2, tc, *a, **k)
            rec.append(list(r))
            return r
        export.TestSuiteWriter._per_statement_exceptions = spy
        try:
            path = orig_write(self, suite, module_name, output_path, project_path, **kw)
        finally:
            export.TestSuiteWriter._per_statement_exceptions = orig_pse
        captured.append({"file": str(path),
                         "suite": abstract_suite(snaps, module_name, kw.get("seed"), self._no_xfail, rec)})
        return path
    export.TestSuiteWriter.write = patched
    import pynguin.cli as cli
    rc = cli.main(["pynguin", *sys.argv[1:]])
    Path(out).write_text(json.dumps({"rc": int(rc), "captured": captured}))
    sys.exit(0)


PIPE_SUTS = {
    "numeric": '''def clamp(x: int, lo: int, hi: int) -> int:
    if lo > hi:
        raise ValueError("empty range")
    return max(lo, min(x, hi))


def mean(a: float, b: float) -> float:
    return (a + b) / 2.0


def scale(x: float, k: int) -> float:
    return mean(x, x) * k


def sign(x: int) -> int:
    if x < 0:
        return -1
    return 1 if x > 0 else 0
''',
    "strings": '''def initials(name: str) -> str:
    return "".join(p[0].upper() for p in name.split() if p)


def repeat(s: str, n: int) -> str:
    if n < 0:
        raise ValueError("negative")
    return s * (n % 4)


def is_palindrome(s: str) -> bool:
    t = [c.lower() for c in s if c.isalnum()]
    return t == t[::-1]


def join(a: str, b: str) -> str:
    return initials(a) + repeat(b, 2)
''',
    "containers": '''def evens(xs: list[int]) -> list[int]:
    return [x for x in xs if x % 2 == 0]


def index_of(xs: list[int], x: int) -> int:
    return xs.index(x)


def histogram(xs: list[int]) -> dict[int, int]:
    out: dict[int, int] = {}
    for x in xs:
        out[x] = out.get(x, 0) + 1
    return out


def size(d: dict[int, int]) -> int:
    return len(d)


def head(xs: list[int]) -> tuple[int, int]:
    return (xs[0], len(xs))
''',
    "classstate": '''class Counter:
    step: int = 1

    def __init__(self, start: int = 0):
        self.value = start
        self.history: list[int] = []

    def inc(self) -> int:
        self.value += Counter.step
        self.history.append(self.value)
        return self.value

    def reset(self) -> None:
        if not self.history:
            raise RuntimeError("nothing to reset")
        self.value = 0
        self.history = []

    def mean(self) -> float:
        return sum(self.history) / len(self.history)


def bump(c: Counter, n: int) -> Counter:
    for _ in range(n % 3):
        c.inc()
    return c
''',
    "enums": '''import enum


class Shade(enum.Enum):
    DARK = "d"
    LIGHT = "l"


class _Mode(enum.Enum):
    LOW = 1
    HIGH = 2


def shade(flag: bool) -> Shade:
    return Shade.DARK if flag else Shade.LIGHT


def invert(s: Shade) -> Shade:
    return Shade.LIGHT if s is Shade.DARK else Shade.DARK


def mode(x: int) -> _Mode:
    return _Mode.HIGH if x > 10 else _Mode.LOW


def describe(m: _Mode) -> str:
    return m.name.lower()
''',
    "stack": '''class Empty(Exception):
    pass


class _Full(Exception):
    pass


class Stack:
    class Sealed(Empty):
        pass

    def __init__(self, capacity: int = 1):
        self._capacity = capacity % 3
        self._items: list[int] = []

    def push(self, item: int) -> int:
        """Push an item.

        Raises:
            _Full: if the stack holds `capacity` items
        """
        if len(self._items) >= self._capacity:
            raise _Full(self._capacity)
        self._items.append(item)
        return len(self._items)

    def pop(self) -> int:
        """Pop an item.

        Raises:
            Empty: if there is none
        """
        if not self._items:
            raise Empty()
        return self._items.pop()

    def seal(self) -> None:
        raise Stack.Sealed()


def drain(stack: Stack) -> int:
    """Pop twice.

    Raises:
        Empty: if fewer than two items
    """
    return stack.pop() + stack.pop()


def overfill(n: int) -> int:
    """Push onto a stack without room.

    Raises:
        _Full: always
    """
    return Stack(0).push(n)
''',
    "floats": '''import math


def half(x: int) -> float:
    return x / 2.0


def area(r: float) -> float:
    if r < 0:
        raise ValueError("negative radius")
    return math.pi * r * r


def hyp(a: float, b: float) -> float:
    return math.sqrt(a * a + b * b)


def ratio(a: float, b: float) -> float:
    return half(1) * a / b
''',
}


class C18(PropertyCheck):
    prop_id = "C18"
    level = "proof"
    prop_modules = ["PynguinModel.Props.C18"]
    extra_modules = ["PynguinModel.Model.ExportImports", "PynguinModel.Model.SeedPatch"]
    driver = "Driver/C18.lean"
    n_quick = 20
    n_thorough = 700
    n_search = 400
    n_runs_quick = 2
    n_runs_thorough = 18
    rule = ("random suites (1-4 test cases of 1-6 statements over 2 fixed deterministic modules: literals, "
            "function/constructor/method calls on earlier values, bare public names; a third of the calls go to "
            "callables raising non-builtin classes: public / PRIVATE / nested / function-local classes of the "
            "module under test, public / private / nested / local classes of ANOTHER module, stdlib classes; "
            "declared / undeclared / no accessible; float/object/isinstance/type-name/length assertions "
            "from observed values) x seed in {None,1} x no_xfail (40 %) x black; every emitted file is run with "
            "pytest in a fresh interpreter; plus real pipeline runs (one of the quick runs is on a module with "
            "its own public, private and nested exception classes; --no-xfail alternates); non-trivial = the "
            "emitted file has an assertion, a pytest.raises wrapper or an xfail marker")
    assumptions = [
        "module under test deterministic and free of module-level mutable state (the synthetic modules and the "
        "pipeline corpus are); its public names do not rebind pytest/sys/random or builtins used by assertions",
        "pytest's verdicts are taken from its junit report; synthetic files of one seed value share one pytest "
        "process (--import-mode=importlib), pipeline files get one process each (default import mode)",
        "assertions handed to the writer verified in an executor-like namespace (as pynguin's filter does)",
    ]
    trusted_base_extra = ["ast-based reading of the emitted file; pytest junit report parsing"]

    def __init__(self, tier, seed):
        super().__init__(tier, seed)
        self._tmp = None
        self._jobs = {}          # job id -> impl output dict (filled by _flush)
        self._pending = []
        self._abs = {}           # case id -> model input
        self._next = 0
        self._placeholders = None
        self._real = {}          # run index -> (observation, suite abstraction)
        self._real_done = False
        self._real_io = {}
        self.real_runs = 0
        self._mods = {}
        self._gen_patch = None   # the function generator._patch_random installed (kept: it owns the tracked set)
        self._gen_probe = {}

    # -- scratch -------------------------------------------------------------------------------
    def _scratch(self) -> Path:
        if self._tmp is None:
            self._tmp = Path(tempfile.mkdtemp(prefix="c18-"))
            import atexit
            atexit.register(shutil.rmtree, str(self._tmp), True)
            (self._tmp / "sut").mkdir()
            for name, src in SUTS.items():
                (self._tmp / "sut" / f"c18{name}.py").write_text(src)
            sys.path.insert(0, str(self._tmp / "sut"))
        return self._tmp

    def _module(self, short):
        import importlib
        self._scratch()
        return importlib.import_module("c18" + short)

    # -- generation ----------------------------------------------------------------------------
    def _literal(self, rng, kind):
        if kind == "any":
            kind = rng.choice(["num", "str", "list", "bool", "small"])
        if kind == "num":
            return rng.choice(["0", "1", "-3", "7", "12", "2.5", "-0.5", "1e3", "0.0"])
        if kind == "small":
            return rng.choice(["0", "1", "2", "3", "7"])
        if kind == "bool":
            return rng.choice(["True", "False"])
        if kind == "str":
            return rng.choice(["'a,b'", "''", "'xyz'", "\"it's\"", "'é,ü'", "'[1, 2]'"])
        return rng.choice(["[]", "[1, 2, 2]", "[3]", "['a', 1]"])

    def gen_case(self, rng):
        r0 = rng.random()
        mod = "priv" if r0 < 0.1 else "rnd" if r0 < 0.3 else "zoo"
        alias = f"c18{mod}_"
        tests = []
        for _ in range(rng.choice([1, 1, 2, 2, 3, 4])):
            stmts, vars_, boxes = [], [], []
            for _ in range(rng.randint(1, 6)):
                i = len(stmts)
                r = rng.random()
                if r < 0.15:
                    src, fn, declared = self._literal(rng, "any"), None, None
                else:
                    def arg(kind):
                        if vars_ and rng.random() < 0.55:
                            return rng.choice(vars_)
                        return self._literal(rng, kind)
                    # a third of the calls go to callables raising a non-builtin exception class
                    custom = rng.random() < 0.33
                    if mod == "zoo" and boxes and rng.random() < 0.35:
                        name, params, declared = rng.choice(
                            [m for m in METHODS if m[0] in CUSTOM_RAISERS] if custom else METHODS)
                        src = f"{rng.choice(boxes)}.{name}({', '.join(arg(k) for k in params)})"
                        fn = ["Box", name]
                    else:
                        pool = {"zoo": FUNCS, "priv": PRIV_FUNCS, "rnd": RND_FUNCS}[mod]
                        name, params, declared = rng.choice(
                            [f for f in pool if f[0] in CUSTOM_RAISERS] if custom and mod != "rnd" else pool)
                        prefix = "" if (mod == "zoo" and rng.random() < 0.1) else alias + "."
                        src = f"{prefix}{name}({', '.join(arg(k) for k in params)})"
                        fn = [name]
                bind = rng.random() < 0.8
                var = f"var_{i}"
                # how much the accessible declares: all documented, none, or no accessible at all
                decl_mode = rng.choice(["declared", "declared", "none", "noacc"])
                stmts.append({"src": (f"{var} = {src}" if bind else src), "bound": var if bind else None,
                              "fn": fn, "declared": declared if decl_mode == "declared" else
                              ([] if decl_mode == "none" else None)})
                if bind:
                    vars_.append(var)
                    if fn in (["mk_box"], ["Box"]):
                        boxes.append(var)
            tests.append(stmts)
        seed = rng.choice([None, None, None, 1, 1])
        if mod == "rnd":            # a module using `random` is always exported with the (non-zero) run seed
            seed = rng.choice(RND_SEEDS)
        return {"mod": mod, "seed": seed, "no_xfail": rng.random() < 0.4,
                "black": rng.random() < 0.5, "assert_mode": rng.choice(["all", "all", "half", "none"]),
                "salt": rng.randint(0, 10 ** 6), "tests": tests}

    # -- building real objects -------------------------------------------------------------------
    def _assertions_for(self, value, source, module_name, ns):
        """Mirror of RemoteAssertionTraceObserver._check_value (+ the verification filter)."""
        import copy
        from collections.abc import Sized
        import libcst as cst
        import pynguin.assertion.assertion as ass
        import pynguin.assertion.assertiontraceobserver as ato
        import pynguin.configuration as config
        from pynguin.assertion.assertion_to_ast import assertion_to_cst
        from pynguin.utils.type_utils import is_assertable
        config.configuration.module_name = module_name
        out = []
        if isinstance(value, float):
            out.append(ass.FloatAssertion(source, value))
        elif is_assertable(value):
            out.append(ass.ObjectAssertion(source, copy.deepcopy(value)))
        else:
            typ = type(value)
            if ato.RemoteAssertionTraceObserver._is_type_importable(typ):
                out.append(ass.IsInstanceAssertion(source, typ.__module__, typ.__qualname__))
            else:
                out.append(ass.TypeNameAssertion(source, typ.__module__, typ.__qualname__))
            if isinstance(value, Sized):
                out.append(ass.CollectionLengthAssertion(source, len(value)))
            elif hasattr(value, "__dict__"):
                for field, fv in vars(value).items():
                    if field.startswith("_") or callable(fv):
                        continue
                    if isinstance(fv, float):
                        out.append(ass.FloatAssertion(f"{source}.{field}", fv))
                    elif is_assertable(fv):
                        out.append(ass.ObjectAssertion(f"{source}.{field}", copy.deepcopy(fv)))
        kept = []
        for a in out:
            try:
                code = cst.Module(body=[assertion_to_cst(a)]).code
                exec(compile(code, "<assertion>", "exec"), ns)   # noqa: S102 - pynguin's filter does the same
                kept.append(a)
            except Exception:   # noqa: BLE001 - a non-holding / non-renderable assertion is filtered out
                self.count("assertion-filtered")
        return kept

    def _build_suite(self, case):
        import random as _random
        import libcst as cst
        import pytest
        import pynguin.ga.testcasechromosome as tcc
        import pynguin.ga.testsuitechromosome as tsc
        import pynguin.testcase.testcase as tcm
        from pynguin.utils.generic.genericaccessibleobject import GenericFunction
        mod = self._module(case["mod"])
        module_name = mod.__name__
        alias = module_name + "_"
        arng = self._arng      # created by `_impl` OUTSIDE the generation-time patch window
        suite = tsc.TestSuiteChromosome()
        for stmts in case["tests"]:
            tc = tcm.TestCase()
            if case["mod"] == "rnd":
                # what the executor does before every test-case execution (real code; inside the patch window)
                from pynguin.testcase.execution_isolation import _make_deterministic
                _make_deterministic()
            ns = {"__builtins__": builtins, "pytest": pytest}
            ns.update(vars(mod))
            ns[alias] = mod
            for s in stmts:
                acc = None
                if s["declared"] is not None:
                    target = mod
                    for part in s["fn"] or []:
                        target = getattr(target, part, None)
                    acc = GenericFunction(target, None, set(s["declared"]), (s["fn"] or ["lit"])[-1])
                st = tcm.Statement(node=cst.parse_statement(s["src"]), bound_variable=s["bound"], accessible=acc)
                raised = False
                try:
                    exec(compile(s["src"], "<stmt>", "exec"), ns)   # noqa: S102
                except BaseException:   # noqa: BLE001 - SystemExit included, as in the exporter
                    raised = True
                if not raised and s["bound"] and case["assert_mode"] != "none":
                    if case["assert_mode"] == "all" or arng.random() < 0.5:
                        st.assertions.extend(self._assertions_for(ns[s["bound"]], s["bound"], module_name, ns))
                tc.add_statement(st)
            suite.add_test_case_chromosome(tcc.TestCaseChromosome(tc))
        return suite, module_name

    # -- `random` the way a generation run sees it ------------------------------------------------
    def _generation_time_random(self, case):
        """For the module that uses `random`: install pynguin's REAL generation-time patch
        (`generator._patch_random`, run seed = the case's seed) for the duration of suite building and export —
        a generation run has it installed from before the import of the module under test until the end — and
        restore the interpreter's `random` afterwards (the harness's own generators are never touched: they
        are created outside the window, so the patch does not track them)."""
        import contextlib
        import random as _random

        @contextlib.contextmanager
        def window():
            import pynguin.configuration as config
            import pynguin.generator as gen
            real, state, old = _random.Random.seed, _random.getstate(), config.configuration.seeding.seed
            config.configuration.seeding.seed = case["seed"]
            if self._gen_patch is None:
                gen._patch_random()
                self._gen_patch = _random.Random.seed
                assert getattr(self._gen_patch, "__pynguin_patched__", False)
            else:
                _random.Random.seed = self._gen_patch      # the same closure: keeps its tracked instances
            try:
                yield
            finally:
                _random.Random.seed = real
                _random.setstate(state)
                config.configuration.seeding.seed = old
        return window() if case["mod"] == "rnd" else contextlib.nullcontext()

    @staticmethod
    def _probe_namespace():
        tok = type("_Tok", (), {"__module__": "c18probe"})
        nil = type("_Nil", (), {"__module__": "c18probe", "__len__": lambda self: 0})
        return {"_Tok": tok, "_Nil": nil}

    @staticmethod
    def _eff(x):
        # what reached the original `seed`: a value (by repr) or the '<module>.<name>' string of an id-hashed type
        if isinstance(x, str) and x.startswith("c18probe."):
            return {"ty": x}
        return {"val": repr(x)}

    def _probe_emitted_seed(self, text):
        """Run the `_pynguin_deterministic_seed` function of the emitted file on the probe arguments with a
        recording stand-in for the original `random.Random.seed`."""
        fn = next((n for n in ast.walk(ast.parse(text))
                   if isinstance(n, ast.FunctionDef) and n.name == "_pynguin_deterministic_seed"), None)
        if fn is None:
            return None
        got = []
        ns = {"_pynguin_orig_seed": lambda self, x=None: got.append(x), "_pynguin_tracked": set()}
        exec(compile(ast.Module(body=[fn], type_ignores=[]), "<emitted-seed-patch>", "exec"), ns)   # noqa: S102
        out = []
        for expr, _ in SEED_PROBES:
            got.clear()
            try:
                ns["_pynguin_deterministic_seed"](object(), eval(expr, self._probe_namespace()))   # noqa: S307
                out.append(self._eff(got[0]) if len(got) == 1 else {"calls": len(got)})
            except Exception as e:   # noqa: BLE001 - reported as the probe's outcome
                out.append({"err": type(e).__name__})
        return out

    def _probe_generation_seed(self, seed):
        """The same probes through the function `generator._patch_random` installs (run seed from the config)."""
        if seed in self._gen_probe:
            return self._gen_probe[seed]
        import random as _random
        import pynguin.configuration as config
        import pynguin.generator as gen
        got = []
        real, old = _random.Random.seed, config.configuration.seeding.seed

        def recorder(self, x=None):
            got.append(x)
        try:
            _random.Random.seed = recorder          # becomes the patch's `orig_random_seed`
            gen._patch_random()
            patched = _random.Random.seed
        finally:
            _random.Random.seed = real
        if patched is recorder:
            raise RuntimeError("generator._patch_random did not install a patch")
        holder = type("_Self", (), {})
        out = []
        config.configuration.seeding.seed = seed
        try:
            for expr, _ in SEED_PROBES:
                got.clear()
                try:
                    patched(holder(), eval(expr, self._probe_namespace()))   # noqa: S307
                    out.append(self._eff(got[0]) if len(got) == 1 else {"calls": len(got)})
                except Exception as e:   # noqa: BLE001
                    out.append({"err": type(e).__name__})
        finally:
            config.configuration.seeding.seed = old
        self._gen_probe[seed] = out
        return out

    # -- the real thing --------------------------------------------------------------------------
    def _timed(self, key, t0):
        import time
        ph = self.extra_coverage.setdefault("phase_s", {})
        ph[key] = round(ph.get(key, 0.0) + time.time() - t0, 2)

    def impl(self, case):
        import time
        t0 = time.time()
        try:
            return self._impl(case)
        finally:
            self._timed("writer+suite-building", t0)

    def _impl(self, case):
        if "real_run" in case:
            io = {"lazy": case["real_run"]}
            self._real_io[case["real_run"]] = io
            return io
        import pynguin.testcase.export as export
        cid = self._next
        self._next += 1
        self.count("mod:" + case["mod"])
        self.count(f"seed:{case['seed']}")
        self.count(f"no_xfail:{case['no_xfail']}")
        root = self._scratch() / "batch"
        out_dir = root / f"k{cid}"
        writer = export.TestSuiteWriter(no_xfail=case["no_xfail"])
        self._arng = __import__("random").Random(case["salt"])
        with self._generation_time_random(case):
            suite, module_name = self._build_suite(case)
            path, abstraction = observed_write(writer, suite, module_name, out_dir,
                                               project_path=str(self._scratch() / "sut"),
                                               format_with_black=case["black"], seed=case["seed"])
        text = Path(path).read_text()
        io = {"cid": cid, "file": text, "parsed": parse_emitted(text), "pytest": None, "collect_error": None,
              "seed_eff": None}
        if case["seed"] is not None:
            io["seed_eff"] = {"export": self._probe_emitted_seed(text), "gen": self._probe_generation_seed(case["seed"])}
            abstraction["seedProbes"] = [m if m is not None else
                                         {"value": {"v": {"repr": repr(eval(e)), "truthy": bool(eval(e))}}}  # noqa: S307
                                         for e, m in SEED_PROBES]
            self.count("seed-preamble-probed")
        self._abs[cid] = abstraction
        case["_cid"] = cid
        self._pending.append((case["seed"], f"k{cid}", Path(path).name, io))
        return io

    def _flush(self):
        import time
        if self._real_io:
            t0 = time.time()
            self._collect_pipelines()
            self._timed("waiting-for-pipeline-runs+their-pytest", t0)
            for i, io in self._real_io.items():
                if "lazy" in io:
                    del io["lazy"]
                    io.update(self._real[i][0] if i in self._real else {"skipped": True})
        if not self._pending:
            return
        pending, self._pending = self._pending, []
        root = self._scratch() / "batch"
        t0 = time.time()
        for seed in sorted({p[0] for p in pending}, key=str):
            group = [p for p in pending if p[0] == seed]
            res, errs = run_pytest(root, [g[1] for g in group], [str(self._scratch() / "sut")], True)
            for _, d, fname, io in group:
                cls = f"{d}.{fname[:-3]}"
                io["pytest"] = res.get(cls, {})
                ce = [v for k, v in errs.items() if k.startswith(d + ".") or k == d or d + "/" in k or k == cls]
                io["collect_error"] = ce[0] if ce else None
                if not ce and not io["pytest"] and "syntax_error" not in io["parsed"]:
                    raise RuntimeError(f"pytest reported nothing for {cls}: {sorted(res)[:5]} {sorted(errs)[:5]}")
            self.count("pytest-processes")
        for _, d, _, _ in pending:
            shutil.rmtree(root / d, ignore_errors=True)
        self._timed("pytest-on-synthetic-files", t0)

    # -- model side ------------------------------------------------------------------------------
    def model_line(self, case):
        if "real_run" in case:
            import time
            t0 = time.time()
            self._collect_pipelines()
            self._timed("waiting-for-pipeline-runs+their-pytest", t0)
            return vcommon.jdump(self._real[case["real_run"]][1]) if case["real_run"] in self._real else None
        if case.get("_cid") not in self._abs:
            self.impl(case)
        return vcommon.jdump(self._abs[case["_cid"]])

    def compare(self, case, io, mo):
        self._flush()
        if io.get("skipped"):
            return True
        if "bad-op" in mo or "unparsable" in mo:
            return False
        p = io["parsed"]
        if "syntax_error" in p:
            return False
        ab = (self._real.get(case["real_run"], (None, {}))[1] if "real_run" in case
              else self._abs.get(case.get("_cid"), {}))
        names = list(p["names"])
        for n in ab.get("benignRebinds", []):      # drop the re-binding (second occurrence) of `random`
            idx = [i for i, x in enumerate(names) if x == n]
            if len(idx) != 2:
                return False
            del names[idx[1]]
        if mo["needs_pytest"] != p["needs_pytest"] or mo["names"] != names:
            return False
        if [[f["xfail"], f["items"]] for f in mo["fns"]] != \
                [[f["xfail"], f["items"]] for f in p["fns"] if f["name"] != "test_empty"]:
            return False
        # names level: which class every `pytest.raises(...)` names and whether the file binds that name;
        # the model's verdict "every global name resolves" against the static reading of the emitted file
        mod_names = set(names)
        got_raises = [[[it[1], it[1] in mod_names or it[1] in BUILTIN_NAMES] for it in f["items"] if it[0] == "raises"]
                      for f in p["fns"] if f["name"] != "test_empty"]
        if [[[c[0], c[2]] for c in f] for f in mo["raises_classes"]] != got_raises:
            return False
        if mo["names_ok"] != (not [u for u in p["unbound"] if not u[1].startswith("var_")]):
            return False
        # seed preamble: what the emitted `seed` patch and the generation-time patch hand the original `seed`
        # for every probe argument (None, falsy and truthy values, identity-hashed objects)
        if io.get("seed_eff") is not None and io["seed_eff"] != mo.get("seed_eff"):
            return False
        if mo["report"] is None or not mo["imports_ok"]:
            return io["collect_error"] is not None
        if io["collect_error"] is not None:
            return False
        got = [(io["pytest"] or {}).get(f["name"], "missing").split(":")[0] for f in p["fns"] if f["name"] != "test_empty"]
        return got == mo["report"]

    # -- the property on the implementation's behaviour ------------------------------------------
    def oracle(self, case, io):
        self._flush()
        fs = []
        if io.get("skipped"):
            return fs
        p = io["parsed"]
        if "syntax_error" in p:
            return [Failure({"class": "not-valid-python"}, f"emitted file does not compile: {p['syntax_error']}",
                            detail=io["file"])]
        for fn, name, where in p["unbound"]:
            kind = ("pytest" if name == "pytest" else "private-sut-name" if name.startswith("_")
                    else "local" if name.startswith("var_") else "other")
            sig = {"class": "unbound-name", "kind": kind}
            if not (kind == "private-sut-name" and where == "assert"):
                # the place of the read is part of the signature: only a private name inside a rendered
                # ASSERTION VALUE is the recorded finding; a class named by `pytest.raises(...)`, a name in a
                # statement or in a decorator that the file does not bind is a different violation
                sig["where"] = where
            fs.append(Failure(sig, f"{fn} reads `{name}` ({where}), which the emitted file neither imports nor "
                                   f"assigns", detail=io["file"]))
        if io["collect_error"] is not None:
            ce = io["collect_error"]
            kind = "ImportError" if "ImportError" in ce else "NameError" if "NameError" in ce else "other"
            fs.append(Failure({"class": "does-not-import-cleanly", "error": kind},
                              f"pytest cannot import the emitted file: {ce[:300]}", detail=io["file"]))
            return fs
        for f in p["fns"]:
            got = (io["pytest"] or {}).get(f["name"], "missing")
            want = "xfailed" if f["xfail"] else "passed"
            if got != want:
                err = got.split(":")[1].strip().split("(")[0].split(" ")[0] if ":" in got else got
                static = [(n, w) for fn, n, w in p["unbound"] if fn == f["name"]]
                if not static:
                    cause = "xpass-strict" if f["xfail"] else "fails"
                elif any(n == "pytest" for n, _ in static):
                    cause = "unbound-pytest"
                elif any(w == "raises" for _, w in static):
                    cause = "unbound-exception-class"       # `with pytest.raises(<class>)`, class not imported
                elif any(n.startswith("_") and w != "assert" for n, w in static):
                    cause = "unbound-private-name-in-" + next(w for n, w in static if n.startswith("_") and w != "assert")
                elif any(n.startswith("_") for n, _ in static):
                    cause = "unbound-private-sut-name"      # only inside assertion values: the recorded finding
                else:
                    cause = "unbound-name"
                fs.append(Failure({"class": "test-outcome", "want": want, "cause": cause},
                                  f"{f['name']} (xfail={f['xfail']}) is reported `{got}`, expected `{want}`",
                                  detail={"file": io["file"], "error": err}))
        return fs

    def classify(self, case, io):
        self._flush()
        if io.get("skipped"):
            return None
        p = io["parsed"]
        if "syntax_error" in p:
            return None
        interesting = any(f["xfail"] or any(i[0] != "bare" for i in f["items"]) for f in p["fns"])
        for f in p["fns"]:
            for it in f["items"]:
                self.count("item:" + it[0] + (":" + it[1] if it[0] == "assert" else ""))
            self.count("fn:xfail" if f["xfail"] else "fn:plain")
        return io["file"] if interesting else None

    # -- real pipeline runs (placeholders in the corpus; collected lazily so they overlap the synthetic work)
    def _start_pipelines(self):
        n = self.n_runs_quick if self.tier == "quick" else self.n_runs_thorough
        n = int(os.environ.get("VERIF_RUNS", n))
        rng = __import__("random").Random(self.seed * 7919 + 18)
        names = sorted(PIPE_SUTS)
        modes = ["MUTATION_ANALYSIS", "SIMPLE", "CHECKED_MINIMIZING"]
        self._plan = []
        for i in range(n):
            name = names[(self.seed * 3 + i) % len(names)] if i < len(names) else rng.choice(names)
            if self.tier == "quick" and i == 1:
                name = "stack"      # the quick tier always has one run on the module with its own exception classes
            self._plan.append({"i": i, "name": name, "mode": modes[(self.seed + i) % 3],
                               "seed": rng.randint(1, 10 ** 6), "iters": rng.choice([4, 6, 8]),
                               "algo": ["DYNAMOSA", "MOSA", "WHOLE_SUITE", "RANDOM"][(self.seed + i) % 4],
                               # both policies for raising statements: xfail marker / pytest.raises everywhere
                               "no_xfail": (self.seed + i // 2) % 2 == 1})
        self._procs = {}
        self._launch(6)
        return [{"real_run": r["i"], "run": {k: r[k] for k in ("name", "mode", "seed", "algo", "no_xfail")}}
                for r in self._plan]

    def _launch(self, k):
        root = self._scratch() / "runs"
        env = dict(os.environ)
        env.setdefault("PYTHONHASHSEED", "0")
        for r in self._plan:
            if k <= 0:
                break
            if r["i"] in self._procs:
                continue
            d = root / f"r{r['i']}"
            (d / "sut").mkdir(parents=True)
            (d / "sut" / f"sut_{r['name']}.py").write_text(PIPE_SUTS[r["name"]])
            args = ["--project-path", str(d / "sut"), "--module-name", f"sut_{r['name']}",
                    "--output-path", str(d / "tests"), "--report-dir", str(d / "rep"),
                    "--algorithm", r["algo"], "--maximum-iterations", str(r["iters"]), "--seed", str(r["seed"]),
                    "--assertion-generation", r["mode"], "--use-master-worker", "False",
                    "--no-xfail", str(r["no_xfail"])]
            log = (d / "log.txt").open("w")
            self._procs[r["i"]] = (d, subprocess.Popen(
                [vcommon.PY, str(Path(__file__).resolve()), *args],
                env=dict(env, C18_PIPELINE_OUT=str(d / "obs.json")), cwd=str(d), stdout=log, stderr=subprocess.STDOUT))
            k -= 1

    def _collect_pipelines(self):
        if self._real_done:
            return
        self._real_done = True
        from concurrent.futures import ThreadPoolExecutor
        todo = []
        for r in self._plan:
            if r["i"] not in self._procs:
                self._launch(1)
            d, p = self._procs[r["i"]]
            try:
                p.wait(timeout=900)
            except subprocess.TimeoutExpired:
                p.kill()
                raise RuntimeError(f"pipeline run {r['name']}/{r['mode']} timed out")
            self._launch(1)
            out = d / "obs.json"
            if not out.exists():
                raise RuntimeError(f"pipeline run {r['name']}/{r['mode']}/seed {r['seed']} produced no observation: "
                                   f"{(d / 'log.txt').read_text()[-800:]}")
            got = json.loads(out.read_text())
            self.count(f"real-run:{r['name']}:{r['mode']}:no_xfail={r['no_xfail']}:rc{got['rc']}")
            if not got["captured"]:
                self.notes.append(f"run {r['name']}/{r['mode']}: TestSuiteWriter.write not reached (rc {got['rc']})")
                continue
            todo.append((r, d, got["captured"][-1]))

        def one(job):
            # the emitted file, run the way a user runs it: fresh interpreter, original module on the path
            r, d, cap = job
            return run_pytest(d, [str(Path(cap["file"]))], [str(d / "sut")], False)
        with ThreadPoolExecutor(max_workers=4) as ex:
            results = list(ex.map(one, todo))
        for (r, d, cap), (res, errs) in zip(todo, results):
            text = Path(cap["file"]).read_text()
            fname = Path(cap["file"]).stem
            self._real[r["i"]] = ({"cid": -1 - r["i"], "file": text, "parsed": parse_emitted(text),
                                   "pytest": next((v for k, v in res.items() if k.endswith(fname)), {}),
                                   "collect_error": next(iter(errs.values()), None)}, cap["suite"])
            self.real_runs += 1

    WITNESS = {"mod": "zoo", "seed": None, "no_xfail": False, "black": False, "assert_mode": "all", "salt": 0,
               "tests": [[{"src": "var_0 = c18zoo_.mode(3)", "bound": "var_0", "fn": ["mode"], "declared": []},
                          {"src": "var_1 = c18zoo_.tup(var_0)", "bound": "var_1", "fn": ["tup"], "declared": []},
                          {"src": "c18zoo_.tup(var_1)", "bound": None, "fn": ["tup"], "declared": []}]]}

    def corpus(self):
        # the known-finding witness is replayed on every run as a corpus case (shares the pytest batch)
        out = super().corpus() + [json.loads(json.dumps(self.WITNESS))]
        if self._placeholders is None:
            self._placeholders = self._start_pipelines()
        return out + self._placeholders

    def extra_checks(self):
        self._flush()
        self.extra_coverage["real_pipeline_runs_checked"] = self.real_runs
        want = int(os.environ.get("VERIF_RUNS", self.n_runs_quick if self.tier == "quick" else self.n_runs_thorough))
        if want > 0 and self.real_runs < max(1, want // 2):
            raise RuntimeError(f"only {self.real_runs} real pipeline runs reached TestSuiteWriter.write")
        return []

    def witnesses(self):
        """The known finding (assertion value mentions a private class of the module under test) is replayed
        as the corpus case `WITNESS` on every run; nothing extra to do here."""
        return []


if __name__ == "__main__":
    if os.environ.get("C18_PIPELINE_OUT"):
        pipeline_runner()
    else:
        run_main(C18)
