"""C17 — the search stops as soon as a configured budget is exhausted (DESIGN §5 C17).

Tie 1 (translator, `translate()`): on every run the AST of the live sources is read
  * `ga/stoppingcondition.py`: for the three budget conditions the comparison of `is_fulfilled`
    (`>=` vs `>`), the counter updates of every observer hook, `observes_execution`;
  * `ga/generationalgorithmfactory.py`: config field -> condition class, the registered algorithms,
    the wiring of stopping conditions as search / execution observers;
  * every registered algorithm's `generate_tests` (MRO-resolved): the loop skeleton, and the
    MRO-resolved `resources_left` / `after_search_iteration` / `before_search_start`;
and `lean/PynguinModel/Generated/C17Stopping.lean` is rewritten.  `Props/C17.lean` proves the
theorems for any skeleton / condition table satisfying `Skeleton.WF` / `IterBudget` / ... and
`decide`s that the generated tables do.  Shapes that the tables cannot express make the translator
raise (the runner turns that into a broken obligation + failing-input search).

Tie 2 (correspondence): real short in-process runs (algorithm objects built through the real
`TestSuiteGenerationAlgorithmFactory`) of DYNAMOSA, MOSA, MIO, WHOLE_SUITE, RANDOM,
RANDOM_TEST_SUITE_SEARCH, RANDOM_TEST_CASE_SEARCH on tiny modules with small budgets, observed by a
search observer + an execution observer of the harness and through the conditions' own counters.
The Lean model (driven by the generated tables) replays the observed per-iteration executions and
must predict the same counters at every iteration boundary and the same number of iterations.

Oracle: the property in its own words on the harness' *own* counts (not the conditions' counters):
completed iterations <= iteration budget; no iteration starts at a boundary where the executions /
executed statements since search start have reached the budget; a boundary at which a configured
condition reports `is_fulfilled()` is the last one.
"""
from __future__ import annotations

import ast
import hashlib
import importlib
import inspect
import logging
import shutil
import signal
import sys
import tempfile
import threading
from pathlib import Path

import vcommon
from vcommon import Failure, PropertyCheck, run_main

GEN_PATH = vcommon.LEAN / "PynguinModel" / "Generated" / "C17Stopping.lean"

ALGOS = ["DYNAMOSA", "MOSA", "MIO", "WHOLE_SUITE", "RANDOM", "RANDOM_TEST_SUITE_SEARCH",
         "RANDOM_TEST_CASE_SEARCH"]

#: config field of `StoppingConfiguration` -> Lean name of the generated CondSpec
BUDGET_FIELDS = {
    "maximum_iterations": "maxIterations",
    "maximum_statement_executions": "maxStatementExecutions",
    "maximum_test_executions": "maxTestExecutions",
}

HOOKS = {
    "before_search_start": "onSearchStart",
    "after_search_iteration": "onAfterIteration",
    "before_remote_test_case_execution": "onBeforeExec",
    "after_remote_test_case_execution": "onAfterExec",
}
#: observer hooks the model has no event for: a budget condition must not touch its counter there
UNMODELLED_HOOKS = ["before_first_search_iteration", "after_search_finish", "before_test_case_execution",
                    "after_test_case_execution", "before_statement_execution",
                    "after_statement_execution"]
CMP = {ast.GtE: "ge", ast.Gt: "gt", ast.LtE: "le", ast.Lt: "lt", ast.Eq: "eq", ast.NotEq: "ne"}
FLIP = {"ge": "le", "gt": "lt", "le": "ge", "lt": "gt", "eq": "eq", "ne": "ne"}

SUT_MODULES = {
    # hard to cover completely: the search normally ends because a budget is exhausted
    "c17mod_hard": '''
def classify(x: int, y: int) -> int:
    if x > y:
        return 1
    if x == 1234567 and y == 7654321:
        return 2
    if x + y == 17:
        return 3
    return 0


def label(s: str) -> str:
    if s == "pynguin-c17-unreachable-token":
        return "hit"
    if len(s) > 3:
        return "long"
    return "short"
''',
    # trivially covered: the search normally ends because the pure conjunct of the guard is false
    "c17mod_easy": '''
def ident(x: int) -> int:
    return x
''',
    # objects that cannot be constructed (every constructor needs another instance): test generation
    # fails often, which exercises the exception paths of the loop bodies (RANDOM's try/except)
    "c17mod_rec": '''
class Node:
    def __init__(self, parent: "Node", other: "Leaf") -> None:
        self.parent = parent
        self.other = other

    def depth(self) -> int:
        return 0 if self.parent is None else 1 + self.parent.depth()


class Leaf:
    def __init__(self, owner: Node) -> None:
        self.owner = owner

    def weight(self, k: int) -> int:
        if k == 31337:
            return -1
        return k
''',
    # a class with state and a loop (more statements per test)
    "c17mod_cls": '''
class Counter:
    def __init__(self, start: int) -> None:
        self._v = start

    def bump(self, by: int) -> int:
        if by < 0:
            raise ValueError("negative")
        if by == 424242:
            self._v = -1
        self._v += by
        return self._v

    def is_magic(self) -> bool:
        return self._v == 987654321


def total(a: int, b: int, c: int) -> int:
    s = 0
    for v in (a, b, c):
        if v % 7 == 3:
            s += v
    if s == 7777777:
        return -1
    return s
''',
}


#: harness safety net against a search that does not stop (only reachable when C17 is violated, or —
#: without an iteration budget — by an absurdly long sequence of iterations that execute nothing)
CAP_ITERS = 300
CAP_EXECS = 20000
RUN_TIMEOUT_S = 600


class _Abort(BaseException):
    """Raised from the harness' observers to cut off a runaway search."""


def _on_alarm(signum, frame):
    raise _Abort("timeout")


class TranslationError(Exception):
    """The live source does not have a shape the generated tables can express."""


# =================================================================================================
# translator
# =================================================================================================
def _strip_doc(body):
    out = []
    for i, st in enumerate(body):
        if (i == 0 and isinstance(st, ast.Expr) and isinstance(st.value, ast.Constant)
                and isinstance(st.value.value, str)):
            continue
        if isinstance(st, ast.Pass):
            continue
        out.append(st)
    return out


def _is_self_attr(node, name=None):
    return (isinstance(node, ast.Attribute) and isinstance(node.value, ast.Name)
            and node.value.id == "self" and (name is None or node.attr == name))


def _self_call(node, name=None):
    """`self.<name>(...)` call node -> method name, else None."""
    if isinstance(node, ast.Call) and _is_self_attr(node.func):
        if name is None or node.func.attr == name:
            return node.func.attr
    return None


def _walk_no_nested_defs(nodes):
    """ast.walk over statements, not descending into nested function/class definitions."""
    todo = list(nodes)
    while todo:
        n = todo.pop()
        yield n
        for ch in ast.iter_child_nodes(n):
            if isinstance(ch, ast.FunctionDef | ast.AsyncFunctionDef | ast.ClassDef | ast.Lambda):
                continue
            todo.append(ch)


class _Sources:
    """Parsed live source files + MRO-based method resolution."""

    def __init__(self):
        self.files: dict[str, tuple[ast.Module, str]] = {}

    def tree(self, path: str) -> ast.Module:
        if path not in self.files:
            text = Path(path).read_text()
            self.files[path] = (ast.parse(text), hashlib.sha256(text.encode()).hexdigest())
        return self.files[path][0]

    def classdef(self, cls) -> ast.ClassDef:
        path = inspect.getsourcefile(cls)
        for n in ast.walk(self.tree(path)):
            if isinstance(n, ast.ClassDef) and n.name == cls.__name__:
                return n
        raise TranslationError(f"class {cls.__name__} not found in {path}")

    def method(self, cls, name: str):
        """(defining class, FunctionDef) of `cls.<name>` resolved through the MRO, or None."""
        for k in cls.__mro__:
            if k is object or name not in vars(k):
                continue
            try:
                cd = self.classdef(k)
            except (TypeError, OSError, TranslationError):
                return None
            for st in cd.body:
                if isinstance(st, ast.FunctionDef) and st.name == name:
                    return k, st
            return None
        return None

    def header(self) -> list[str]:
        out = []
        for p, (_, h) in sorted(self.files.items()):
            try:
                rel = str(Path(p).resolve().relative_to(vcommon.REPO.resolve()))
            except ValueError:
                rel = p
            out.append(f"-- source: {rel} sha256 {h}")
        return out


def _translate_condition(src: _Sources, cls) -> dict:
    cd = src.classdef(cls)
    name = cls.__name__
    base_names = [b.id if isinstance(b, ast.Name) else ast.unparse(b) for b in cd.bases]
    if base_names != ["StoppingCondition"]:
        raise TranslationError(f"{name}: bases {base_names}, expected [StoppingCondition]")
    methods = {st.name: st for st in cd.body if isinstance(st, ast.FunctionDef)}
    others = [st for st in cd.body if not isinstance(st, ast.FunctionDef)]
    for st in others:
        if not (isinstance(st, ast.Expr) and isinstance(st.value, ast.Constant)):
            raise TranslationError(f"{name}: unexpected class-level statement {ast.unparse(st)[:60]}")
    init = methods.get("__init__")
    if init is None:
        raise TranslationError(f"{name}: no __init__")
    params = [a.arg for a in init.args.args[1:]]
    zero_attrs, limit_attrs, observes = [], [], False
    for st in _strip_doc(init.body):
        if isinstance(st, ast.Assign) and len(st.targets) == 1 and _is_self_attr(st.targets[0]):
            attr = st.targets[0].attr
            if isinstance(st.value, ast.Constant) and st.value.value == 0 \
                    and type(st.value.value) is int:
                zero_attrs.append(attr)
            elif isinstance(st.value, ast.Name) and st.value.id in params:
                limit_attrs.append(attr)
            # other attributes (e.g. the remote observer) are irrelevant to the counter
        elif isinstance(st, ast.Expr) and isinstance(st.value, ast.Call):
            c = st.value
            if (isinstance(c.func, ast.Attribute) and c.func.attr == "__init__"
                    and isinstance(c.func.value, ast.Call)
                    and isinstance(c.func.value.func, ast.Name) and c.func.value.func.id == "super"):
                for kw in c.keywords:
                    if kw.arg == "observes_execution":
                        if not isinstance(kw.value, ast.Constant) or not isinstance(kw.value.value, bool):
                            raise TranslationError(f"{name}: observes_execution is not a literal")
                        observes = kw.value.value
                if c.args:
                    raise TranslationError(f"{name}: positional args to super().__init__")
            else:
                raise TranslationError(f"{name}.__init__: unexpected call {ast.unparse(st)[:60]}")
        elif isinstance(st, ast.Assert):
            continue
        else:
            raise TranslationError(f"{name}.__init__: unexpected statement {ast.unparse(st)[:60]}")
    # is_fulfilled
    isf = methods.get("is_fulfilled")
    if isf is None:
        raise TranslationError(f"{name}: no is_fulfilled")
    body = _strip_doc(isf.body)
    if not (len(body) == 1 and isinstance(body[0], ast.Return) and isinstance(body[0].value, ast.Compare)
            and len(body[0].value.ops) == 1):
        raise TranslationError(f"{name}.is_fulfilled: not `return self.a <op> self.b`: "
                               f"{ast.unparse(isf)[:120]}")
    cmpn = body[0].value
    left, right = cmpn.left, cmpn.comparators[0]
    if not (_is_self_attr(left) and _is_self_attr(right)) or type(cmpn.ops[0]) not in CMP:
        raise TranslationError(f"{name}.is_fulfilled: operands are not self attributes")
    op = CMP[type(cmpn.ops[0])]
    if left.attr in zero_attrs and right.attr in limit_attrs:
        counter, limit = left.attr, right.attr
    elif right.attr in zero_attrs and left.attr in limit_attrs:
        counter, limit, op = right.attr, left.attr, FLIP[op]
    else:
        raise TranslationError(f"{name}.is_fulfilled compares {left.attr} and {right.attr}; cannot tell "
                               f"counter (0-initialised: {zero_attrs}) from limit (ctor param: {limit_attrs})")
    # current_value / limit must report counter and limit (the harness observes through them)
    for mname, attr in (("current_value", counter), ("limit", limit)):
        m = methods.get(mname)
        b = _strip_doc(m.body) if m else []
        if not (len(b) == 1 and isinstance(b[0], ast.Return) and _is_self_attr(b[0].value, attr)):
            raise TranslationError(f"{name}.{mname} does not return self.{attr}")

    def updates_of(fn: ast.FunctionDef, allow_result: bool, depth=0) -> list[str]:
        ups = []
        for st in _strip_doc(fn.body):
            if isinstance(st, ast.Assign) and len(st.targets) == 1 and _is_self_attr(st.targets[0], counter) \
                    and isinstance(st.value, ast.Constant) and st.value.value == 0 \
                    and type(st.value.value) is int:
                ups.append("set0")
            elif isinstance(st, ast.AugAssign) and _is_self_attr(st.target, counter) \
                    and isinstance(st.op, ast.Add):
                v = st.value
                if isinstance(v, ast.Constant) and v.value == 1 and type(v.value) is int:
                    ups.append("add1")
                elif (allow_result and isinstance(v, ast.Attribute) and v.attr == "num_executed_statements"
                      and isinstance(v.value, ast.Name) and len(fn.args.args) >= 3
                      and v.value.id == fn.args.args[2].arg):
                    ups.append("addResultStmts")
                else:
                    raise TranslationError(f"{name}.{fn.name}: unsupported increment {ast.unparse(st)}")
            elif isinstance(st, ast.Expr) and _self_call(st.value, "reset") and depth == 0 \
                    and not st.value.args and "reset" in methods:
                ups += updates_of(methods["reset"], False, 1)
            else:
                touched = {n.attr for n in ast.walk(st) if _is_self_attr(n)}
                if touched & {counter, limit} or any(_self_call(n) for n in ast.walk(st)):
                    raise TranslationError(f"{name}.{fn.name}: unsupported statement {ast.unparse(st)[:80]}")
                # statements not touching counter/limit (none today) are irrelevant
        return ups

    spec = {"cls": name, "observesExecution": observes, "cmp": op, "counter": counter, "limit": limit}
    for hook, field in HOOKS.items():
        fn = methods.get(hook)
        spec[field] = updates_of(fn, hook == "after_remote_test_case_execution") if fn else []
    for mname, fn in methods.items():
        if mname in HOOKS or mname in ("__init__", "reset", "set_limit"):
            continue
        for n in ast.walk(fn):
            if isinstance(n, ast.Assign | ast.AugAssign | ast.AnnAssign):
                tg = n.targets if isinstance(n, ast.Assign) else [n.target]
                if any(_is_self_attr(t, counter) or _is_self_attr(t, limit) for t in tg):
                    raise TranslationError(f"{name}.{mname} writes the counter/limit outside a modelled hook")
    return spec


def _check_base_condition(src: _Sources, base) -> None:
    """`StoppingCondition`'s own hooks must be no-ops (a budget class inherits the ones it does not
    override)."""
    cd = src.classdef(base)
    for st in cd.body:
        if isinstance(st, ast.FunctionDef) and st.name in list(HOOKS) + UNMODELLED_HOOKS:
            if _strip_doc(st.body):
                raise TranslationError(f"StoppingCondition.{st.name} is not a no-op")


def _translate_resources_left(src: _Sources, cls) -> tuple[bool, bool]:
    r = src.method(cls, "resources_left")
    if r is None:
        raise TranslationError(f"{cls.__name__}: resources_left not found")
    body = _strip_doc(r[1].body)
    ok = len(body) == 1 and isinstance(body[0], ast.Return) and isinstance(body[0].value, ast.Call)
    if ok:
        c = body[0].value
        ok = (isinstance(c.func, ast.Name) and c.func.id in ("all", "any") and len(c.args) == 1
              and not c.keywords and isinstance(c.args[0], ast.GeneratorExp)
              and len(c.args[0].generators) == 1)
    if ok:
        g = c.args[0].generators[0]
        ok = (isinstance(g.target, ast.Name) and not g.ifs and not g.is_async
              and _is_self_attr(g.iter, "_stopping_conditions"))
    if ok:
        elt = c.args[0].elt
        negated = isinstance(elt, ast.UnaryOp) and isinstance(elt.op, ast.Not)
        inner = elt.operand if negated else elt
        ok = (isinstance(inner, ast.Call) and not inner.args and not inner.keywords
              and isinstance(inner.func, ast.Attribute) and inner.func.attr == "is_fulfilled"
              and isinstance(inner.func.value, ast.Name) and inner.func.value.id == g.target.id)
    if not ok:
        raise TranslationError(f"{cls.__name__}.resources_left has an unrecognised shape: "
                               f"{ast.unparse(r[1])[-160:]}")
    # the list the `stopping_conditions` property setter fills (the factory assigns through it) must
    # be the one that is read
    ok = False
    for k in cls.__mro__:
        if "stopping_conditions" in vars(k):
            for st in src.classdef(k).body:
                if (isinstance(st, ast.FunctionDef) and st.name == "stopping_conditions"
                        and any(isinstance(d, ast.Attribute) and d.attr == "setter" for d in st.decorator_list)):
                    b = _strip_doc(st.body)
                    ok = (len(b) == 1 and isinstance(b[0], ast.Assign) and len(b[0].targets) == 1
                          and _is_self_attr(b[0].targets[0], "_stopping_conditions")
                          and isinstance(b[0].value, ast.Name) and len(st.args.args) == 2
                          and b[0].value.id == st.args.args[1].arg)
            break
    if not ok:
        raise TranslationError(f"{cls.__name__}: the stopping_conditions setter does not fill "
                               f"self._stopping_conditions")
    return c.func.id == "all", negated


def _check_dispatch(src: _Sources, cls, name: str, nargs: int) -> None:
    """`for obs in self._search_observers: obs.<name>(<arg>)` (MRO-resolved)."""
    r = src.method(cls, name)
    if r is None:
        raise TranslationError(f"{cls.__name__}: {name} not found")
    body = _strip_doc(r[1].body)
    loops = [st for st in body if isinstance(st, ast.For)]
    good = False
    if len(loops) == 1 and body[-1] is loops[0]:
        lp = loops[0]
        if (isinstance(lp.target, ast.Name) and _is_self_attr(lp.iter, "_search_observers")
                and not lp.orelse and len(lp.body) == 1 and isinstance(lp.body[0], ast.Expr)):
            c = lp.body[0].value
            good = (isinstance(c, ast.Call) and isinstance(c.func, ast.Attribute) and c.func.attr == name
                    and isinstance(c.func.value, ast.Name) and c.func.value.id == lp.target.id
                    and len(c.args) == nargs)
        # statements before the loop may only be simple local assignments (`start = time.time_ns()`)
        for st in body[:-1]:
            if not (isinstance(st, ast.Assign) and all(isinstance(t, ast.Name) for t in st.targets)):
                good = False
    if not good:
        raise TranslationError(f"{cls.__name__}.{name} does not dispatch to every search observer: "
                               f"{ast.unparse(r[1])[-200:]}")


def _reachable_self_calls(src: _Sources, cls, stmts, seen=None) -> list[tuple[str, ast.Call]]:
    """All `self.m(..)` calls in `stmts` and, transitively, in the MRO-resolved bodies of the called
    methods (hook methods themselves are not expanded)."""
    seen = set() if seen is None else seen
    out = []
    for n in _walk_no_nested_defs(stmts):
        m = _self_call(n)
        if m is None:
            continue
        out.append((m, n))
        if m in seen or m in ("after_search_iteration", "before_search_start", "after_search_finish",
                              "before_first_search_iteration", "resources_left"):
            continue
        seen.add(m)
        r = src.method(cls, m)
        if r is not None:
            out += _reachable_self_calls(src, cls, r[1].body, seen)
    return out


PURE_CALLS = {"get_fitness", "get_coverage", "size"}


def _pure_expr(e) -> bool:
    """Whitelist for the other conjuncts of the `while` test (assumed side-effect free)."""
    if isinstance(e, ast.Constant | ast.Name):
        return True
    if isinstance(e, ast.Attribute):
        return _pure_expr(e.value)
    if isinstance(e, ast.Compare):
        return _pure_expr(e.left) and all(_pure_expr(c) for c in e.comparators)
    if isinstance(e, ast.BinOp):
        return _pure_expr(e.left) and _pure_expr(e.right)
    if isinstance(e, ast.UnaryOp):
        return _pure_expr(e.operand)
    if isinstance(e, ast.BoolOp):
        return all(_pure_expr(v) for v in e.values)
    if isinstance(e, ast.Call) and not e.keywords:
        if isinstance(e.func, ast.Name) and e.func.id == "len" and len(e.args) == 1:
            return _pure_expr(e.args[0])
        if isinstance(e.func, ast.Attribute) and e.func.attr in PURE_CALLS and not e.args:
            return _pure_expr(e.func.value)
    return False


def _bound_jumps(body) -> list[ast.stmt]:
    """`continue`/`break`/`return` statements that leave or restart *this* loop's body."""
    out = []

    def go(stmts, in_inner_loop):
        for st in stmts:
            if isinstance(st, ast.Return):
                out.append(st)
            elif isinstance(st, ast.Continue | ast.Break):
                if not in_inner_loop:
                    out.append(st)
            elif isinstance(st, ast.For | ast.While | ast.AsyncFor):
                go(st.body, True)
                go(st.orelse, in_inner_loop)
            elif isinstance(st, ast.If):
                go(st.body, in_inner_loop)
                go(st.orelse, in_inner_loop)
            elif isinstance(st, ast.With | ast.AsyncWith):
                go(st.body, in_inner_loop)
            elif isinstance(st, ast.Try):
                go(st.body, in_inner_loop)
                for h in st.handlers:
                    go(h.body, in_inner_loop)
                go(st.orelse, in_inner_loop)
                go(st.finalbody, in_inner_loop)
            elif isinstance(st, ast.Match):
                for c in st.cases:
                    go(c.body, in_inner_loop)

    go(body, False)
    return out


def _translate_skeleton(src: _Sources, algo: str, cls) -> dict:
    r = src.method(cls, "generate_tests")
    if r is None:
        raise TranslationError(f"{algo}: generate_tests not found")
    owner, fn = r
    where = f"{algo} ({owner.__name__}.generate_tests)"
    top = _strip_doc(fn.body)
    loops = [i for i, st in enumerate(top) if isinstance(st, ast.While)]
    if len(loops) != 1:
        raise TranslationError(f"{where}: expected exactly one top-level `while`, found {len(loops)}")
    li = loops[0]
    loop: ast.While = top[li]
    if loop.orelse:
        raise TranslationError(f"{where}: search loop has an else clause")
    conj = loop.test.values if isinstance(loop.test, ast.BoolOp) and isinstance(loop.test.op, ast.And) \
        else [loop.test]
    guard_resources = False
    for c in conj:
        if _self_call(c, "resources_left") and not c.args and not c.keywords:
            guard_resources = True
        elif any(_self_call(n, "resources_left") for n in ast.walk(c)):
            raise TranslationError(f"{where}: resources_left() is used inside a larger guard expression "
                                   f"`{ast.unparse(c)}`")
        elif not _pure_expr(c):
            raise TranslationError(f"{where}: guard conjunct `{ast.unparse(c)}` is not in the pure whitelist")
    jumps = _bound_jumps(loop.body)
    if jumps:
        raise TranslationError(f"{where}: `{ast.unparse(jumps[0])}` (line {jumps[0].lineno}) leaves/restarts "
                               f"the search-loop body; the skeleton table cannot express that")
    last = loop.body[-1]
    at_end = 1 if (isinstance(last, ast.Expr) and _self_call(last.value, "after_search_iteration")) else 0
    in_body = _reachable_self_calls(src, cls, loop.body)
    before = _reachable_self_calls(src, cls, top[:li])
    after = _reachable_self_calls(src, cls, top[li + 1:])
    cnt = lambda calls, name: sum(1 for m, _ in calls if m == name)  # noqa: E731
    if cnt(in_body, "before_search_start") or cnt(after, "before_search_start"):
        raise TranslationError(f"{where}: before_search_start is called inside/after the search loop")
    if cnt(before, "before_search_start") != 1:
        raise TranslationError(f"{where}: before_search_start is called {cnt(before, 'before_search_start')} "
                               f"times before the loop (expected 1)")
    if cnt(in_body, "after_search_finish") or cnt(before, "after_search_finish"):
        raise TranslationError(f"{where}: after_search_finish is called before the search loop has ended")
    if cnt(in_body, "resources_left"):
        # harmless for the property, but then an 'iteration' is no longer what the guard sees
        raise TranslationError(f"{where}: resources_left() is also consulted inside the loop body")
    rl_all, rl_neg = _translate_resources_left(src, cls)
    _check_dispatch(src, cls, "after_search_iteration", 1)
    _check_dispatch(src, cls, "before_search_start", 1)
    return {
        "algo": algo, "cls": cls.__name__, "owner": owner.__name__, "line": loop.lineno,
        "rlAll": rl_all, "rlNegated": rl_neg, "guardResources": guard_resources,
        "afterIterAtEnd": at_end,
        "afterIterElsewhere": cnt(in_body, "after_search_iteration") - at_end,
        "afterIterOutside": cnt(before, "after_search_iteration") + cnt(after, "after_search_iteration"),
        "guard": ast.unparse(loop.test),
    }


def _translate_factory(src: _Sources, gaf) -> dict:
    base = gaf.GenerationAlgorithmFactory
    tsg = gaf.TestSuiteGenerationAlgorithmFactory
    # --- config field -> condition class
    r = src.method(tsg, "get_stopping_conditions")
    if r is None:
        raise TranslationError("get_stopping_conditions not found")
    config_map = []
    for st in _walk_no_nested_defs(r[1].body):
        if not isinstance(st, ast.If) or not isinstance(st.test, ast.Compare):
            continue
        t = st.test
        if not (isinstance(t.left, ast.NamedExpr) and isinstance(t.left.value, ast.Attribute)
                and isinstance(t.left.value.value, ast.Name) and t.left.value.value.id == "stopping"):
            continue
        var, field = t.left.target.id, t.left.value.attr
        for b in st.body:
            if (isinstance(b, ast.Expr) and isinstance(b.value, ast.Call)
                    and isinstance(b.value.func, ast.Attribute) and b.value.func.attr == "append"
                    and len(b.value.args) == 1 and isinstance(b.value.args[0], ast.Call)
                    and isinstance(b.value.args[0].func, ast.Name)):
                ctor = b.value.args[0]
                if len(ctor.args) == 1 and isinstance(ctor.args[0], ast.Name) and ctor.args[0].id == var \
                        and isinstance(b.value.func.value, ast.Name) and b.value.func.value.id == "conditions":
                    enabled = (len(t.ops) == 1 and isinstance(t.ops[0], ast.GtE)
                               and isinstance(t.comparators[0], ast.Constant) and t.comparators[0].value == 0)
                    config_map.append((st.lineno, field, ctor.func.id, enabled))
    config_map = [t[1:] for t in sorted(config_map)]
    # the function must return the list it appended to
    rets = [n for n in _walk_no_nested_defs(r[1].body) if isinstance(n, ast.Return)]
    if not (len(rets) == 1 and isinstance(rets[0].value, ast.Name) and rets[0].value.id == "conditions"):
        raise TranslationError("get_stopping_conditions does not `return conditions`")
    # --- wiring in get_search_algorithm
    r = src.method(tsg, "get_search_algorithm")
    if r is None:
        raise TranslationError("get_search_algorithm not found")
    body = _strip_doc(r[1].body)
    var = None
    for st in body:
        if (isinstance(st, ast.Assign) and len(st.targets) == 1 and isinstance(st.targets[0], ast.Name)
                and _self_call(st.value, "get_stopping_conditions")):
            var = st.targets[0].id
    assigned = any(isinstance(st, ast.Assign) and len(st.targets) == 1
                   and isinstance(st.targets[0], ast.Attribute) and st.targets[0].attr == "stopping_conditions"
                   and isinstance(st.value, ast.Name) and st.value.id == var for st in body)
    as_search = as_exec = False
    for st in body:
        if isinstance(st, ast.For) and isinstance(st.iter, ast.Name) and st.iter.id == var \
                and isinstance(st.target, ast.Name):
            v = st.target.id
            for b in st.body:
                if (isinstance(b, ast.Expr) and isinstance(b.value, ast.Call)
                        and isinstance(b.value.func, ast.Attribute)
                        and b.value.func.attr == "add_search_observer" and len(b.value.args) == 1
                        and isinstance(b.value.args[0], ast.Name) and b.value.args[0].id == v):
                    as_search = True
                if (isinstance(b, ast.If) and isinstance(b.test, ast.Attribute)
                        and b.test.attr == "observes_execution" and isinstance(b.test.value, ast.Name)
                        and b.test.value.id == v and len(b.body) == 1 and isinstance(b.body[0], ast.Expr)
                        and isinstance(b.body[0].value, ast.Call)
                        and isinstance(b.body[0].value.func, ast.Attribute)
                        and b.body[0].value.func.attr == "add_observer"
                        and len(b.body[0].value.args) == 1
                        and isinstance(b.body[0].value.args[0], ast.Name)
                        and b.body[0].value.args[0].id == v):
                    as_exec = True
    # --- registered algorithms (live dict; the class objects are needed for MRO resolution)
    strategies = {k.name: v for k, v in tsg._strategies.items()}  # noqa: SLF001
    return {"config_map": config_map, "conditionsAssigned": bool(var) and assigned,
            "registeredAsSearchObservers": as_search, "registeredAsExecutionObservers": as_exec,
            "strategies": strategies}


def _lean_bool(b: bool) -> str:
    return "true" if b else "false"


def _lean_str(s: str) -> str:
    return '"' + s.replace("\\", "\\\\").replace('"', '\\"') + '"'


def _ident(algo: str) -> str:
    parts = algo.lower().split("_")
    return "sk" + "".join(p.capitalize() for p in parts)


def render(table: dict) -> str:
    L = ["import PynguinModel.Model.Stopping",
         "/-! GENERATED by harness/c17.py `translate()` from the live pynguin sources — do not edit.",
         "Condition tables (`is_fulfilled` comparison, counter updates per observer hook) and search-loop",
         "skeletons (one per registered algorithm). -/"]
    L += table["header"]
    L += ["namespace PynguinModel.Stopping.Generated", ""]
    for field, lean_name in BUDGET_FIELDS.items():
        s = table["conditions"][field]
        ups = lambda k: "[" + ", ".join("." + u for u in s[k]) + "]"  # noqa: E731
        L += [f"/-- `{s['cls']}` (config `stopping.{field}`): `is_fulfilled` is "
              f"`self.{s['counter']} {s['cmp']} self.{s['limit']}` -/",
              f"def {lean_name} : CondSpec :=",
              f"  {{ cls := {_lean_str(s['cls'])}, observesExecution := {_lean_bool(s['observesExecution'])}, "
              f"cmp := .{s['cmp']},",
              f"    onSearchStart := {ups('onSearchStart')}, onAfterIteration := {ups('onAfterIteration')},",
              f"    onBeforeExec := {ups('onBeforeExec')}, onAfterExec := {ups('onAfterExec')} }}", ""]
    L += ["/-- `get_stopping_conditions`: (config field, condition class, enabled by `>= 0`) -/",
          "def configMap : List (String × String × Bool) :=",
          "  [" + ", ".join(f"({_lean_str(f)}, {_lean_str(c)}, {_lean_bool(e)})"
                            for f, c, e in table["config_map"]) + "]", "",
          "/-- `get_search_algorithm`: `strategy.stopping_conditions = <the list>` -/",
          f"def conditionsAssigned : Bool := {_lean_bool(table['conditionsAssigned'])}",
          "/-- `get_search_algorithm`: every stopping condition is `add_search_observer`ed -/",
          f"def registeredAsSearchObservers : Bool := {_lean_bool(table['registeredAsSearchObservers'])}",
          "/-- `get_search_algorithm`: `if stop.observes_execution: self._executor.add_observer(stop)` -/",
          f"def registeredAsExecutionObservers : Bool := {_lean_bool(table['registeredAsExecutionObservers'])}",
          ""]
    names = []
    for sk in table["skeletons"]:
        nm = _ident(sk["algo"])
        names.append(nm)
        L += [f"/-- {sk['algo']}: `{sk['owner']}.generate_tests` line {sk['line']}, "
              f"`while {sk['guard']}` -/",
              f"def {nm} : Skeleton :=",
              f"  {{ algo := {_lean_str(sk['algo'])}, rlAll := {_lean_bool(sk['rlAll'])}, "
              f"rlNegated := {_lean_bool(sk['rlNegated'])}, guardResources := {_lean_bool(sk['guardResources'])},",
              f"    afterIterAtEnd := {sk['afterIterAtEnd']}, afterIterElsewhere := {sk['afterIterElsewhere']}, "
              f"afterIterOutside := {sk['afterIterOutside']} }}", ""]
    L += ["/-- one skeleton per algorithm registered in `GenerationAlgorithmFactory._strategies` -/",
          "def skeletons : List Skeleton := [" + ", ".join(names) + "]", ""]
    arg = {"maximum_iterations": "mi", "maximum_statement_executions": "ms", "maximum_test_executions": "me"}
    order = [f for f, _, _ in table["config_map"] if f in BUDGET_FIELDS]
    L += ["/-- The condition list `get_stopping_conditions` builds from the three budget options (`none` =",
          "the option is negative = not configured), in source order, followed by further conditions. -/",
          "def configured (mi ms me : Option Nat) (others : List (CondSpec × Nat)) : List (CondSpec × Nat) :=",
          "  " + " ++\n  ".join(f"(({arg[f]}.map (fun l => ({BUDGET_FIELDS[f]}, l))).toList)" for f in order)
          + " ++ others", "",
          "end PynguinModel.Stopping.Generated", ""]
    return "\n".join(L)


def build_table() -> dict:
    """Read everything from the live sources (vcommon.REPO/src must be first on sys.path)."""
    import pynguin.ga.generationalgorithmfactory as gaf
    import pynguin.ga.stoppingcondition as sc

    src = _Sources()
    fac = _translate_factory(src, gaf)
    by_field = {f: c for f, c, _ in fac["config_map"]}
    conditions = {}
    for field in BUDGET_FIELDS:
        if field not in by_field:
            raise TranslationError(f"get_stopping_conditions no longer maps stopping.{field} to a condition")
        cls = getattr(sc, by_field[field], None)
        if cls is None:
            raise TranslationError(f"{by_field[field]} is not defined in stoppingcondition.py")
        conditions[field] = _translate_condition(src, cls)
        _self_check_condition(cls, conditions[field])
    _check_base_condition(src, sc.StoppingCondition)
    skeletons = [_translate_skeleton(src, algo, cls) for algo, cls in sorted(fac["strategies"].items())]
    return {"header": src.header(), "conditions": conditions, "config_map": fac["config_map"],
            "conditionsAssigned": fac["conditionsAssigned"],
            "registeredAsSearchObservers": fac["registeredAsSearchObservers"],
            "registeredAsExecutionObservers": fac["registeredAsExecutionObservers"],
            "skeletons": skeletons}


def _self_check_condition(cls, spec: dict) -> None:
    """Re-evaluate the emitted row against the live class: drive the hooks, compare counter and
    `is_fulfilled()` with what the row predicts."""
    from types import SimpleNamespace

    def app(ups, c, n):
        for u in ups:
            c = 0 if u == "set0" else c + 1 if u == "add1" else c + n
        return c

    def cmp(op, a, b):
        return {"ge": a >= b, "gt": a > b, "le": a <= b, "lt": a < b, "eq": a == b, "ne": a != b}[op]

    for limit in (1, 3):
        obj = cls(limit)
        c = 0
        events = ["start", "exec2", "iter", "exec1", "exec0", "iter", "iter", "exec5", "iter", "start",
                  "iter", "exec1"]
        for ev in events:
            if ev == "start":
                obj.before_search_start(0)
                c = app(spec["onSearchStart"], c, 0)
            elif ev == "iter":
                obj.after_search_iteration(None)
                c = app(spec["onAfterIteration"], c, 0)
            else:
                n = int(ev[4:])
                obj.before_remote_test_case_execution(None)
                c = app(spec["onBeforeExec"], c, 0)
                obj.after_remote_test_case_execution(None, SimpleNamespace(num_executed_statements=n))
                c = app(spec["onAfterExec"], c, n)
            if obj.current_value() != c or obj.limit() != limit \
                    or bool(obj.is_fulfilled()) != cmp(spec["cmp"], c, limit) \
                    or bool(obj.observes_execution) != spec["observesExecution"]:
                raise TranslationError(f"self-check: emitted row for {cls.__name__} does not reproduce the "
                                       f"live object after {ev} (counter {obj.current_value()} vs {c})")


# =================================================================================================
# the check
# =================================================================================================
class C17(PropertyCheck):
    prop_id = "C17"
    prop_modules = ["PynguinModel.Props.C17"]
    extra_modules = ["PynguinModel.Model.Stopping", "PynguinModel.Generated.C17Stopping"]
    driver = "Driver/C17.lean"
    n_quick = 70
    n_thorough = 1200   # 2000 took 25 min under load
    n_search = 1500
    rule = ("in-process runs of the 7 non-LLM algorithms (built by the real factory) on 4 tiny modules with "
            "iteration budgets 1..10, execution budgets 1..200, statement budgets 1..400 in all on/off "
            "combinations; non-trivial = distinct (algorithm, module, budgets, seed, observed trace) whose "
            "run started at least one iteration or was stopped by a budget at the first boundary")
    assumptions = [
        "the executor calls before/after_remote_test_case_execution once per test execution on every "
        "attached observer (testcase/execution.py; observed, not translated)",
        "what one iteration does is an arbitrary input of the model: only the budget counters matter",
        "wall-clock, memory and coverage conditions are covered by the theorems only as 'further arbitrary "
        "conditions' (any fulfilled condition stops the loop); their counters are not modelled",
        "budget overshoot inside one iteration is not excluded (the property speaks about boundaries)",
    ]
    trusted_base_extra = [
        "translator harness/c17.py (AST of stoppingcondition.py, generationalgorithm.py, every algorithm's "
        "generate_tests, generationalgorithmfactory.py -> Generated/C17Stopping.lean), with a self-check "
        "of every emitted condition row against the live class",
    ]

    def __init__(self, tier, seed):
        super().__init__(tier, seed)
        self._tmp = None
        self._table = None

    # -- translator -----------------------------------------------------------------------------
    def translate(self) -> None:
        table = build_table()
        self._table = table
        text = render(table)
        if not GEN_PATH.exists() or GEN_PATH.read_text() != text:
            GEN_PATH.parent.mkdir(parents=True, exist_ok=True)
            GEN_PATH.write_text(text)
        self.extra_coverage["generated"] = {
            "conditions": {f: {k: v for k, v in s.items()} for f, s in table["conditions"].items()},
            "skeletons": [{k: sk[k] for k in ("algo", "owner", "guardResources", "afterIterAtEnd",
                                              "afterIterElsewhere", "afterIterOutside", "rlAll", "rlNegated")}
                          for sk in table["skeletons"]],
        }

    # -- generation -----------------------------------------------------------------------------
    def gen_case(self, rng):
        algo = rng.choice(ALGOS)
        module = rng.choice(["c17mod_hard", "c17mod_hard", "c17mod_cls", "c17mod_cls", "c17mod_easy",
                             "c17mod_rec"])
        # at least one budget (otherwise pynguin falls back to a 600 s wall-clock condition)
        while True:
            mi = rng.randint(1, 10) if rng.random() < 0.7 else None
            me = rng.choice([rng.randint(1, 12), rng.randint(1, 60), rng.randint(1, 200)]) \
                if rng.random() < 0.6 else None
            ms = rng.choice([rng.randint(1, 20), rng.randint(1, 120), rng.randint(1, 400)]) \
                if rng.random() < 0.5 else None
            if mi is not None or me is not None or ms is not None:
                break
        if mi is None:
            # keep runs short (and far below the harness' runaway cap of CAP_ITERS iterations):
            # without an iteration budget use the small end of the other budgets
            if me is not None:
                me = min(me, 60)
            if ms is not None:
                ms = min(ms, 120)
        return {"algo": algo, "module": module, "max_iterations": mi, "max_executions": me,
                "max_statements": ms, "seed": rng.randint(0, 10**6),
                "population": rng.choice([2, 3, 4, 6]), "chromosome_length": rng.choice([3, 5, 8])}

    # -- implementation adapter -----------------------------------------------------------------
    def _sut_dir(self) -> str:
        if self._tmp is None:
            self._tmp = tempfile.mkdtemp(prefix="c17-sut-")
            for name, text in SUT_MODULES.items():
                Path(self._tmp, name + ".py").write_text(text.lstrip("\n"))
            sys.path.insert(0, self._tmp)
            import atexit
            atexit.register(shutil.rmtree, self._tmp, True)
        return self._tmp

    def impl(self, case):
        key = vcommon.jdump(case)
        cache = self.__dict__.setdefault("_cache", {})
        if key not in cache:
            cache[key] = self._run_real(case)
        return cache[key]

    def _run_real(self, case):
        import pynguin.configuration as config
        import pynguin.ga.generationalgorithmfactory as gaf
        import pynguin.ga.searchobserver as so
        import pynguin.utils.statistics.stats as stat
        from pynguin.analyses.module import generate_test_cluster
        from pynguin.instrumentation.machinery import install_import_hook
        from pynguin.instrumentation.tracer import SubjectProperties
        from pynguin.testcase.execution import ExecutionObserver, RemoteExecutionObserver, TestCaseExecutor
        from pynguin.utils import randomness

        logging.disable(logging.CRITICAL)
        sut = self._sut_dir()
        module = case["module"]
        cfg = config.Configuration(
            algorithm=getattr(config.Algorithm, case["algo"]), project_path=sut,
            test_case_output=config.TestCaseOutputConfiguration(output_path=""), module_name=module)
        saved_cfg = config.configuration
        config.configuration = cfg
        st = cfg.stopping
        st.maximum_iterations = -1 if case["max_iterations"] is None else case["max_iterations"]
        st.maximum_test_executions = -1 if case["max_executions"] is None else case["max_executions"]
        st.maximum_statement_executions = -1 if case["max_statements"] is None else case["max_statements"]
        st.maximum_memory = -1            # RSS-dependent, would make runs irreproducible
        st.maximum_search_time = -1
        cfg.search_algorithm.population = case["population"]
        cfg.search_algorithm.chromosome_length = case["chromosome_length"]
        cfg.search_algorithm.min_initial_tests = 1
        cfg.search_algorithm.max_initial_tests = 3
        cfg.statistics_output.coverage_metrics = [config.CoverageMetric.BRANCH]
        cfg.seeding.seed = case["seed"]
        randomness.RNG.seed(case["seed"])
        stat.reset()

        events: list = []          # (kind, payload) in program order
        holder: dict = {}
        box = {"stmts": None}
        caps = {"guard": 0, "iter": 0, "exec": 0}

        def bump(kind):
            """Harness safety net (never reached by a search that respects its budgets): a search
            that runs away is cut off and judged on the trace recorded so far."""
            caps[kind] += 1
            if caps[kind] > (CAP_EXECS if kind == "exec" else CAP_ITERS):
                raise _Abort(f"{kind} cap")

        def snapshot():
            alg = holder["alg"]
            return {"conds": [[type(s).__name__, int(s.current_value()), int(s.limit()),
                               bool(s.is_fulfilled())] for s in alg.stopping_conditions],
                    "resources_left": bool(holder["resources_left"]())}

        class SearchObs(so.SearchObserver):
            def before_search_start(self, start_time_ns):
                events.append(("start", snapshot()))

            def before_first_search_iteration(self, initial):
                events.append(("first", snapshot()))

            def after_search_iteration(self, best):
                events.append(("iter", snapshot()))
                bump("iter")

            def after_search_finish(self):
                events.append(("finish", snapshot()))

        class RemoteCount(RemoteExecutionObserver):
            """Counts executed statements per test execution, independently of pynguin's own
            RemoteMaxStatementExecutionsObserver (thread-local: one thread per execution)."""

            def __init__(self):
                super().__init__()
                self._tl = threading.local()

            def before_test_case_execution(self, test_case):
                self._tl.n = 0

            def before_statement_execution(self, statement, node, namespace):
                self._tl.n = getattr(self._tl, "n", 0) + 1
                return node

            def after_test_case_execution(self, executor, test_case, result):
                box["stmts"] = getattr(self._tl, "n", 0)

        remote = RemoteCount()

        class ExecObs(ExecutionObserver):
            @property
            def remote_observer(self):
                return remote

            def before_remote_test_case_execution(self, test_case):
                box["stmts"] = None
                events.append(("before-exec", None))
                bump("exec")

            def after_remote_test_case_execution(self, test_case, result):
                # on a timeout the remote hook may not have run: the result then carries 0 as well
                n = box["stmts"] if (box["stmts"] is not None and not result.timeout) else 0
                events.append(("exec", [int(n), int(result.num_executed_statements)]))

        sp = SubjectProperties()
        try:
            with install_import_hook(module, sp):
                with sp.instrumentation_tracer:
                    m = importlib.import_module(module)
                    importlib.reload(m)
                executor = TestCaseExecutor(sp)
                cluster = generate_test_cluster(module)
                alg = gaf.TestSuiteGenerationAlgorithmFactory(executor, cluster).get_search_algorithm()
                holder["alg"] = alg
                real_resources_left = alg.resources_left   # bound method of the real class
                holder["resources_left"] = real_resources_left

                def observed_resources_left():
                    r = real_resources_left()
                    events.append(("guard", bool(r)))
                    bump("guard")
                    return r

                alg.resources_left = observed_resources_left  # instance attribute: `self.resources_left()`
                alg.add_search_observer(SearchObs())
                executor.add_observer(ExecObs())
                configured = [[type(s).__name__, int(s.limit())] for s in alg.stopping_conditions]
                err = aborted = None
                old = signal.signal(signal.SIGALRM, _on_alarm)
                signal.alarm(RUN_TIMEOUT_S)
                try:
                    alg.generate_tests()
                except _Abort as e:
                    aborted = str(e)
                except Exception as e:  # noqa: BLE001 - a crashing search is reported, not hidden
                    err = f"{type(e).__name__}: {e}"[:300]
                finally:
                    signal.alarm(0)
                    signal.signal(signal.SIGALRM, old)
                if aborted == "timeout":
                    raise RuntimeError(f"search run exceeded the hard {RUN_TIMEOUT_S}s limit: {vcommon.jdump(case)}")
                end_left = bool(real_resources_left())
        finally:
            config.configuration = saved_cfg
            sys.modules.pop(module, None)
        out = self._digest(events, configured, end_left, err)
        out["aborted"] = aborted
        return out

    @staticmethod
    def _digest(events, configured, end_left, err):
        """Cut the event stream at the iteration boundaries.

        Boundary 0 (the guard evaluation before iteration 1) is the `before_first_search_iteration`
        event where the algorithm emits one (it is the statement right before the `while`), else
        (MIO) `before_search_start`.  Boundary k >= 1 is the k-th `after_search_iteration` event."""
        pre: list[int] = []
        cur: list[int] = []
        iters: list[dict] = []
        tail: list[int] = []
        b0 = finish = None
        phase = "init"
        order_ok = True
        pending = n_start = n_first = n_finish = after_finish = 0
        stmts_by_result_differs = 0
        guards: list = []       # [completed iterations so far, execs so far, stmts so far, result]
        tot_e = tot_s = 0
        for kind, val in events:
            if kind == "guard":
                guards.append([len(iters), tot_e, tot_s, val])
            elif kind == "start":
                n_start += 1
                order_ok &= phase == "init"
                b0, phase = val, "pre"
            elif kind == "first":
                n_first += 1
                order_ok &= phase == "pre"
                pre, cur, b0, phase = cur, [], val, "loop"
            elif kind == "before-exec":
                pending += 1
            elif kind == "exec":
                pending -= 1
                if phase == "done":
                    after_finish += 1
                else:
                    cur.append(val[0])
                    tot_e += 1
                    tot_s += val[0]
                    if val[1] not in (0, val[0]):
                        stmts_by_result_differs += 1
            elif kind == "iter":
                order_ok &= phase in ("pre", "loop") and pending == 0
                phase = "loop"
                iters.append({"execs": cur, "after": val})
                cur = []
            elif kind == "finish":
                n_finish += 1
                order_ok &= phase in ("pre", "loop")
                tail, cur, finish, phase = cur, [], val, "done"
        return {"configured": configured, "err": err, "order_ok": bool(order_ok),
                "n_start": n_start, "n_first": n_first, "n_finish": n_finish,
                "boundary0": b0, "pre": pre, "iters": iters, "tail_execs": tail,
                "after_finish_execs": after_finish, "finish": finish, "end_resources_left": end_left,
                "stmts_by_result_differs": stmts_by_result_differs, "guards": guards}

    # -- model side -----------------------------------------------------------------------------
    def model_line(self, case):
        io = self.impl(case)
        if io["err"] is not None or io["aborted"] is not None or io["boundary0"] is None:
            return None
        effs = [{"pure": True, "execs": it["execs"]} for it in io["iters"]]
        # sentinel: one more iteration is offered to the model. If the real run ended with resources
        # left, its pure conjunct was false; otherwise the model has to refuse it because of a budget.
        effs.append({"pure": not io["end_resources_left"], "execs": [1, 2, 3]})
        return vcommon.jdump({"algo": case["algo"], "maxIterations": case["max_iterations"],
                              "maxStatements": case["max_statements"],
                              "maxExecutions": case["max_executions"], "pre": io["pre"], "effs": effs})

    def compare(self, case, io, mo):
        if "bad-op" in mo or "unparsable" in mo:
            return False
        n = len(io["iters"])
        if mo.get("started") != n:
            return False
        # counters of every configured condition at every boundary, in list order
        want = [[c[1] for c in io["boundary0"]["conds"]]] + [[c[1] for c in it["after"]["conds"]]
                                                              for it in io["iters"]]
        if mo.get("counters") != want:
            return False
        ful = [[c[3] for c in io["boundary0"]["conds"]]] + [[c[3] for c in it["after"]["conds"]]
                                                             for it in io["iters"]]
        if mo.get("fulfilled") != ful:
            return False
        own = self._own_counts(io)
        return mo.get("ghost") == [[b["iters"], b["execs"], b["stmts"]] for b in own]

    @staticmethod
    def _own_counts(io):
        """The harness' own counts at every boundary (boundary k = after k completed iterations)."""
        e, s = len(io["pre"]), sum(io["pre"])
        out = [{"iters": 0, "execs": e, "stmts": s}]
        for k, it in enumerate(io["iters"], 1):
            e += len(it["execs"])
            s += sum(it["execs"])
            out.append({"iters": k, "execs": e, "stmts": s})
        return out

    # -- the property on the observed run ---------------------------------------------------------
    def oracle(self, case, io):
        fs = []
        algo = case["algo"]
        if io["err"] is not None:
            # a crashing search is outside this property; counted, never an alarm
            self.count("search-raised:" + io["err"].split(":")[0])
            return fs
        own = self._own_counts(io)
        n = len(io["iters"])
        mi, me, ms = case["max_iterations"], case["max_executions"], case["max_statements"]
        if mi is not None and n > mi:
            fs.append(Failure({"algo": algo, "class": "iterations-exceed-budget"},
                              f"{algo}: {n} iterations completed with maximum_iterations={mi}",
                              detail={"completed": n, "budget": mi}))
        # iteration k+1 started at boundary k  (k = 0 .. n-1)
        for k in range(n):
            b = own[k]
            if me is not None and b["execs"] >= me:
                fs.append(Failure({"algo": algo, "class": "iteration-started-after-execution-budget"},
                                  f"{algo}: iteration {k + 1} started although {b['execs']} test executions "
                                  f">= maximum_test_executions={me} had been made",
                                  detail={"boundary": k, **b}))
                break
        for k in range(n):
            b = own[k]
            if ms is not None and b["stmts"] >= ms:
                fs.append(Failure({"algo": algo, "class": "iteration-started-after-statement-budget"},
                                  f"{algo}: iteration {k + 1} started although {b['stmts']} statements "
                                  f">= maximum_statement_executions={ms} had been executed",
                                  detail={"boundary": k, **b}))
                break
        snaps = [io["boundary0"]] + [it["after"] for it in io["iters"]]
        for k in range(n):
            ful = [c[0] for c in snaps[k]["conds"] if c[3]]
            if ful:
                fs.append(Failure({"algo": algo, "class": "iteration-started-after-fulfilled-condition"},
                                  f"{algo}: iteration {k + 1} started although {ful} reported is_fulfilled() "
                                  f"at the boundary before it", detail={"boundary": k, "snapshot": snaps[k]}))
                break
        # the same three statements on the directly observed guard evaluations: a passing
        # `resources_left()` that is not the last evaluation did start an iteration
        have = {f.signature["class"] for f in fs}
        guards = io["guards"]
        started = [g for g in guards[:-1] if g[3]]
        if io["aborted"] is not None:
            self.count("aborted-by-harness-cap:" + io["aborted"])
            started = [g for g in guards if g[3]]
        if mi is not None and len(started) > mi and "iterations-exceed-budget" not in have:
            fs.append(Failure({"algo": algo, "class": "iterations-exceed-budget"},
                              f"{algo}: the loop guard let {len(started)} iterations start with "
                              f"maximum_iterations={mi}" + (" (search cut off by the harness)"
                                                            if io["aborted"] else ""),
                              detail={"started": len(started), "budget": mi, "aborted": io["aborted"]}))
        for cls, idx, budget, word in (("iteration-started-after-execution-budget", 1, me, "test executions"),
                                       ("iteration-started-after-statement-budget", 2, ms, "statements")):
            bad = [g for g in started if budget is not None and g[idx] >= budget]
            if bad and cls not in have:
                fs.append(Failure({"algo": algo, "class": cls},
                                  f"{algo}: resources_left() let iteration {bad[0][0] + 1} start after "
                                  f"{bad[0][idx]} {word} (budget {budget})", detail={"guard": bad[0]}))
        if any(not g[3] for g in guards[:-1]):
            k = next(i for i, g in enumerate(guards[:-1]) if not g[3])
            fs.append(Failure({"algo": algo, "class": "loop-continued-after-resources-exhausted"},
                              f"{algo}: the loop guard was evaluated again after resources_left() had "
                              f"returned False (evaluation {k + 1} of {len(guards)})",
                              detail={"guards": guards[max(0, k - 2):k + 3]}))
        if io["aborted"] is not None:
            return fs
        if not io["order_ok"] or io["n_start"] != 1 or io["n_finish"] != 1:
            fs.append(Failure({"algo": algo, "class": "observer-protocol"},
                              f"{algo}: search observer protocol broken (start={io['n_start']}, "
                              f"finish={io['n_finish']}, order_ok={io['order_ok']})"))
        return fs

    def classify(self, case, io):
        if io["err"] is not None or io["aborted"] is not None:
            return None
        n = len(io["iters"])
        if io["stmts_by_result_differs"]:
            self.count("own-statement-count-differs-from-result.num_executed_statements")
        self.count("algo:" + case["algo"])
        self.count("module:" + case["module"])
        self.count("budgets:" + "".join(c for c, v in (("I", case["max_iterations"]),
                                                       ("E", case["max_executions"]),
                                                       ("S", case["max_statements"])) if v is not None))
        self.count("iterations:" + (str(n) if n <= 10 else ">10"))
        if io["end_resources_left"]:
            self.count("stopped-by:pure-test")
        else:
            last = io["iters"][-1]["after"] if io["iters"] else io["boundary0"]
            for c in last["conds"]:
                if c[3]:
                    self.count("stopped-by:" + c[0])
        if n == 0 and io["end_resources_left"]:
            return None
        return vcommon.jdump([case, [it["execs"] for it in io["iters"]], io["pre"]])


if __name__ == "__main__":
    run_main(C17)
