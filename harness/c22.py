"""C22 — minimization never reduces coverage (DESIGN §5 C22).

Correspondence (model `Driver/C22.lean` vs the real code, same inputs), five case kinds:

* ``minimize``  the real ``generator._minimize`` (ExceptionTruncation, TestCasePostProcessor with the unused-variable
                pass and the forward/backward visitor, TestSuiteMinimizationVisitor, CombinedMinimizationVisitor,
                coverage comparison + restore, EmptyTestCaseRemover) for CASE/SUITE/COMBINED x FORWARD/BACKWARD
* ``iter``      ``TestCasePostProcessor([Forward|BackwardIterativeMinimizationVisitor])`` alone
* ``suite``     ``TestSuiteMinimizationVisitor`` alone
* ``combined``  ``CombinedMinimizationVisitor`` alone
* ``protected`` ``get_assertion_protected_variables``

on real ``TestSuiteChromosome``/``TestCaseChromosome``/``TestCase``/``Statement``/assertion objects.  Only the
execution of the module under test is replaced: a stub executor returns real ``ExecutionResult`` objects that record
which statements ran (up to the first raising one) and coverage functions derived from the real
``TestSuiteCoverageFunction`` (so the real ``_run_test_suite_chromosome`` / ``ComputationCache`` protocol decides what
is re-executed and what is answered from a cache) count generated goals whose satisfaction may depend on the
statements executed earlier in the same test.  The result of ``remove_unused_variables`` (property C19) is recorded
and handed to the model.

The oracle evaluates the three clauses of the property on the implementation's suites before/after, with an
independent coverage evaluator, without the model.  `extra_checks` runs real searches (DYNAMOSA / MOSA / WHOLE_SUITE
on two tiny modules with state) with the real assertion generation and the real coverage functions in child
interpreters and applies the same oracle to what ``_minimize`` does for every strategy and direction.
"""
from __future__ import annotations

import json
import os
import re
import shutil
import subprocess
import sys
import tempfile
import textwrap

import vcommon
from vcommon import Failure, PropertyCheck, jdump, run_main

STRATEGIES = ("CASE", "SUITE", "COMBINED")
STMT_RE = re.compile(r"^(?:(var_\d+) = )?(fn_\d+)\((.*)\)$")


# ----------------------------------------------------------------------------------------------
# independent coverage evaluator (oracle side; shares nothing with the stub coverage functions)
# ----------------------------------------------------------------------------------------------
def run_tags(raising, tags):
    out = []
    for t in tags:
        out.append(t)
        if t in raising:
            break
    return out


def goal_count(goals, raising, tests_tags):
    runs = [run_tags(raising, tags) for tags in tests_tags]
    n = 0
    for goal in goals:
        hit = False
        for run in runs:
            for cl in goal:
                for i, t in enumerate(run):
                    before = run[:i]
                    if t == cl["tag"] and all(p in before for p in cl["pos"]) and not any(q in before for q in cl["neg"]):
                        hit = True
                        break
                if hit:
                    break
            if hit:
                break
        n += hit
    return n


# ----------------------------------------------------------------------------------------------
# real objects
# ----------------------------------------------------------------------------------------------
def _pyn():
    import libcst as cst
    import pynguin.assertion.assertion as ass
    import pynguin.configuration as config
    import pynguin.ga.computations as ff
    import pynguin.ga.postprocess as pp
    import pynguin.ga.testcasechromosome as tcc
    import pynguin.ga.testsuitechromosome as tsc
    import pynguin.generator as gen
    import pynguin.testcase.testcase as tc
    from pynguin.testcase.execution_result import ExecutionResult
    from pynguin.utils.orderedset import OrderedSet

    return dict(cst=cst, ass=ass, config=config, ff=ff, pp=pp, tcc=tcc, tsc=tsc, gen=gen, tc=tc,
                ExecutionResult=ExecutionResult, OrderedSet=OrderedSet)


def stmt_code(s):
    args = ", ".join(s["args"])
    return (f"{s['bound']} = " if s["bound"] else "") + f"{s['tag']}({args})"


def build_test(P, stmts):
    t = P["tc"].TestCase()
    for s in stmts:
        node = P["cst"].parse_statement(stmt_code(s))
        st = P["tc"].Statement(node=node, bound_variable=s["bound"], bound_type=int if s["bound"] else None)
        for src in s["asserts"]:
            if src == "!exc":
                st.assertions.append(P["ass"].ExceptionAssertion("builtins", "ValueError"))
            else:
                st.assertions.append(P["ass"].ObjectAssertion(src, 1))
        t.add_statement(st)
    t._var_counter = 1000  # noqa: SLF001
    return t


def abs_stmt(P, st):
    """(binder, ordered names read, roots of the reference-assertion sources, code without binder)."""
    code = P["cst"].Module(body=[st.node]).code.strip()
    m = STMT_RE.match(code)
    if m is None:
        raise RuntimeError(f"unexpected statement code {code!r}")
    target, tag, args = m.group(1), m.group(2), [a.strip() for a in m.group(3).split(",") if a.strip()]
    uses = [tag, *args]
    if set(uses) != set(st.used_variables()):
        raise RuntimeError(f"used_variables {sorted(st.used_variables())} != {uses} for {code!r}")
    if (target is None) != (st.bound_variable is None) or (target is not None and target != st.bound_variable):
        raise RuntimeError(f"binder {st.bound_variable!r} does not match code {code!r}")
    roots = []
    for a in st.assertions:
        if isinstance(a, P["ass"].ReferenceAssertion):
            roots.append(a.source.split(".")[0])
    return {"b": st.bound_variable, "u": uses, "a": sorted(roots), "rhs": f"{tag}({', '.join(args)})"}


def abs_suite(P, suite):
    return [[abs_stmt(P, st) for st in c.test_case.statements()] for c in suite.test_case_chromosomes]


def origin_map(ids, final_ids, before, restored):
    """Index (in the unminimized suite) of the test case each remaining test case stems from; -1 = unknown.
    Minimization edits the TestCase objects in place; a restore puts clones of all of them back (the empty
    ones are dropped afterwards)."""
    mapping = [ids.get(i, -1) for i in final_ids]
    if -1 in mapping and restored and all(m == -1 for m in mapping):
        cands = list(range(len(before))) if len(final_ids) == len(before) else [i for i, t in enumerate(before) if t]
        if len(cands) == len(final_ids):
            mapping = cands
    return mapping


class StubExecutor:
    """Replaces only the execution of the module under test."""

    def __init__(self, P, raising):
        self.P = P
        self.raising = set(raising)
        self.executions = 0

    def execute_multiple(self, test_cases):
        for t in test_cases:
            yield self.execute(t)

    def execute(self, t):
        self.executions += 1
        r = self.P["ExecutionResult"]()
        tags = []
        for i, st in enumerate(t.statements()):
            tag = abs_stmt(self.P, st)["u"][0]
            tags.append(tag)
            if tag in self.raising:
                r.report_new_thrown_exception(i, ValueError("stub"))
                break
        r.c22_tags = tags
        return r


def make_cov_class(P):
    class GoalCoverage(P["ff"].TestSuiteCoverageFunction):
        def __init__(self, executor, goals):
            self._executor = executor
            self.goals = goals

        def compute_coverage(self, individual) -> float:
            results = self._run_test_suite_chromosome(individual)  # the real re-execution protocol
            if not self.goals:
                return 1.0
            k = 0
            for goal in self.goals:
                hit = False
                for r in results:
                    run = r.c22_tags
                    for cl in goal:
                        for i, t in enumerate(run):
                            before = set(run[:i])
                            if t == cl["tag"] and set(cl["pos"]) <= before and not (set(cl["neg"]) & before):
                                hit = True
                    if hit:
                        break
                k += hit
            return k / len(self.goals)

    return GoalCoverage


class _Algo:
    def __init__(self, P, ffs):
        self.test_suite_coverage_functions = P["OrderedSet"](ffs)


def to_count(x, n):
    return round(x * n) if n else 1


# ----------------------------------------------------------------------------------------------
# the property on a before/after pair (shared by the correspondence oracle and the real runs)
# ----------------------------------------------------------------------------------------------
def property_failures(strategy, direction, before, after, mapping, cov_before, cov_after, where):
    """before/after: lists of tests, each a list of {"b","rhs","a"}; mapping[j] = index in `before` of the test that
    final test j stems from; cov_*: per coverage function, the covered-goal count (or exact value)."""
    fails = []
    if cov_before != cov_after:
        fails.append(Failure({"part": "coverage", "strategy": strategy},
                             f"{where}: {strategy}/{direction} minimization changed the coverage values "
                             f"{cov_before} -> {cov_after}"))
    for j, t in enumerate(after):
        src = before[mapping[j]]
        k = 0
        for st in t:
            while k < len(src) and not (src[k]["rhs"] == st["rhs"] and st["b"] in (None, src[k]["b"])):
                k += 1
            if k == len(src):
                fails.append(Failure({"part": "no-new-statement", "strategy": strategy},
                                     f"{where}: minimized test {j} contains {st!r}, which is not a statement of "
                                     f"the unminimized test {mapping[j]} (in order)"))
                break
            k += 1
    inv = {i: j for j, i in enumerate(mapping)}
    for i, src in enumerate(before):
        asserted = {r for st in src for r in st["a"]}
        for st in src:
            if st["b"] is None or st["b"] not in asserted:
                continue
            if i not in inv:
                # SUITE drops whole (non-empty) test cases by design; elsewhere a test only vanishes when the
                # statement visitors emptied it
                cls = "asserted-statement-in-removed-test-case" if strategy == "SUITE" else "statement-removed"
                fails.append(Failure({"part": "asserted", "class": cls, "strategy": strategy},
                                     f"{where}: test {i} with the asserted statement `{st['b']} = {st['rhs']}` "
                                     f"is not in the minimized suite ({strategy})"))
                continue
            t = after[inv[i]]
            if any(x["b"] == st["b"] and x["rhs"] == st["rhs"] for x in t):
                continue
            cls = "statement-unbound" if any(x["b"] is None and x["rhs"] == st["rhs"] for x in t) else "statement-removed"
            fails.append(Failure({"part": "asserted", "class": cls, "strategy": strategy},
                                 f"{where}: `{st['b']} = {st['rhs']}` (variable asserted on) of test {i} is "
                                 f"{'kept only without its binder' if cls == 'statement-unbound' else 'gone'} "
                                 f"after {strategy}/{direction} minimization"))
    return fails


# ----------------------------------------------------------------------------------------------
class C22(PropertyCheck):
    prop_id = "C22"
    level = "proof"
    prop_modules = ["PynguinModel.Props.C22"]
    extra_modules = ["PynguinModel.Model.Minimize"]
    driver = "Driver/C22.lean"
    n_quick = 400
    n_thorough = 5000
    n_search = 3000
    rule = ("non-trivial = the run removed at least one statement or test case, restored the suite, or skipped a "
            "protected statement; distinct by (kind, strategy, direction, outcome class, suite shape)")
    assumptions = [
        "coverage is a function of the executed statements (deterministic module under test); math.isclose on "
        "ratios k/n with n < 10^9 is equality of k",
        "TestCaseChromosome.__eq__ is equality of the rendered code (execution traces of equal code are equal)",
        "the suite's cached coverage values at the entry of _minimize are those of the suite",
        "remove_unused_variables keeps every statement (possibly without its binder) and keeps asserted "
        "statements bound with their assertions (property C19; checked on every recorded call)",
    ]
    trusted_base_extra = [
        "stub executor + goal-counting coverage functions stand in for executing the module under test in the "
        "correspondence part; the real executor and coverage functions run in the end-to-end part",
    ]

    def __init__(self, tier, seed):
        super().__init__(tier, seed)
        self._ru = {}
        self._P = None

    def P(self):
        if self._P is None:
            import logging

            logging.getLogger("pynguin").setLevel(logging.CRITICAL)
            logging.getLogger("pynguin").addHandler(logging.NullHandler())
            self._P = _pyn()
            self._P["Cov"] = make_cov_class(self._P)
        return self._P

    # ---- generator ---------------------------------------------------------------------------
    def gen_test(self, rng, pool, raising):
        n = rng.choice([0, 1, 1, 2, 2, 3, 3, 4, 5, 6])
        stmts, bound = [], []
        raised = False
        for i in range(n):
            tag = rng.choice(pool)
            b = f"var_{i}" if rng.random() < 0.85 else None
            k = rng.choice([0, 0, 1, 1, 2]) if bound else 0
            args = rng.sample(bound, min(k, len(bound)))
            asserts = []
            if not raised and tag not in raising:
                r = rng.random()
                if b is not None and r < 0.22:
                    asserts.append(rng.choice([b, b, b + ".x", b + ".inner.y"]))
                if bound and rng.random() < 0.12:
                    asserts.append(rng.choice(bound) + rng.choice(["", ".x"]))
                if rng.random() < 0.06:
                    asserts.append("module_0.counter")
            if tag in raising and not raised:
                raised = True
                if rng.random() < 0.7:
                    asserts.append("!exc")
            stmts.append({"tag": tag, "bound": b, "args": args, "asserts": asserts})
            if b is not None and not raised:
                bound.append(b)
        return stmts

    def gen_case(self, rng):
        kind = rng.choice(["minimize"] * 6 + ["iter", "suite", "combined", "protected"])
        pool = [f"fn_{i}" for i in range(rng.choice([2, 3, 4, 6]))]
        raising = [rng.choice(pool)] if rng.random() < 0.2 and kind in ("minimize", "iter", "combined") else []
        tests = [self.gen_test(rng, pool, raising) for _ in range(rng.choice([1, 2, 2, 3, 3, 4, 5]))]
        if len(tests) >= 2 and rng.random() < 0.3:   # tests with equal code (different assertions)
            src = rng.choice(tests)
            dup = [dict(s, asserts=[a for a in s["asserts"] if rng.random() < 0.5]) for s in src]
            tests.insert(rng.randrange(len(tests) + 1), dup)
        if kind == "minimize" and rng.random() < 0.15:
            # what a statement covers depends on an earlier one: every test keeps its own coverage VALUE when the
            # first statement goes, yet the suite loses a goal (only the final comparison of _minimize notices)
            a, b = rng.sample(pool, 2)
            dep = [{"tag": a, "bound": "var_0", "args": [], "asserts": []},
                   {"tag": b, "bound": rng.choice(["var_1", None]), "args": [], "asserts": []},
                   {"tag": a, "bound": "var_2", "args": [], "asserts": []}]
            tests.insert(rng.randrange(len(tests) + 1), dep)
            tests.append([{"tag": b, "bound": "var_0", "args": [], "asserts": []}])
            self.count("kind:minimize:order-dependent")
            covs = [[[{"tag": a, "pos": [], "neg": []}], [{"tag": b, "pos": [a], "neg": []}],
                     [{"tag": b, "pos": [], "neg": [a]}]]]
            return {"kind": kind, "strategy": rng.choice(STRATEGIES), "forward": rng.random() < 0.6,
                    "raising": [], "tests": tests, "covs": covs}
        covs = []
        for _ in range(rng.choice([1, 1, 2])):
            goals = []
            for _ in range(rng.choice([1, 2, 3, 4, 6])):
                goal = []
                for _ in range(rng.choice([1, 1, 2])):
                    goal.append({"tag": rng.choice(pool),
                                 "pos": rng.sample(pool, rng.choice([0, 0, 1])),
                                 "neg": rng.sample(pool, rng.choice([0, 0, 0, 1]))})
                goals.append(goal)
            covs.append(goals)
        self.count(f"kind:{kind}")
        return {"kind": kind, "strategy": rng.choice(STRATEGIES), "forward": rng.random() < 0.5,
                "raising": raising, "tests": tests, "covs": covs}

    # ---- implementation ----------------------------------------------------------------------
    def _suite(self, P, case):
        suite = P["tsc"].TestSuiteChromosome()
        for t in case["tests"]:
            suite.add_test_case_chromosome(P["tcc"].TestCaseChromosome(test_case=build_test(P, t)))
        ex = StubExecutor(P, case["raising"])
        ffs = [P["Cov"](ex, goals) for goals in case["covs"]]
        return suite, ex, ffs

    def impl(self, case):
        P = self.P()
        pp, gen, config = P["pp"], P["gen"], P["config"]
        suite, ex, ffs = self._suite(P, case)
        kind = case["kind"]
        out = {"kind": kind}
        before = abs_suite(P, suite)
        ids = {id(c.test_case): i for i, c in enumerate(suite.test_case_chromosomes)}
        if kind == "protected":
            out["protected"] = [sorted(pp.get_assertion_protected_variables(c.test_case))
                                for c in suite.test_case_chromosomes]
            return out
        direction = "FORWARD" if case["forward"] else "BACKWARD"
        err = None
        if kind == "iter":
            vis = (pp.ForwardIterativeMinimizationVisitor if case["forward"]
                   else pp.BackwardIterativeMinimizationVisitor)(P["OrderedSet"](ffs))
            suite.accept(pp.TestCasePostProcessor([vis]))
            out["removedStmts"] = vis.removed_statements
        elif kind == "suite":
            vis = pp.TestSuiteMinimizationVisitor(P["OrderedSet"](ffs))
            suite.accept(vis)
            out["removedTests"] = vis.removed_test_cases
        elif kind == "combined":
            vis = pp.CombinedMinimizationVisitor(P["OrderedSet"](ffs))
            suite.accept(vis)
            out["removedStmts"] = vis.removed_statements
        else:
            mini = config.configuration.test_case_output
            saved = (mini.post_process, mini.minimization.test_case_minimization_strategy,
                     mini.minimization.test_case_minimization_direction)
            mini.post_process = True
            mini.minimization.test_case_minimization_strategy = config.MinimizationStrategy(case["strategy"])
            mini.minimization.test_case_minimization_direction = config.MinimizationDirection(direction)
            for f in ffs:
                suite.add_coverage_function(f)
            for f in ffs:               # as in the pipeline: values cached, execution results present
                suite.get_coverage_for(f)
            checks, ru = [], []
            orig_check, orig_ru = gen._check_coverage, P["tc"].TestCase.remove_unused_variables  # noqa: SLF001

            def check(a, b):
                r = orig_check(a, b)
                checks.append((list(a), list(b), r))
                return r

            def rec_ru(self_tc):
                orig_ru(self_tc)
                ru.append([abs_stmt(P, st) for st in self_tc.statements()])

            gen._check_coverage = check  # noqa: SLF001
            P["tc"].TestCase.remove_unused_variables = rec_ru
            try:
                gen._minimize(suite, _Algo(P, ffs))  # noqa: SLF001
            except Exception as e:  # noqa: BLE001 - _run() catches and logs it the same way
                err = type(e).__name__
            finally:
                gen._check_coverage = orig_check  # noqa: SLF001
                P["tc"].TestCase.remove_unused_variables = orig_ru
                (mini.post_process, mini.minimization.test_case_minimization_strategy,
                 mini.minimization.test_case_minimization_direction) = saved
            ns = [len(g) for g in case["covs"]]
            if checks:
                a, b, same = checks[-1]
                out["orig"] = [to_count(x, n) for x, n in zip(a, ns)]
                out["minimized"] = [to_count(x, n) for x, n in zip(b, ns)]
                out["restored"] = not same
            out["nchecks"] = len(checks)
            if case["strategy"] != "COMBINED":
                self._ru[jdump(case)] = ru
            out["ru_calls"] = len(ru)
        if err:
            out["err"] = err
        after = abs_suite(P, suite)
        out["final"] = [[{"b": s["b"], "u": s["u"], "a": s["a"]} for s in t] for t in after]
        # which unminimized test does each remaining test stem from?
        out["mapping"] = origin_map(ids, [id(c.test_case) for c in suite.test_case_chromosomes], before,
                                    bool(out.get("restored")))
        out["before"] = before
        out["after"] = after
        out["executions"] = ex.executions
        return out

    # ---- model -------------------------------------------------------------------------------
    @staticmethod
    def _jstmt(s):
        return {"bound": int(s["bound"][4:]) if s["bound"] else None, "uses": [s["tag"], *s["args"]],
                "asserts": sorted({a.split(".")[0] for a in s["asserts"] if a != "!exc"})}

    def model_line(self, case):
        ru = self._ru.get(jdump(case)) if case["kind"] == "minimize" else None
        tests = []
        k = 0
        for t in case["tests"]:
            chop = None
            for i, s in enumerate(t):
                if s["tag"] in case["raising"]:
                    chop = i
                    break
            jt = {"stmts": [self._jstmt(s) for s in t], "chop": chop, "ru": None}
            if ru is not None and k < len(ru):
                jt["ru"] = [{"bound": int(s["b"][4:]) if s["b"] else None, "uses": s["u"], "asserts": s["a"]}
                            for s in ru[k]]
                k += 1
            tests.append(jt)
        return jdump({"op": case["kind"], "strategy": case["strategy"], "forward": case["forward"],
                      "tests": tests, "raising": case["raising"], "covs": case["covs"]})

    def compare(self, case, io, mo):
        if "bad-op" in mo or "unparsable" in mo or not mo.get("ok"):
            return False
        if case["kind"] == "protected":
            return [sorted(set(p)) for p in mo["protected"]] == io["protected"]
        if "err" in io:
            return False
        fin = [[{"b": s["b"], "u": s["u"], "a": sorted(s["a"])} for s in t] for t in mo["final"]]
        if fin != io["final"]:
            return False
        for k in ("removedStmts", "removedTests", "restored", "orig", "minimized"):
            if k in io and k in mo and io[k] != mo[k]:
                return False
        if case["kind"] == "minimize":
            if io["nchecks"] != 1:
                return False
            if not mo.get("ruOK", True):
                self.count("ru:not-ok")
        return True

    # ---- property oracle on the implementation -------------------------------------------------
    def oracle(self, case, io):
        if case["kind"] == "protected":
            fails = []
            for t, prot in zip(case["tests"], io["protected"]):
                roots = {a.split(".")[0] for s in t for a in s["asserts"] if a != "!exc"}
                for s in t:
                    if s["bound"] in roots and s["bound"] not in prot:
                        fails.append(Failure({"part": "asserted", "class": "asserted-variable-not-protected"},
                                             f"get_assertion_protected_variables misses {s['bound']} although an "
                                             f"assertion reads it; sources {sorted(a for x in t for a in x['asserts'])}"))
                        break
            return fails
        strategy = case["strategy"] if case["kind"] == "minimize" else {"iter": "CASE", "suite": "SUITE",
                                                                         "combined": "COMBINED"}[case["kind"]]
        direction = "FORWARD" if case["forward"] else "BACKWARD"
        if -1 in io["mapping"]:
            return [Failure({"part": "no-new-statement", "strategy": strategy, "class": "unknown-test-case"},
                            "the minimized suite holds a test case object that was not in the unminimized suite")]
        tags = lambda suite: [[s["u"][0] for s in t] for t in suite]  # noqa: E731
        cb = [goal_count(g, case["raising"], tags(io["before"])) for g in case["covs"]]
        ca = [goal_count(g, case["raising"], tags(io["after"])) for g in case["covs"]]
        if case["kind"] == "iter":
            # the visitor is specified per test case: each test keeps its own coverage values
            cb = [[goal_count(g, case["raising"], [t]) for g in case["covs"]] for t in tags(io["before"])]
            ca = [[goal_count(g, case["raising"], [t]) for g in case["covs"]] for t in tags(io["after"])]
        return property_failures(strategy, direction, io["before"], io["after"], io["mapping"], cb, ca,
                                 f"kind={case['kind']}")

    def classify(self, case, io):
        if case["kind"] == "protected":
            return jdump(io["protected"]) if any(io["protected"]) else None
        nb = sum(len(t) for t in io["before"])
        na = sum(len(t) for t in io["after"])
        outcome = ("restored" if io.get("restored") else "removed" if (na < nb or len(io["after"]) < len(io["before"]))
                   else "kept-protected" if any(s["a"] for t in io["before"] for s in t) else None)
        if outcome is None:
            return None
        self.count(f"outcome:{case['kind']}:{outcome}")
        if case["kind"] == "minimize":
            self.count(f"cfg:{case['strategy']}/{'F' if case['forward'] else 'B'}")
        return jdump([case["kind"], case["strategy"], case["forward"], outcome, io["before"], case["covs"]])

    # ---- known-finding witnesses --------------------------------------------------------------
    WITNESS_SUITE = {"kind": "minimize", "strategy": "SUITE", "forward": False, "raising": [],
                     "tests": [[{"tag": "fn_1", "bound": "var_0", "args": [], "asserts": ["var_0"]}],
                               [{"tag": "fn_1", "bound": "var_0", "args": [], "asserts": []},
                                {"tag": "fn_2", "bound": "var_1", "args": [], "asserts": ["var_1"]}]],
                     "covs": [[[{"tag": "fn_1", "pos": [], "neg": []}], [{"tag": "fn_2", "pos": [], "neg": []}]]]}

    def witnesses(self):
        io = self.impl(self.WITNESS_SUITE)
        fs = [f for f in self.oracle(self.WITNESS_SUITE, io)
              if f.signature.get("class") == "asserted-statement-in-removed-test-case"]
        for f in fs:
            f.case = self.WITNESS_SUITE
        self.extra_coverage["witness_suite_removes_asserted_test"] = bool(fs)
        return fs

    # ---- real search runs ---------------------------------------------------------------------
    def extra_checks(self):
        return run_real(self)


# ----------------------------------------------------------------------------------------------
# end-to-end part: real search, real assertion generation, real coverage functions
# ----------------------------------------------------------------------------------------------
SUTS = {
    "c22_state": """
        class Machine:
            def __init__(self) -> None:
                self.mode = 0
                self.hits = 0

            def set_mode(self, m: int) -> int:
                if m > 3:
                    self.mode = 3
                else:
                    self.mode = m
                return self.mode

            def react(self, x: int) -> str:
                self.hits += 1
                if self.mode == 0:
                    if x > 10:
                        return "idle-big"
                    return "idle"
                if self.mode == 1:
                    return "one"
                if x < 0:
                    return "neg"
                return "other"

            def tired(self) -> bool:
                if self.hits > 1:
                    return True
                return False


        def fresh(mode: int) -> Machine:
            m = Machine()
            if mode:
                m.set_mode(mode)
            return m
        """,
    "c22_pure": """
        def grade(points: int) -> str:
            if points < 0:
                raise ValueError("negative")
            if points < 50:
                return "fail"
            if points < 80:
                return "pass"
            return "top"


        def scale(a: float, b: float) -> float:
            if b == 0:
                return 0.0
            return a / b


        class Box:
            def __init__(self, w: int, h: int) -> None:
                self.w = w
                self.h = h

            def area(self) -> int:
                return self.w * self.h

            def grow(self, d: int) -> "Box":
                if d > 2:
                    return Box(self.w + d, self.h + d)
                return self
        """,
}

CHILD = r'''
import json, logging, os, sys
logging.disable(logging.CRITICAL)
sut_dir, module, algo, seed, out_path = sys.argv[1:6]
sys.path.insert(0, sut_dir)
import pynguin.configuration as config
import pynguin.generator as gen
import pynguin.ga.computations as ff
import pynguin.ga.testcasechromosome as tcc
import pynguin.ga.testsuitechromosome as tsc
import pynguin.assertion.assertion as ass
import libcst as cst
from pynguin.utils import randomness

metrics = [config.CoverageMetric.BRANCH] if algo == "DYNAMOSA" else [config.CoverageMetric.BRANCH, config.CoverageMetric.LINE]
config.configuration = config.Configuration(
    project_path=sut_dir, module_name=module,
    test_case_output=config.TestCaseOutputConfiguration(output_path=os.path.join(sut_dir, "out"),
        assertion_generation=config.AssertionGenerator.SIMPLE),
    algorithm=config.Algorithm(algo),
    stopping=config.StoppingConfiguration(maximum_iterations=int(os.environ.get("C22_ITER", "12")),
        maximum_test_execution_timeout=60, test_execution_time_per_statement=20),
    seeding=config.SeedingConfiguration(seed=int(seed)),
    statistics_output=config.StatisticsOutputConfiguration(coverage_metrics=metrics,
        statistics_backend=config.StatisticsBackend.NONE),
)
config.configuration.use_master_worker = False if hasattr(config.configuration, "use_master_worker") else None
randomness.RNG.seed(int(seed))
gen._verify_config() if hasattr(gen, "_verify_config") else None
setup = gen._setup_and_check()
assert setup is not None, "setup failed"
executor, cluster, provider = setup
algorithm = gen._instantiate_test_generation_strategy(executor, cluster, provider)
result = algorithm.generate_tests()
executor.clear_observers()
executor.clear_remote_observers()
gen._generate_assertions(executor, result, cluster)
ffs = list(algorithm.test_suite_coverage_functions)

def snap(suite):
    tests = []
    for c in suite.test_case_chromosomes:
        t = []
        for st in c.test_case.statements():
            code = cst.Module(body=[st.node]).code.strip()
            b = st.bound_variable
            rhs = code[len(b) + 3:] if b is not None and code.startswith(b + " = ") else code
            roots = sorted(a.source.split(".")[0] for a in st.assertions if isinstance(a, ass.ReferenceAssertion))
            t.append({"b": b, "rhs": rhs, "a": roots})
        tests.append(t)
    return tests

def fresh_cov(suite):
    """coverage values recomputed from scratch on deep copies (nothing cached, every test re-executed)"""
    s = tsc.TestSuiteChromosome()
    for c in suite.test_case_chromosomes:
        s.add_test_case_chromosome(tcc.TestCaseChromosome(test_case=c.test_case.clone()))
    vals = [repr(f.compute_coverage(s)) for f in ffs]
    timed_out = any(getattr(c.get_last_execution_result(), "timeout", False) for c in s.test_case_chromosomes)
    return vals, timed_out

runs = []
ALL = [(s, d) for s in ("CASE", "SUITE", "COMBINED") for d in ("FORWARD", "BACKWARD")]
wanted = [ALL[int(i)] for i in os.environ.get("C22_CONFIGS", "0,1,2,3,4,5").split(",")]
for strategy, direction in wanted:
    if True:
        suite = result.clone()
        mini = config.configuration.test_case_output
        mini.post_process = True
        mini.minimization.test_case_minimization_strategy = config.MinimizationStrategy(strategy)
        mini.minimization.test_case_minimization_direction = config.MinimizationDirection(direction)
        before = snap(suite)
        cov_before, unstable = fresh_cov(suite)
        ids = {id(c.test_case): i for i, c in enumerate(suite.test_case_chromosomes)}
        checks = []
        orig_check = gen._check_coverage
        def check(a, b, _o=orig_check):
            r = _o(a, b); checks.append(r); return r
        gen._check_coverage = check
        err = None
        try:
            gen._minimize(suite, algorithm)
        except Exception as e:
            err = type(e).__name__ + ": " + str(e)[:200]
        finally:
            gen._check_coverage = orig_check
        after = snap(suite)
        restored = bool(checks) and not checks[-1]
        mapping = [ids.get(id(c.test_case), -1) for c in suite.test_case_chromosomes]
        if -1 in mapping and restored and all(m == -1 for m in mapping):
            cands = list(range(len(before))) if len(after) == len(before) else [i for i, t in enumerate(before) if t]
            if len(cands) == len(after):
                mapping = cands
        cov_after, unstable2 = fresh_cov(suite)
        runs.append({"strategy": strategy, "direction": direction, "before": before, "after": after,
                     "cov_before": cov_before, "cov_after": cov_after, "mapping": mapping,
                     "restored": restored, "err": err, "unstable": bool(unstable or unstable2)})
json.dump({"runs": runs, "tests": len(result.test_case_chromosomes)}, open(out_path, "w"))
'''


def run_real(chk) -> list[Failure]:
    n_runs = 1 if chk.tier == "quick" else 6
    if os.environ.get("C22_REAL_RUNS"):
        n_runs = int(os.environ["C22_REAL_RUNS"])
    fails: list[Failure] = []
    tmp = tempfile.mkdtemp(prefix="c22-")
    try:
        for name, src in SUTS.items():
            with open(os.path.join(tmp, name + ".py"), "w") as f:
                f.write(textwrap.dedent(src))
        os.makedirs(os.path.join(tmp, "out"), exist_ok=True)
        child = os.path.join(tmp, "child.py")
        with open(child, "w") as f:
            f.write(CHILD)
        algos = ["DYNAMOSA", "MOSA", "WHOLE_SUITE"]
        mods = list(SUTS)
        env = dict(os.environ, PYTHONHASHSEED="0", PYNGUIN_DANGER_AWARE="1")
        stats = {"runs": 0, "configs": 0, "removed": 0, "restored": 0, "asserted": 0, "errors": 0, "unstable": 0}
        for r in range(n_runs):
            k = r + chk.seed
            module, algo = mods[k % len(mods)], algos[(k // len(mods)) % len(algos)]
            seed = chk.seed * 1000 + r
            out = os.path.join(tmp, f"out{r}.json")
            if chk.tier == "quick":   # three of the six configurations, rotating with the seed
                k = chk.seed + r
                env["C22_CONFIGS"] = ",".join(str(x) for x in sorted({(k + 1) % 2, 2 + k % 2, 4 + (k + 1) % 2}))
                env["C22_ITER"] = "8"
            try:
                p = subprocess.run([vcommon.PY, child, tmp, module, algo, str(seed), out], env=env,
                                   capture_output=True, text=True, timeout=900)
            except subprocess.TimeoutExpired as e:
                raise RuntimeError(f"real run {module}/{algo}/{seed} timed out") from e
            if p.returncode != 0 or not os.path.exists(out):
                raise RuntimeError(f"real run {module}/{algo}/{seed} failed rc={p.returncode}: {p.stderr[-1500:]}")
            data = json.load(open(out))
            stats["runs"] += 1
            for run in data["runs"]:
                stats["configs"] += 1
                where = f"real run {module}/{algo}/seed={seed}"
                nb = sum(len(t) for t in run["before"])
                na = sum(len(t) for t in run["after"])
                stats["removed"] += nb > na
                stats["restored"] += run["restored"]
                stats["asserted"] += sum(1 for t in run["before"] for s in t if s["a"])
                if run["err"]:
                    stats["errors"] += 1
                if -1 in run["mapping"]:
                    fails.append(Failure({"part": "no-new-statement", "strategy": run["strategy"],
                                          "class": "unknown-test-case"}, where + ": unknown test case object"))
                    continue
                if run["unstable"]:   # an execution hit the wall-clock timeout: coverage values are not comparable
                    stats["unstable"] += 1
                    run["cov_after"] = run["cov_before"]
                fs = property_failures(run["strategy"], run["direction"], run["before"], run["after"], run["mapping"],
                                       run["cov_before"], run["cov_after"], where)
                for f in fs:
                    f.case = {"real_run": {"module": module, "algorithm": algo, "seed": seed,
                                           "strategy": run["strategy"], "direction": run["direction"]},
                              "before": run["before"], "after": run["after"]}
                fails += fs
        chk.extra_coverage["real_runs"] = stats
    finally:
        shutil.rmtree(tmp, ignore_errors=True)
    return fails


if __name__ == "__main__":
    run_main(C22)
