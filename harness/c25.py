"""C25 — subtyping is a preorder consistent with the class hierarchy (DESIGN §5 C25).

One case = one generated module (a random class hierarchy over builtins: single/multiple inheritance,
subclasses of int/float/list/dict/…, generic-alias bases) analysed by the REAL `generate_test_cluster`, plus a
pool of random proper types over its classes.  On the resulting real `TypeSystem` the adapter evaluates
`is_subtype`, `is_maybe_subtype`, `subtype_distance` on ALL ordered pairs of the pool, `is_subclass` and
`get_shortest_path_length` on all pairs of analysed classes, `_fixup_known_generics` on raw instances, and exports
the inheritance graph.  The Lean model (`Driver/C25.lean`) receives only the class table read from Python's
`__bases__` (not pynguin's graph), builds the graph itself and answers the same queries.

The pool is a random part (types + related variants) plus two focused families: (A) a NON-union type with a union
nested at depth 1-3 in a tuple element / list, set, dict or user-class argument, the same type with that union
narrowed to one member, and unions that contain the latter (so the shared "union on the right" fast path of
`is_subtype` / `is_maybe_subtype` is decided by a nested union); (B) parameterised instances of two DIFFERENT
classes related by inheritance (user class over list/set/dict/user class), both directions, + an unrelated class.

Oracle = the property in its own words, on the implementation's answers only: reflexive, transitive, Any on top,
union-left ⇔ all members (lenient: some member), union-right with a non-union left ⇔ some member (both relations,
members queried on the real type system) and monotone in the right union, strict ⇒ lenient, `is_subclass` ==
`issubclass` (+ numeric tower), distance defined ⇒ may-be-subtype (between Instances: ⇒ Python subclass), distance
of identical types is 0.

HISTORIES (case key `hist`): on ONE real `TypeSystem()` all classes are registered without edges (`to_type_info`), then
the `(base, class)` pairs of Python's `__bases__` are added with `add_subclass_edge` in some order (as the module
analysis does / supers first / leaves first / shuffled, an edge repeated, `enable_numeric_tower` somewhere) and memoised
queries (`is_subclass`, `is_subtype`, `is_maybe_subtype`, `subtype_distance`, `get_subclasses`, `get_superclasses`) are
asked BEFORE and AFTER each edge (the pair of the edge itself, neighbours, re-asked earlier queries), with a full sweep
at the end.  The model replays the history through C26's memo model (`Generators.run`); the oracle compares every
answer with a type system that received the same edges and was never queried before ("consistent with the class
hierarchy" = a function of the hierarchy of that moment) and the final `is_subclass` / argument-free `Instance`
answers with `issubclass` (+ tower).
"""
from __future__ import annotations

import atexit
import hashlib
import importlib
import shutil
import sys
import tempfile
from pathlib import Path

import vcommon
from vcommon import Failure, PropertyCheck, jdump, run_main

BUILTIN_BASES = ["object", "int", "float", "complex", "str", "bytes", "list", "dict", "set", "tuple",
                 "Exception", "BaseException", "list[int]", "dict[str, int]"]
#: parents used only to *generate* related types (generalising a class to an ancestor)
BUILTIN_PARENTS = {
    "builtins.bool": ["builtins.int"], "builtins.int": ["builtins.float", "builtins.object"],
    "builtins.float": ["builtins.complex", "builtins.object"], "builtins.complex": ["builtins.object"],
    "builtins.Exception": ["builtins.BaseException"], "builtins.BaseException": ["builtins.object"],
    "builtins.str": ["builtins.object"], "builtins.bytes": ["builtins.object"],
    "builtins.list": ["builtins.object"], "builtins.dict": ["builtins.object"],
    "builtins.set": ["builtins.object"], "builtins.object": [],
}
INST_BUILTINS = ["builtins.int", "builtins.float", "builtins.complex", "builtins.bool", "builtins.str",
                 "builtins.bytes", "builtins.object", "builtins.list", "builtins.set", "builtins.dict"]
ARITY = {"builtins.list": 1, "builtins.set": 1, "builtins.dict": 2}
TOWER = ["builtins.bool", "builtins.int", "builtins.float", "builtins.complex"]


def _full(base: str) -> str:
    base = base.split("[")[0]
    return base if base.startswith("K") else "builtins." + base


# ---- type descriptions: "A" | "N" | {"i": [cls, [args]]} | {"t": [unk, [args]]} | {"u": [items]} ----------
def t_children(t):
    if isinstance(t, str):
        return []
    if "i" in t:
        return t["i"][1]
    if "t" in t:
        return t["t"][1]
    return t["u"]


def t_any(pred, t) -> bool:
    return pred(t) or any(t_any(pred, c) for c in t_children(t))


def contains_any(t):
    return t_any(lambda x: x == "A", t)


def contains_none(t):
    return t_any(lambda x: x == "N", t)


def has_args(t):
    return t_any(lambda x: isinstance(x, dict) and "i" in x and len(x["i"][1]) > 0, t)


def union_without_instance(t):
    return t_any(lambda x: isinstance(x, dict) and "u" in x
                 and not any(isinstance(m, dict) and "i" in m for m in x["u"]), t)


class C25(PropertyCheck):
    prop_id = "C25"
    prop_modules = ["PynguinModel.Props.C25"]
    extra_modules = ["PynguinModel.Model.Types", "PynguinModel.Model.Generators"]
    driver = "Driver/C25.lean"
    n_quick = 40
    n_thorough = 600
    n_search = 300
    rule = ("one case = one generated module (3-9 classes over builtins, multiple inheritance) analysed by "
            "generate_test_cluster + a pool of 14-23 proper types (random types and variants; non-union types with "
            "a union nested at depth 1-3 together with their narrowed forms inside right-hand unions; "
            "parameterised instances of different related classes); all ordered pairs are queried "
            "(is_subtype, is_maybe_subtype, subtype_distance), all pairs of analysed classes (is_subclass, "
            "shortest path); + one HISTORY per case on a new TypeSystem: classes registered, __bases__ edges added in "
            "one of five orders with memoised queries before/after every edge and a final sweep, every answer "
            "compared with the memo model and with a never-queried type system; non-trivial = distinct case whose pool has at least one strict non-identical "
            "subtype pair and one defined non-identical distance")
    assumptions = [
        "types are well-formed: classes known to the type system, list/set/dict instances carry 1/1/2 arguments "
        "(what _fixup_known_generics guarantees), unions non-empty (asserted by UnionType)",
        "StringSubtype, Unsupported and type-hint conversion are outside the model",
        "histories: lru_cache eviction is not modelled (a history asks far fewer distinct queries than maxsize)",
        "Python's issubclass is taken on plain classes (no ABC registration / __subclasscheck__ in generated modules)",
    ]
    trusted_base_extra = [
        "networkx has_path / shortest_path_length are re-implemented as a level BFS (proved = reachability) and "
        "compared on every pair of analysed classes",
    ]

    def __init__(self, tier, seed):
        super().__init__(tier, seed)
        self.tmp = Path(tempfile.mkdtemp(prefix="c25-"))
        atexit.register(shutil.rmtree, self.tmp, True)
        self.ctx: dict[str, dict] = {}

    # -- generation -----------------------------------------------------------------------------
    def _gen_classes(self, rng):
        """Random class table; every candidate is really created so that MRO/layout conflicts are rejected."""
        n = rng.randint(3, 9)
        specs, real = [], {}
        env = {"object": object, "int": int, "float": float, "complex": complex, "str": str, "bytes": bytes,
               "list": list, "dict": dict, "set": set, "tuple": tuple, "Exception": Exception,
               "BaseException": BaseException, "list[int]": list[int], "dict[str, int]": dict[str, int]}
        for k in range(n):
            name = f"K{k}"
            for _attempt in range(20):
                nb = rng.choice([0, 1, 1, 1, 2, 2, 3])
                cands = list(real) * 3 + BUILTIN_BASES
                bases = []
                for _ in range(nb):
                    b = rng.choice(cands)
                    if b not in bases:
                        bases.append(b)
                if bases and rng.random() < 0.25:
                    # name an INDIRECT base again (`class C(B, A)` with `B(A)`): legal after the direct ones; the
                    # inheritance graph gets a shortcut edge A -> C next to the path A -> B -> C
                    first = real.get(bases[0]) or env[bases[0]]
                    mro = getattr(first, "__mro__", ())[1:]
                    again = [nm for nm in list(real) + list(env) if (real.get(nm) or env[nm]) in mro]
                    if again:
                        b = rng.choice(again)
                        if b not in bases:
                            bases.append(b)
                try:
                    cls = type(name, tuple(real.get(b) or env[b] for b in bases), {})
                except TypeError:
                    continue
                specs.append([name, bases])
                real[name] = cls
                break
            else:
                specs.append([name, []])
                real[name] = type(name, (), {})
        return specs

    def _gen_ty(self, rng, classes, depth):
        r = rng.random()
        if depth <= 0:
            r = min(r, 0.62)
        if r < 0.07:
            return "A"
        if r < 0.13:
            return "N"
        if r < 0.63:
            c = rng.choice(classes)
            if c in ARITY:
                args = [self._gen_ty(rng, classes, depth - 1) for _ in range(ARITY[c])]
            elif c.startswith("K") and rng.random() < 0.15:
                args = [self._gen_ty(rng, classes, depth - 1) for _ in range(rng.randint(1, 2))]
            else:
                args = []
            return {"i": [c, args]}
        if r < 0.78:
            if rng.random() < 0.1:
                return {"t": [True, ["A"]]}
            return {"t": [False, [self._gen_ty(rng, classes, depth - 1) for _ in range(rng.randint(0, 3))]]}
        return {"u": [self._gen_ty(rng, classes, depth - 1) for _ in range(rng.randint(1, 3))]}

    def _variant(self, rng, t, classes, parents):
        """A type related to `t`: a class generalised to an ancestor / specialised, a subterm replaced by Any,
        wrapped into a union, or a union member dropped."""
        k = rng.random()
        if isinstance(t, str):
            return {"u": [t, self._gen_ty(rng, classes, 0)]} if k < 0.5 else t
        if k < 0.12:
            return "A"
        if k < 0.30:
            return {"u": [t, self._gen_ty(rng, classes, 0)][:: rng.choice([1, -1])]}
        if "i" in t:
            c, args = t["i"]
            if k < 0.75:
                ups = parents.get(c, [])
                downs = [d for d, ps in parents.items() if c in ps]
                pick = ups if (rng.random() < 0.7 and ups) else downs
                if pick:
                    c2 = rng.choice(pick)
                    if ARITY.get(c2) == ARITY.get(c) and c2 != "builtins.tuple":
                        return {"i": [c2, args]}
                    if c2 not in ARITY and c2 != "builtins.tuple":
                        return {"i": [c2, []]}
            if args:
                j = rng.randrange(len(args))
                return {"i": [c, [self._variant(rng, a, classes, parents) if i == j else a
                                  for i, a in enumerate(args)]]}
            return t
        if "t" in t:
            unk, args = t["t"]
            if args and not unk:
                j = rng.randrange(len(args))
                return {"t": [unk, [self._variant(rng, a, classes, parents) if i == j else a
                                    for i, a in enumerate(args)]]}
            return t
        items = t["u"]
        if len(items) > 1 and k < 0.6:
            j = rng.randrange(len(items))
            return {"u": [m for i, m in enumerate(items) if i != j]}
        j = rng.randrange(len(items))
        return {"u": [self._variant(rng, m, classes, parents) if i == j else m for i, m in enumerate(items)]}

    # -- focused families (appended to the random pool) ---------------------------------------------
    @staticmethod
    def _leaf(rng, classes, none_p=0.1):
        """An argument-free type: an instance of a non-generic class, sometimes None."""
        if rng.random() < none_p:
            return "N"
        return {"i": [rng.choice([c for c in classes if c not in ARITY]), []]}

    def _wrap(self, rng, classes, user, depth):
        """A one-hole context `hole -> type`: a tuple element, a list/set/dict argument or an argument of a user
        class, nested `depth` times (so the hole sits at depth 1-3 of a NON-union type)."""
        k = rng.random()
        if k < 0.45:
            n = rng.randint(1, 3)
            pos = rng.randrange(n)
            others = [self._leaf(rng, classes) for _ in range(n)]

            def f(h):
                return {"t": [False, [h if i == pos else others[i] for i in range(n)]]}
        elif k < 0.60:
            def f(h):
                return {"i": ["builtins.list", [h]]}
        elif k < 0.70:
            def f(h):
                return {"i": ["builtins.set", [h]]}
        elif k < 0.87:
            other = self._leaf(rng, classes, 0.0)
            first = rng.random() < 0.4

            def f(h):
                return {"i": ["builtins.dict", [h, other] if first else [other, h]]}
        else:
            c = rng.choice(user)

            def f(h):
                return {"i": [c, [h]]}
        if depth <= 1:
            return f
        inner = self._wrap(rng, classes, user, depth - 1)
        return lambda h: f(inner(h))

    def _fam_nested_union(self, rng, classes, user, parents):
        """A non-union type L with a union nested in a tuple element / generic argument, the same type M with the
        union narrowed to one member (L may be an M, but is not strictly one), and unions R that hold M — so
        that the right-hand-union path of both relations is driven with a left operand whose nested union decides
        the answer; plus a neighbour (wider nested union on the right, other member, left union, decoy)."""
        members = []
        for _ in range(12):
            m = self._leaf(rng, classes)
            if m not in members:
                members.append(m)
            if len(members) >= rng.choice([2, 2, 3]):
                break
        if len(members) < 2:
            return []
        union = {"u": list(members)}
        if len(members) == 3 and rng.random() < 0.2:
            union = {"u": [members[0], {"u": members[1:]}]}
        m = rng.choice(members)
        narrowed = m
        if isinstance(m, dict) and rng.random() < 0.25:  # a superclass of the member still "may" fit
            ups = [c for c in parents.get(m["i"][0], []) if c not in ARITY]
            if ups:
                narrowed = {"i": [rng.choice(ups), []]}
        wrap = self._wrap(rng, classes, user, rng.choice([1, 1, 2]))
        left, mid = wrap(union), wrap(narrowed)

        def other():
            k = rng.random()
            if k < 0.45:
                return self._leaf(rng, classes, 0.3)
            if k < 0.75:
                return {"t": [False, [self._leaf(rng, classes) for _ in range(rng.randint(0, 3))]]}
            return {"i": ["builtins.list", [self._leaf(rng, classes)]]}

        x = other()
        items = [mid, x] if rng.random() < 0.5 else [x, mid]
        if rng.random() < 0.25:
            items.insert(rng.randrange(3), other())
        res = [left, mid, {"u": items}]
        k = rng.random()
        if k < 0.25:    # wider nested union inside a member of the right union: holds strictly
            res.append({"u": [wrap({"u": members + [self._leaf(rng, classes)]}), x]})
        elif k < 0.5:   # a different member
            m2 = rng.choice([q for q in members if q != m] or members)
            res.append({"u": [x, wrap(m2)]})
        elif k < 0.7:   # union on the left as well
            res.append({"u": [left, other()]})
        elif k < 0.85:  # decoy: same shape, a type outside the nested union
            res.append({"u": [wrap(self._leaf(rng, classes)), x]})
        else:           # the nested union itself widened by Any / None
            res.append(wrap({"u": [m, rng.choice(["A", "N"])]}))
        return res

    def _fam_related_generic(self, rng, classes, user, parents):
        """Parameterised instances of two DIFFERENT classes related by inheritance (user class over list/set/dict
        or over another user class), in both directions, with equal / related / unrelated arguments, plus an
        instance of an unrelated class carrying the same arguments."""
        anc = {}

        def ancestors(c):
            if c not in anc:
                anc[c] = set()
                for p_ in parents.get(c, []):
                    anc[c] |= {p_} | ancestors(p_)
            return anc[c]

        ok = lambda c: c in ARITY or c.startswith("K")  # noqa: E731
        pairs = sorted((c, a) for c in user for a in ancestors(c) if a != c and ok(a))
        if not pairs:
            self.count("fam:no-related-class-pair")
            return []
        sub_c, sup_c = rng.choice(pairs)
        n_sup = ARITY.get(sup_c) or rng.randint(1, 2)
        n_sub = ARITY.get(sub_c) or (n_sup if rng.random() < 0.8 else rng.randint(1, 2))
        base = [self._leaf(rng, classes, 0.0) for _ in range(2)]

        def related(a):
            k = rng.random()
            c = a["i"][0]
            if k < 0.45:
                return a
            if k < 0.75:
                near = parents.get(c, []) + [d for d, ps in parents.items() if c in ps]
                near = [d for d in near if d not in ARITY]
                return {"i": [rng.choice(near), []]} if near else a
            if k < 0.87:
                return {"u": [a, self._leaf(rng, classes)]}
            return "A" if k < 0.94 else self._leaf(rng, classes)

        sup_t = {"i": [sup_c, base[:n_sup]]}
        sub_t = {"i": [sub_c, [related(a) for a in base[:n_sub]]]}
        res = [sup_t, sub_t]
        k = rng.random()
        others = [c for c in user + sorted(ARITY) if c not in (sub_c, sup_c)
                  and sup_c not in ancestors(c) and c not in ancestors(sub_c)]
        if k < 0.4 and others:     # unrelated class, same arguments
            c = rng.choice(others)
            res.append({"i": [c, base[:ARITY.get(c) or n_sup]]})
        elif k < 0.6:              # the subclass without arguments
            res.append({"i": [sub_c, []]} if sub_c not in ARITY else {"i": [sup_c, base[:n_sup]]})
        elif k < 0.8:              # inside a union / a tuple
            res.append({"u": [sub_t, self._leaf(rng, classes, 0.3)]})
        else:
            res += [{"t": [False, [sup_t]]}, {"t": [False, [sub_t]]}]
        return res

    def gen_case(self, rng):
        specs = self._gen_classes(rng)
        parents = {k: list(v) for k, v in BUILTIN_PARENTS.items()}
        for name, bases in specs:
            parents[name] = [_full(b) for b in bases if _full(b) != "builtins.tuple"] or ["builtins.object"]
        user = [s[0] for s in specs]
        classes = user * 3 + INST_BUILTINS + ["builtins.int", "builtins.float", "builtins.bool", "builtins.object"]
        used = {b for _, bases in specs for b in bases}
        if "Exception" in used:  # builtins are only analysed when the module reaches them
            classes += ["builtins.Exception", "builtins.BaseException"]
        elif "BaseException" in used:
            classes += ["builtins.BaseException"]
        parents = {k: [p for p in v if p in classes] for k, v in parents.items() if k in classes}
        pool = []
        for _ in range(rng.randint(4, 6)):
            t = self._gen_ty(rng, classes, rng.choice([1, 2, 2, 3]))
            pool.append(t)
            for _ in range(rng.choice([1, 1, 2])):
                t = self._variant(rng, t, classes, parents)
                pool.append(t)
        pool = pool[:10]
        fam = []
        for _ in range(2):
            fam += self._fam_nested_union(rng, classes, user, parents)
        fam += self._fam_related_generic(rng, classes, user, parents)
        if rng.random() < 0.3:
            fam += self._fam_related_generic(rng, classes, user, parents)
        for t in fam:
            if t not in pool and len(pool) < 22:
                pool.append(t)
        pool = pool + ["A"]
        raw = []
        for _ in range(3):
            c = rng.choice(["builtins.list", "builtins.set", "builtins.dict", rng.choice(user), "builtins.int"])
            raw.append({"i": [c, [self._gen_ty(rng, classes, 0) for _ in range(rng.randint(0, 3))]]})
        return {"classes": specs, "pool": pool, "raw": raw, "hist": self._gen_hist(rng, specs, pool)}

    # -- histories: queries interleaved with the construction of the hierarchy ------------------------
    @staticmethod
    def _class_edges(specs):
        """Registration order and `(super, sub)` pairs in Python's own words (`__bases__`) for the generated classes
        and every builtin they (or the instance types used) reach."""
        import builtins
        seen, edges = [], []

        def reg(name):
            if name in seen or name.startswith("K"):
                return
            cls = getattr(builtins, name.split(".", 1)[1])
            for b in cls.__bases__:
                reg("builtins." + b.__name__)
            seen.append(name)
            edges.extend(("builtins." + b.__name__, name) for b in cls.__bases__)

        for name, bases in specs:
            bs = list(dict.fromkeys(_full(b) for b in bases)) or ["builtins.object"]
            for b in bs:
                reg(b)
            seen.append(name)
            edges.extend((b, name) for b in bs)
        for b in ("object", "int", "float", "bool", "complex", "str", "list", "dict", "set"):
            reg("builtins." + b)
        return seen, edges

    def _gen_hist(self, rng, specs, pool):
        seen, edges = self._class_edges(specs)
        user = [s_[0] for s_ in specs]
        plain = [c for c in seen if c not in ARITY and c != "builtins.tuple"]
        inst = lambda c: {"i": [c, []]}  # noqa: E731
        # types: an argument-free instance of every user class and of some builtins, composites over them, pool types
        types = [inst(c) for c in user]
        types += [inst(c) for c in ("builtins.object", "builtins.int", "builtins.float", "builtins.bool")]
        k1, k2 = rng.choice(user), rng.choice(plain)
        comp = [{"i": ["builtins.list", [inst(k1)]]}, {"t": [False, [inst(k1), inst(k2)]]},
                {"u": [inst(k2), inst(rng.choice(user))]}, {"i": ["builtins.dict", [inst("builtins.int"), inst(k1)]]},
                {"i": [rng.choice(user), [inst(k2)]]}, {"i": ["builtins.set", [{"u": [inst(k1), "N"]}]]},
                {"t": [False, [{"u": [inst(k1), inst(k2)]}]]}]
        rng.shuffle(comp)
        cand = comp[:rng.randint(2, 4)] + rng.sample(pool, min(len(pool), 3))
        for t in cand:
            if t not in types and len(types) < 17:
                types.append(t)
        mentions = {}
        for k, t in enumerate(types):
            for c in seen:
                if t_any(lambda x, c=c: isinstance(x, dict) and "i" in x and x["i"][0] == c, t):
                    mentions.setdefault(c, []).append(k)
        # order of the edges
        depth = {}
        for a, b in edges:  # `edges` lists the bases of a class after the edges of these bases
            depth[b] = max(depth.get(b, 0), depth.get(a, 0) + 1)
        style = rng.choice(["analysis", "analysis", "supers-first", "leaves-first", "shuffle", "shuffle",
                            "indirect-bases-last", "indirect-bases-last"])
        order = list(edges)
        if style == "indirect-bases-last":
            # every edge from a base that is also an ancestor of another base comes after all other edges
            anc = {c: {c} for c in seen}
            for a, b in edges:
                anc[b] |= anc[a]
            late = [(a, b) for a, b in edges if any(b2 == b and o != a and a in anc[o] for o, b2 in edges)]
            order = [e for e in edges if e not in late]
            if rng.random() < 0.5:
                rng.shuffle(order)
            order += late
        if style == "supers-first":
            order.sort(key=lambda e: (depth.get(e[1], 0), rng.random()))
        elif style == "leaves-first":
            order.sort(key=lambda e: (-depth.get(e[1], 0), rng.random()))
        elif style == "shuffle":
            rng.shuffle(order)
        if rng.random() < 0.35:
            order.insert(rng.randrange(len(order) + 1), rng.choice(edges))
        steps = [["edge", a, b] for a, b in order]
        if rng.random() < 0.75:
            steps.insert(rng.randrange(len(steps) + 1), ["tower"])
        asked = []

        def ty_of(c):
            return mentions[c][0] if c in mentions and types[mentions[c][0]] == inst(c) else None

        up = {c: {c} for c in seen}      # final ancestors / descendants (the edge list is in dependency order)
        for a, b in edges:
            up[b] |= up[a]
        down = {c: sorted(d for d in seen if c in up[d]) for c in seen}

        def core(sup, sub):
            """the pair of the edge itself and, sometimes, an ancestor of the one with a descendant of the other"""
            pairs = [(sup, sub)]
            if rng.random() < 0.5:
                pairs.append((rng.choice(sorted(up[sup])), rng.choice(down[sub])))
            qs = []
            for x, y in pairs:
                qs.append(["subclass", y, x])
                i, j = ty_of(x), ty_of(y)
                if i is not None and j is not None:
                    qs += [["dist", i, j], ["sub", j, i]]
                    if rng.random() < 0.5:
                        qs.append(["maybe", j, i])
            if rng.random() < 0.4:
                qs.append([rng.choice(["superclasses", "subclasses"]), rng.choice([sup, sub])])
            return qs

        def near(sup, sub):
            k = rng.random()
            cs = [sup, sub, rng.choice(seen), rng.choice(user)]
            if k < 0.55:
                ts = [x for c in cs for x in mentions.get(c, [])] or list(range(len(types)))
                return [rng.choice(["sub", "maybe", "dist", "dist"]), rng.choice(ts),
                        rng.choice(ts if rng.random() < 0.7 else list(range(len(types))))]
            if k < 0.8:
                return ["subclass", rng.choice(cs), rng.choice(cs)]
            return [rng.choice(["superclasses", "subclasses"]), rng.choice(cs)]

        def echoes(n):
            recent = asked[-30:]
            return [rng.choice(recent) for _ in range(n)] if recent else []

        ops = []
        mid_sweep = rng.random() < 0.15
        reach = {c: {c} for c in seen}   # descendants so far
        for step in steps:
            sup, sub = ("builtins.float", "builtins.int") if step[0] == "tower" else step[1:]
            # an edge between already related classes (`class C(B, A)` with `B(A)`) changes path lengths only:
            # always ask around it
            shortcut = step[0] == "edge" and sub in reach[sup]
            if step[0] == "edge":
                for c in seen:
                    if sup in reach[c]:
                        reach[c] |= reach[sub]
            if shortcut and rng.random() < 0.9:
                batch = core(sup, sub) + core(sup, sub)
                asked += batch
                ops += batch + [step] + batch
                continue
            if rng.random() < 0.65:
                batch = (core(sup, sub) if rng.random() < 0.8 else []) + \
                    [near(sup, sub) for _ in range(rng.randint(1, 6))] + echoes(rng.randint(0, 3))
                asked += batch
                ops += batch
            ops.append(step)
            if rng.random() < 0.5:
                batch = core(sup, sub) + echoes(rng.randint(1, 4))
                asked += batch
                ops += batch
            if mid_sweep and rng.random() < 0.1:
                ops.append(["sweep"])
                mid_sweep = False
        ops.append(["sweep"])
        return {"classes": seen, "types": types, "ops": ops, "style": style}

    def _hist_plan(self, ctx, case):
        """The history in concrete terms: `[op, i, j, how]` with class ids / type indices into pool + raw + hist types.
        `how`: "edge" (one `add_subclass_edge` call), "tower" (first of the three edges of `enable_numeric_tower`),
        "tower+" (its other two), "" for queries."""
        hist = case.get("hist")
        if not hist:
            return None
        ids = ctx["ids"]
        off = len(case["pool"]) + len(case["raw"])
        known = [c for c in hist["classes"] if c in ids and ids[c] < len(ctx["nodes"])]
        sweep_cls = known if len(known) <= 16 else ([c for c in known if c.startswith("K")] +
                                                    [c for c in known if not c.startswith("K")])[:16]
        nt = len(hist["types"])
        plan, skipped = [], 0
        for op in hist["ops"]:
            o = op[0]
            if o == "tower":
                b, i, f, x = ctx["tower"]
                plan += [["edge", i, b, "tower"], ["edge", f, i, "tower+"], ["edge", x, f, "tower+"]]
            elif o == "sweep":
                for q in ("sub", "maybe", "dist"):
                    plan += [[q, off + i, off + j, ""] for i in range(nt) for j in range(nt)]
                plan += [["subclass", ids[a], ids[b], ""] for a in sweep_cls for b in sweep_cls]
                plan += [[q, ids[a], 0, ""] for q in ("subclasses", "superclasses") for a in sweep_cls]
            elif o in ("edge", "subclass"):
                if op[1] in known and op[2] in known:
                    plan.append([o, ids[op[1]], ids[op[2]], "edge" if o == "edge" else ""])
                else:
                    skipped += 1
            elif o in ("subclasses", "superclasses"):
                if op[1] in known:
                    plan.append([o, ids[op[1]], 0, ""])
                else:
                    skipped += 1
            else:
                plan.append([o, off + op[1], off + op[2], ""])
        return {"plan": plan, "known": [ids[c] for c in known], "skipped": skipped, "off": off}

    def _hist_ask(self, ctx, ts, types, known, q):
        op, i, j = q[0], q[1], q[2]
        nodes, off = ctx["nodes"], ctx["hist_off"]
        if op == "sub":
            return self._call(ts.is_subtype, types[i - off], types[j - off])
        if op == "maybe":
            return self._call(ts.is_maybe_subtype, types[i - off], types[j - off])
        if op == "dist":
            return self._call(ts.subtype_distance, types[i - off], types[j - off])
        if op == "subclass":
            return self._call(ts.is_subclass, nodes[i], nodes[j])
        f = ts.get_subclasses if op == "subclasses" else ts.get_superclasses
        r = self._call(f, nodes[i])
        if isinstance(r, dict):
            return r
        index = {nodes[k]: k for k in known}
        return sorted(index[x] for x in r if x in index)

    @staticmethod
    def _hist_apply(ts, nodes, step):
        if step[3] == "edge":
            ts.add_subclass_edge(super_class=ts.to_type_info(nodes[step[1]].raw_type),
                                 sub_class=ts.to_type_info(nodes[step[2]].raw_type))
        elif step[3] == "tower":
            ts.enable_numeric_tower()

    def _hist_impl(self, ctx, case):
        import networkx as nx
        hp = self._hist_plan(ctx, case)
        if hp is None:
            return None
        tsm, nodes = ctx["tsm"], ctx["nodes"]
        plan, known = hp["plan"], hp["known"]
        ctx["hist_off"] = hp["off"]
        types = [self._mk(ctx, t) for t in case["hist"]["types"]]

        def new_ts():
            ts = tsm.TypeSystem()
            for k in known:
                ts.to_type_info(nodes[k].raw_type)
            return ts

        # 1. the history on ONE live type system
        live = new_ts()
        ans, kinds = [], set()
        touched = set()   # classes mentioned by `is_subclass`/hierarchy queries so far
        for step in plan:
            if step[0] == "edge":
                if step[3] == "edge":
                    g = live._graph  # noqa: SLF001
                    a, b = nodes[step[1]], nodes[step[2]]
                    if g.has_edge(a, b):
                        kinds.add("repeated-edge")
                    elif nx.has_path(g, a, b):
                        kinds.add("shortcut-edge" + ("-after-query" if touched else ""))
                    elif g.degree(b) == 0:
                        kinds.add("first-edge-of-isolated-class" + ("-queried-before" if step[2] in touched else ""))
                    elif g.in_degree(b) > 0:
                        kinds.add("further-base-of-connected-class")
                self._hist_apply(live, nodes, step)
            else:
                if step[0] in ("subclass", "subclasses", "superclasses"):
                    touched.update(step[1:3] if step[0] == "subclass" else step[1:2])
                ans.append(self._hist_ask(ctx, live, types, known, step))
        index = {nodes[k]: k for k in known}
        edges = sorted({(index[a], index[b]) for a, b in live._graph.edges if a in index and b in index})  # noqa: SLF001
        # 2. the reference: for every run of consecutive queries a NEW type system that receives the edges added so
        #    far and is queried only afterwards (the caches are class-level: built after the live run is over)
        ref, k = [], 0
        while k < len(plan):
            if plan[k][0] == "edge":
                k += 1
                continue
            fresh = new_ts()
            for step in plan[:k]:
                if step[0] == "edge":
                    self._hist_apply(fresh, nodes, step)
            while k < len(plan) and plan[k][0] != "edge":
                ref.append(self._hist_ask(ctx, fresh, types, known, plan[k]))
                k += 1
        # 3. Python's own words
        want = {(index[tsm.TypeInfo(b)], k_) for k_ in known
                for b in (getattr(b_, "__origin__", b_) for b_ in nodes[k_].raw_type.__bases__)
                if tsm.TypeInfo(b) in index}
        plain = {(s_[1], s_[2]) for s_ in plan if s_[3] == "edge"}
        tower_on = any(s_[3] == "tower" for s_ in plan)
        tower = [nodes[k_].raw_type for k_ in ctx["tower"]]

        def expected(a, b):
            if issubclass(a, b):
                return True
            return tower_on and any(issubclass(a, tower[x]) and issubclass(tower[y], b)
                                    for x in range(4) for y in range(x + 1, 4))

        exp = {f"{a},{b}": expected(nodes[a].raw_type, nodes[b].raw_type) for a in known for b in known}
        for kd in kinds:
            self.count("hist-kind:" + kd)
        self.count("hist:queries", len(ans))
        self.count("hist:edges", sum(1 for s_ in plan if s_[0] == "edge"))
        self.count("hist:skipped-ops", hp["skipped"])
        self.count("hist-style:" + str(case["hist"].get("style")))
        return {"ans": ans, "ref": ref, "edges": [list(e) for e in edges], "exp": exp,
                "complete": plain == want, "known": known}

    # -- implementation adapter -----------------------------------------------------------------
    def _context(self, case):
        key = hashlib.sha1(jdump(case).encode()).hexdigest()[:16]
        if key in self.ctx:
            return self.ctx[key]
        from types import GenericAlias

        import pynguin.analyses.typesystem as tsm
        from pynguin.analyses.module import generate_test_cluster

        modname = f"c25m_{key}"
        src = ["from __future__ import annotations", ""]
        for name, bases in case["classes"]:
            src.append(f"class {name}({', '.join(bases)}):" if bases else f"class {name}:")
            src.append(f"    def m_{name.lower()}(self) -> int:\n        return 1\n")
        (self.tmp / f"{modname}.py").write_text("\n".join(src))
        if str(self.tmp) not in sys.path:
            sys.path.insert(0, str(self.tmp))
        importlib.invalidate_caches()
        mod = importlib.import_module(modname)
        cluster = generate_test_cluster(modname)
        ts = cluster.type_system
        sys.modules.pop(modname, None)

        def fname(info):
            fn = info.full_name
            return fn[len(modname) + 1:] if fn.startswith(modname + ".") else fn

        nodes = sorted(ts._graph.nodes, key=lambda i: i.full_name)  # noqa: SLF001
        names = [fname(i) for i in nodes]
        ids = {n: k for k, n in enumerate(names)}
        string_sub = {k for k, i in enumerate(nodes) if i.raw_type in tsm.STRING_SUBTYPES}
        # class table in Python's own words (independent of pynguin's graph)
        table, extra = [], []
        for k, info in enumerate(nodes):
            if k in string_sub:
                table.append([k, []])
                extra.append([ids["builtins.str"], k])
                continue
            bases = []
            for b in getattr(info.raw_type, "__bases__", ()):
                if isinstance(b, GenericAlias):
                    b = b.__origin__
                bn = fname(tsm.TypeInfo(b))
                if bn not in ids:  # a base that pynguin did not register: keep it visible as a new id
                    ids[bn] = len(ids)
                    names.append(bn)
                bases.append(ids[bn])
            table.append([k, bases])
        ctx = {"ts": ts, "tsm": tsm, "mod": mod, "nodes": nodes, "names": names, "ids": ids,
               "string_sub": string_sub, "table": table, "extra": extra,
               "generics": [[k, i.num_hardcoded_generic_parameters] for k, i in enumerate(nodes)
                            if i.num_hardcoded_generic_parameters is not None],
               "tower": [ids[n] for n in TOWER]}
        if len(self.ctx) > 4000:
            self.ctx.clear()
        self.ctx[key] = ctx
        return ctx

    def _mk(self, ctx, t):
        tsm = ctx["tsm"]
        if t == "A":
            return tsm.AnyType()
        if t == "N":
            return tsm.NoneType()
        if "i" in t:
            c, args = t["i"]
            return tsm.Instance(ctx["nodes"][ctx["ids"][c]], tuple(self._mk(ctx, a) for a in args))
        if "t" in t:
            unk, args = t["t"]
            return tsm.TupleType(tuple(self._mk(ctx, a) for a in args), unknown_size=unk)
        return tsm.UnionType(tuple(self._mk(ctx, a) for a in t["u"]))

    def _unmk(self, ctx, p):
        tsm = ctx["tsm"]
        if isinstance(p, tsm.AnyType):
            return "A"
        if isinstance(p, tsm.NoneType):
            return "N"
        if isinstance(p, tsm.Instance):
            return {"i": [ctx["nodes"].index(p.type), [self._unmk(ctx, a) for a in p.args]]}
        if isinstance(p, tsm.TupleType):
            return {"t": [p.unknown_size, [self._unmk(ctx, a) for a in p.args]]}
        return {"u": [self._unmk(ctx, a) for a in p.items]}

    def _ids_ty(self, ctx, t):
        if isinstance(t, str):
            return t
        if "i" in t:
            return {"i": [ctx["ids"][t["i"][0]], [self._ids_ty(ctx, a) for a in t["i"][1]]]}
        if "t" in t:
            return {"t": [t["t"][0], [self._ids_ty(ctx, a) for a in t["t"][1]]]}
        return {"u": [self._ids_ty(ctx, a) for a in t["u"]]}

    @staticmethod
    def _call(f, *a):
        try:
            return f(*a)
        except Exception as e:  # noqa: BLE001 - the exception type is the canonical result
            return {"err": type(e).__name__}

    def _queries(self, ctx, case):
        n = len(case["pool"])
        cls = [k for k in range(len(ctx["nodes"])) if k not in ctx["string_sub"]]
        qs = [[op, [i, j]] for op in ("sub", "maybe", "dist") for i in range(n) for j in range(n)]
        qs += [[op, [a, b]] for op in ("subclass", "spl") for a in cls for b in cls]
        # a few string-subtype nodes as well (edges str -> StringSubtype classes)
        ss = sorted(ctx["string_sub"])[:2]
        qs += [["subclass", [a, b]] for a in ss for b in cls[:6]] + [["subclass", [b, a]] for a in ss for b in cls[:6]]
        qs += [["wf", [i, 0]] for i in range(n)]
        qs += [["fixup", [n + i, 0]] for i in range(len(case["raw"]))]
        return qs

    def impl(self, case):
        ctx = self._context(case)
        ts, nodes = ctx["ts"], ctx["nodes"]
        pool = [self._mk(ctx, t) for t in case["pool"]]
        raw = [self._mk(ctx, t) for t in case["raw"]]
        out = []
        for op, (i, j) in self._queries(ctx, case):
            if op == "sub":
                r = self._call(ts.is_subtype, pool[i], pool[j])
            elif op == "maybe":
                r = self._call(ts.is_maybe_subtype, pool[i], pool[j])
            elif op == "dist":
                r = self._call(ts.subtype_distance, pool[i], pool[j])
            elif op == "subclass":
                r = self._call(ts.is_subclass, nodes[i], nodes[j])
            elif op == "spl":
                r = self._call(ts.get_shortest_path_length, nodes[i], nodes[j])
            elif op == "wf":
                r = True
            else:
                r = self._call(lambda x: self._unmk(ctx, ts._fixup_known_generics(x)), raw[i - len(pool)])  # noqa: SLF001
            out.append(r)
        edges = sorted({(nodes.index(a), nodes.index(b)) for a, b in ts._graph.edges})  # noqa: SLF001
        # what Python itself says about the analysed classes (+ the numeric tower chain)
        tower = [nodes[k].raw_type for k in ctx["tower"]]
        cls = [k for k in range(len(nodes)) if k not in ctx["string_sub"]]

        def expected(a, b):
            if issubclass(a, b):
                return True
            return any(issubclass(a, tower[x]) and issubclass(tower[y], b)
                       for x in range(4) for y in range(x + 1, 4))

        exp = {f"{a},{b}": expected(nodes[a].raw_type, nodes[b].raw_type) for a in cls for b in cls}
        missing = [name for name, _ in case["classes"] if name not in ctx["ids"]]
        any_d = __import__("inspect").signature(ctx["tsm"]._SubtypeDistanceVisitor.__init__)  # noqa: SLF001
        self.count("classes:%d" % len(case["classes"]))
        self.count("pool:%d" % len(pool))
        res = {"edges": [list(e) for e in edges], "out": out, "convex": True,
               "aux": {"exp": exp, "cls": cls, "missing": missing, "names": ctx["names"],
                       "anyD": any_d.parameters["any_distance"].default}}
        hist = self._hist_impl(ctx, case)
        if hist is not None:
            res["hist"] = hist
        return res

    def model_line(self, case):
        ctx = self._context(case)
        any_d = __import__("inspect").signature(ctx["tsm"]._SubtypeDistanceVisitor.__init__)  # noqa: SLF001
        line = {"classes": ctx["table"], "extra": ctx["extra"], "tower": ctx["tower"],
                "generics": ctx["generics"], "anyD": any_d.parameters["any_distance"].default,
                "pool": [self._ids_ty(ctx, t) for t in case["pool"] + case["raw"]],
                "qs": self._queries(ctx, case)}
        hp = self._hist_plan(ctx, case)
        if hp is not None:
            line["pool"] += [self._ids_ty(ctx, t) for t in case["hist"]["types"]]
            line["hist"] = {"nodes": hp["known"], "ops": [[s_[0], [s_[1], s_[2]]] for s_ in hp["plan"]]}
        return jdump(line)

    def compare(self, case, impl_out, model_out) -> bool:
        if "bad-op" in model_out:
            return False
        if "hist" in impl_out:
            h = impl_out["hist"]
            m_ans = [sorted(a) if isinstance(a, list) else a for a in model_out.get("hist", [])]
            if m_ans != h["ans"]:
                return False
            if sorted({tuple(e) for e in model_out.get("hist_edges", [])}) != [tuple(e) for e in h["edges"]]:
                return False
        return (sorted({tuple(e) for e in model_out.get("edges", [])}) == [tuple(e) for e in impl_out["edges"]]
                and model_out.get("out") == impl_out["out"] and model_out.get("convex") is True)

    # -- the property in its own words --------------------------------------------------------------
    @staticmethod
    def _ref_cov(exp_sub, ids, s, t, cov=True):
        """May `s` be a subtype of `t`; generic arguments read covariantly (`cov`) or invariantly. Used ONLY to
        tell which known deviation explains an observed failure of the distance clause, never to raise one."""
        rc = lambda a, b: C25._ref_cov(exp_sub, ids, a, b, cov)  # noqa: E731
        if t == "A":
            return True
        if isinstance(s, dict) and "u" in s:
            return any(rc(m, t) for m in s["u"])
        if isinstance(t, dict) and "u" in t:
            return any(rc(s, m) for m in t["u"])
        if s == "A":
            return True
        if s == "N":
            return t == "N"
        if "i" in s:
            if not (isinstance(t, dict) and "i" in t):
                return False
            if not exp_sub(ids[s["i"][0]], ids[t["i"][0]]):
                return False
            if ARITY.get(s["i"][0]) is not None and ARITY.get(s["i"][0]) == ARITY.get(t["i"][0]):
                return all(rc(a, b) and (cov or rc(b, a)) for a, b in zip(s["i"][1], t["i"][1]))
            return True
        if not (isinstance(t, dict) and "t" in t) or len(s["t"][1]) != len(t["t"][1]):
            return False
        return all(rc(a, b) for a, b in zip(s["t"][1], t["t"][1]))

    def oracle(self, case, impl_out):
        fails = []
        pool = case["pool"]
        n = len(pool)
        out = impl_out["out"]
        aux = impl_out["aux"]
        SUB = [[out[i * n + j] for j in range(n)] for i in range(n)]
        MAY = [[out[n * n + i * n + j] for j in range(n)] for i in range(n)]
        DIST = [[out[2 * n * n + i * n + j] for j in range(n)] for i in range(n)]
        cls = aux["cls"]
        m = len(cls)
        base = 3 * n * n
        SC = {(a, b): out[base + x * m + y] for x, a in enumerate(cls) for y, b in enumerate(cls)}
        names = aux["names"]
        ids = {nm: k for k, nm in enumerate(names)}

        def fail(law, klass, what, **detail):
            fails.append(Failure({"law": law, "class": klass}, what, detail=detail))

        def show(t):
            return jdump(t)

        def exp_sub(a, b):
            return aux["exp"].get(f"{a},{b}", False)

        def is_union(t):
            return isinstance(t, dict) and "u" in t

        # every generated class must have been analysed
        for nm in aux["missing"]:
            fail("subclass", "class-not-analysed", f"class {nm} of the module is unknown to the type system")
        # is_subclass == issubclass (+ numeric tower) on analysed classes
        for (a, b), r in SC.items():
            e = aux["exp"][f"{a},{b}"]
            if r is not e:
                fail("subclass", "disagrees-with-issubclass",
                     f"is_subclass({names[a]}, {names[b]}) = {r}, Python (+tower) says {e}", a=names[a], b=names[b])
                break
        for i in range(n):
            # reflexive
            if SUB[i][i] is not True:
                fail("refl", "is_subtype", f"is_subtype(T, T) = {SUB[i][i]} for T = {show(pool[i])}", T=pool[i])
            if MAY[i][i] is not True:
                fail("refl", "is_maybe_subtype", f"is_maybe_subtype(T, T) = {MAY[i][i]} for T = {show(pool[i])}",
                     T=pool[i])
            # distance of identical types is zero
            d = DIST[i][i]
            if not (isinstance(d, int) and not isinstance(d, bool) and d == 0):
                t = pool[i]
                if isinstance(d, int) and d > 0:
                    k = "contains-any" if contains_any(t) else "other"
                elif d is None:
                    k = ("contains-none" if contains_none(t) else
                         "union-without-instance-member" if union_without_instance(t) else "other")
                else:
                    k = "other"
                fail("dist-refl", k, f"subtype_distance(T, T) = {d} for T = {show(t)}", T=t)
        # Any is on top: checked against a pool that always holds Any (see below) and directly
        for i in range(n):
            for j in range(n):
                if pool[j] == "A" and (SUB[i][j] is not True or MAY[i][j] is not True):
                    fail("top", "any", f"is_subtype/is_maybe_subtype({show(pool[i])}, Any) = {SUB[i][j]}/{MAY[i][j]}",
                         T=pool[i])
                # distance defined only when maybe-subtype
                d = DIST[i][j]
                if d is not None and MAY[j][i] is not True:
                    T, S = pool[i], pool[j]
                    if isinstance(d, dict):
                        k = "raises"
                    elif not (has_args(T) and has_args(S)):
                        k = "other"
                    elif self._ref_cov(exp_sub, ids, S, T):
                        # explained by the invariance of generic arguments only if the invariant reading of the
                        # lenient relation really says no; otherwise the relation itself lost a pair
                        k = ("generic-args-invariance" if not self._ref_cov(exp_sub, ids, S, T, cov=False)
                             else "lenient-relation-denies")
                    else:
                        k = "generic-args-ignore-class"
                    fail("dist-maybe", k,
                         f"subtype_distance({show(T)}, {show(S)}) = {d} but is_maybe_subtype(S, T) = {MAY[j][i]}",
                         T=T, S=S)
                # ... in particular, between two Instances, only when Python says subclass (+ tower)
                if (d is not None and not isinstance(d, dict) and isinstance(pool[i], dict) and "i" in pool[i]
                        and isinstance(pool[j], dict) and "i" in pool[j]
                        and aux["exp"].get(f"{ids[pool[j]['i'][0]]},{ids[pool[i]['i'][0]]}") is False):
                    fail("dist-maybe", "instance-classes-unrelated",
                         f"subtype_distance({show(pool[i])}, {show(pool[j])}) = {d} but {pool[j]['i'][0]} is not a "
                         f"subclass of {pool[i]['i'][0]}", T=pool[i], S=pool[j])
                # the lenient relation contains the strict one
                if SUB[i][j] is True and MAY[i][j] is not True:
                    fail("maybe", "strict-not-lenient", f"is_subtype({show(pool[i])}, {show(pool[j])}) holds but "
                         f"is_maybe_subtype = {MAY[i][j]}", L=pool[i], R=pool[j])
        # transitive
        done = set()
        for a in range(n):
            for b in range(n):
                if SUB[a][b] is not True:
                    continue
                for c in range(n):
                    if SUB[b][c] is True and SUB[a][c] is not True:
                        k = "any-in-middle" if contains_any(pool[b]) else "other"
                        if k in done:
                            continue
                        done.add(k)
                        fail("trans", k, f"{show(pool[a])} <: {show(pool[b])} <: {show(pool[c])} but not "
                             f"{show(pool[a])} <: {show(pool[c])}", A=pool[a], B=pool[b], C=pool[c])
        # union on the left <=> all members: evaluate the members on the real type system
        ctx = self._context(case)
        ts = ctx["ts"]
        real = [self._mk(ctx, t) for t in pool]
        for i in range(n):
            if is_union(pool[i]):
                members = [self._mk(ctx, mm) for mm in pool[i]["u"]]
                for j in range(n):
                    R = real[j]
                    want = all(self._call(ts.is_subtype, mm, R) is True for mm in members)
                    if SUB[i][j] is not want:
                        fail("union", "left-iff-all", f"is_subtype({show(pool[i])}, {show(pool[j])}) = {SUB[i][j]} "
                             f"but all members: {want}", U=pool[i], R=pool[j])
                    # the lenient relation: some member suffices (Any on the right is decided before)
                    if pool[j] != "A":
                        want = any(self._call(ts.is_maybe_subtype, mm, R) is True for mm in members)
                        if MAY[i][j] is not want:
                            fail("union", "maybe-left-iff-any", f"is_maybe_subtype({show(pool[i])}, {show(pool[j])}) "
                                 f"= {MAY[i][j]} but some member: {want}", U=pool[i], R=pool[j])
        # union on the right, left operand not a union: BOTH relations hold <=> they hold to some member
        # (whatever is nested inside the left operand); and widening the right side to a union never loses a pair
        for j in range(n):
            if not is_union(pool[j]):
                continue
            members = [self._mk(ctx, mm) for mm in pool[j]["u"]]
            for i in range(n):
                if is_union(pool[i]):
                    continue
                L = real[i]
                for rel, tab, fn in (("is_subtype", SUB, ts.is_subtype), ("is_maybe_subtype", MAY, ts.is_maybe_subtype)):
                    want = any(self._call(fn, L, mm) is True for mm in members)
                    if tab[i][j] is not want:
                        nested = t_any(is_union, pool[i])
                        fail("union", f"right-iff-any/{rel}" + ("/nested-union-left" if nested else ""),
                             f"{rel}({show(pool[i])}, {show(pool[j])}) = {tab[i][j]} but to some member: {want}",
                             L=pool[i], R=pool[j])
            for k in range(n):
                if pool[k] not in pool[j]["u"]:
                    continue
                for i in range(n):
                    for rel, tab in (("is_subtype", SUB), ("is_maybe_subtype", MAY)):
                        if tab[i][k] is True and tab[i][j] is not True:
                            fail("union", f"right-not-monotone/{rel}",
                                 f"{rel}({show(pool[i])}, {show(pool[k])}) holds but not {rel}(., {show(pool[j])}) "
                                 f"although the latter union contains the former", L=pool[i], M=pool[k], R=pool[j])
        fails += self._hist_oracle(ctx, case, impl_out)
        # dedupe by signature (one report per class and case)
        seen, res = set(), []
        for f in fails:
            s = jdump(f.signature)
            if s not in seen:
                seen.add(s)
                res.append(f)
        return res

    def _hist_oracle(self, ctx, case, impl_out):
        """Consistent with the class hierarchy, for histories: (a) every answer equals the answer of a type system that
        received the same edges and was never queried before; (b) once all `__bases__` pairs are in, `is_subclass`
        is `issubclass` (+ tower if enabled) and so are is_subtype / is_maybe_subtype / "distance defined" between
        argument-free instances of classes without hard-coded type parameters."""
        h = impl_out.get("hist")
        if not h:
            return []
        hp = self._hist_plan(ctx, case)
        plan, names, off = hp["plan"], ctx["names"], hp["off"]
        types = case["hist"]["types"]
        fails = []

        def show(q):
            if q[0] in ("sub", "maybe", "dist"):
                fn = {"sub": "is_subtype", "maybe": "is_maybe_subtype", "dist": "subtype_distance"}[q[0]]
                return f"{fn}({jdump(types[q[1] - off])}, {jdump(types[q[2] - off])})"
            if q[0] == "subclass":
                return f"is_subclass({names[q[1]]}, {names[q[2]]})"
            return f"get_{q[0]}({names[q[1]]})"

        def edge_s(e):
            return f"{names[e[1]]}->{names[e[2]]}" + ("" if e[3] == "edge" else "(tower)")

        qpos = [k for k, s_ in enumerate(plan) if s_[0] != "edge"]
        first_seen = {}
        stale_done = set()
        for n_, k in enumerate(qpos):
            q = plan[k]
            key = jdump(q[:3])
            if h["ans"][n_] != h["ref"][n_] and q[0] not in stale_done:
                stale_done.add(q[0])
                before = [edge_s(e) for e in plan[:k] if e[0] == "edge"]
                since = ([edge_s(e) for e in plan[first_seen[key]:k] if e[0] == "edge"] if key in first_seen else None)
                nm = lambda a: [names[x] for x in a] if isinstance(a, list) else a  # noqa: E731
                what = (f"{show(q)} = {nm(h['ans'][n_])} on the live type system after the edges {before}"
                        + (f" (asked before as well; edges added since then: {since})" if since is not None else "")
                        + f", but a type system that received the same edges and was never queried before "
                          f"answers {nm(h['ref'][n_])}")
                fails.append(Failure({"law": "history", "class": "stale/" + q[0]}, what,
                                     detail={"query": show(q), "edges_before": before, "edges_since_first_asked": since}))
            first_seen.setdefault(key, k)
        # (b) the last sweep against Python
        if h["complete"] and plan and plan[-1][0] != "edge":
            last_edge = max([k for k, s_ in enumerate(plan) if s_[0] == "edge"], default=-1)
            plain = {}
            for k_, t in enumerate(types):
                if isinstance(t, dict) and "i" in t and not t["i"][1] and t["i"][0] not in ARITY \
                        and t["i"][0] in ctx["ids"]:
                    plain[off + k_] = ctx["ids"][t["i"][0]]
            done = set()
            for n_, k in enumerate(qpos):
                if k <= last_edge:
                    continue
                q, a = plan[k], h["ans"][n_]
                if q[0] == "subclass":
                    e, sig = h["exp"].get(f"{q[1]},{q[2]}"), "subclass-disagrees-with-issubclass"
                    bad = e is not None and a is not e
                elif q[0] in ("sub", "maybe") and q[1] in plain and q[2] in plain:
                    e, sig = h["exp"].get(f"{plain[q[1]]},{plain[q[2]]}"), "instance-disagrees-with-issubclass/" + q[0]
                    bad = e is not None and a is not e
                elif q[0] == "dist" and q[1] in plain and q[2] in plain:   # (supertype, subtype)
                    e, sig = h["exp"].get(f"{plain[q[2]]},{plain[q[1]]}"), "instance-disagrees-with-issubclass/dist"
                    bad = e is not None and (a is not None) is not e
                else:
                    continue
                if bad and sig not in done:
                    done.add(sig)
                    fails.append(Failure({"law": "history", "class": sig},
                                         f"after the complete history {show(q)} = {a}, Python's issubclass"
                                         f"{' (+ numeric tower)' if any(s_[3] == 'tower' for s_ in plan) else ''} says {e}",
                                         detail={"query": show(q)}))
        return fails

    def classify(self, case, impl_out):
        n = len(case["pool"])
        out = impl_out["out"]
        strict = any(out[i * n + j] is True and case["pool"][i] != case["pool"][j] and case["pool"][j] != "A"
                     for i in range(n) for j in range(n))
        dist = any(isinstance(out[2 * n * n + i * n + j], int) and case["pool"][i] != case["pool"][j]
                   for i in range(n) for j in range(n))
        pool = case["pool"]
        isu = lambda t: isinstance(t, dict) and "u" in t  # noqa: E731
        ins = lambda t: isinstance(t, dict) and "i" in t and len(t["i"][1]) > 0  # noqa: E731
        lenient_only = sum(1 for i in range(n) for j in range(n) if isu(pool[j]) and not isu(pool[i])
                           and out[n * n + i * n + j] is True and out[i * n + j] is False)
        related = sum(1 for i in range(n) for j in range(n) if ins(pool[i]) and ins(pool[j])
                      and pool[i]["i"][0] != pool[j]["i"][0] and isinstance(out[2 * n * n + i * n + j], int))
        self.count("kind:right-union-decided-by-nested-union" if lenient_only else "kind:no-right-union-lenient-only")
        self.count("kind:distance-between-parameterised-related-classes" if related else "kind:no-related-generic-pair")
        self.count("pairs:right-union-lenient-only", lenient_only)
        self.count("pairs:parameterised-related-classes-distance", related)
        self.count("kind:strict-subtype-pair" if strict else "kind:no-strict-pair")
        self.count("kind:defined-distance" if dist else "kind:no-distance")
        for t in case["pool"]:
            self.count("top:" + (t if isinstance(t, str) else next(iter(t))))
        return jdump([case["classes"], case["pool"]]) if strict and dist else None

    def witnesses(self):
        """Replay the known-finding witnesses (corpus case `known-witnesses.json`) on the implementation."""
        p = vcommon.ROOT / "harness" / "corpus" / "C25" / "known-witnesses.json"
        if not p.exists():
            return []
        import json
        case = json.loads(p.read_text())
        known = {jdump(k["signature"]) for k in vcommon.load_known(self.prop_id)}
        fs = [f for f in self.oracle(case, self.impl(case)) if jdump(f.signature) in known]
        for f in fs:
            f.case = case
        self.extra_coverage["known_witnesses_still_failing"] = sorted(jdump(f.signature) for f in fs)
        return fs


if __name__ == "__main__":
    run_main(C25)
