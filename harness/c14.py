"""C14 — ranking and selection operators honour their contracts (DESIGN §5 C14).

Correspondence: the REAL `RankBasedPreferenceSorting` (`compute_ranking_assignment`, `_get_zero_front`,
`_get_non_dominated_solutions`), `DominanceComparator`, `PreferenceSortingComparator`,
`fast_epsilon_dominance_assignment` and `RankSelection.get_index` are run on real `TestCaseChromosome`s
(real `TestCase`s; fitness values are pure functions of the test case, served through the real
`ComputationCache`) and compared with the Lean model (`Driver/C14.lean`).  The coin flips of
`_get_zero_front` (`randomness.next_bool`) and the draw of `get_index` (`randomness.next_float`) are
inputs of the case, served by a patched `pynguin.utils.randomness`.

Oracle (independent of the model, the property in its own words): the first front holds, for every
uncovered goal, an individual of minimal fitness; every later front is exactly the multiset of
Pareto-non-dominated individuals among those not yet ranked; crowding distances lie in [0, 1); rank
selection returns an index in [0, len) for every bias >= 1.0 and every draw in [0, 1) — including the
draws adjacent to 0 and 1 and biases adjacent to 1 and 2 —, the index is monotone in the draw and the
exact probability mass of the indices (thresholds found by bisection over the 2**53 possible draws of
`random.random()`) never grows with the index (beyond the stated rounding tolerance).
"""
from __future__ import annotations

import math
import sys
from collections import Counter
from fractions import Fraction

import vcommon
from vcommon import Failure, PropertyCheck, run_main

FMAX = sys.float_info.max
ONE_BELOW = math.nextafter(1.0, 0.0)
FIT_POOL = [0.0, 0.0, 0.0, 0.25, 0.5, 0.5, 1.0, 1.0, 1.0, 2.0, 3.0, 7.0]
FIT_RARE = [5e-324, 1e-300, 1e300, FMAX, 0.1, 1.0 - 2.0 ** -53]
BIASES = [1.0, 1.0, math.nextafter(1.0, 2.0), 1.0 + 2.0 ** -51, 1.0 + 1e-15, 1.0 + 1e-12, 1.0 + 1e-9,
          1.0000001, 1.00001, 1.001, 1.1, 1.5, 1.68, 1.68, 1.7, 1.7, 1.9, math.nextafter(2.0, 1.0), 2.0,
          2.0, math.nextafter(2.0, 3.0), 2.0 + 2.0 ** -30, 2.0000001, 2.5, 3.0, 10.0, 1000.0, 1e6]
DRAWS = [0.0, 5e-324, 2.0 ** -1074, 2.0 ** -53, 2.0 ** -52, 1e-300, 0.25, 0.5, 0.75, ONE_BELOW, ONE_BELOW,
         1.0 - 2.0 ** -52, 1.0 - 2.0 ** -51, 1.0 - 1e-15, 1.0 - 1e-12, 1.0 - 1e-9, 0.9999999]
_NODES: dict = {}
_MASS_CACHE: dict = {}


def fx(x: float) -> str:
    return float(x).hex()


def q(x) -> list:
    f = Fraction(float.fromhex(x) if isinstance(x, str) else x)
    return [f.numerator, f.denominator]


def dominates(a, b, goals) -> bool:
    """Pareto dominance on the given goals (minimisation), from the definition."""
    return all(a[g] <= b[g] for g in goals) and any(a[g] < b[g] for g in goals)


class C14(PropertyCheck):
    prop_id = "C14"
    prop_modules = ["PynguinModel.Props.C14"]
    extra_modules = ["PynguinModel.Model.Ranking"]
    driver = "Driver/C14.lean"
    n_quick = 2000
    n_thorough = 40000
    n_search = 6000
    rule = ("random populations of 0..64 real TestCaseChromosomes (duplicates, ties, chains, antichains) over 1..6 "
            "goals, random uncovered-goal subsets, configured population sizes 1..100, recorded coin flips; "
            "rank-selection draws/biases incl. neighbours of 0, 1, 2 and float-exact constructed cases; "
            "non-trivial = at least two fronts / a tie / a positive crowding distance / a selection case")
    assumptions = [
        "equal chromosomes (same test case) carry equal fitness vectors (fitness is a function of the test case)",
        "fitness values are finite, non-NaN and >= 0 (asserted by ComputationCache)",
        "IEEE rounding inside RankSelection.get_index is not modelled: the exact model abstains unless every float "
        "operation of the case is exact; range/monotonicity/mass are checked on the real floats by the oracle",
        "mass tolerance 2**-40 * bias**2/(bias-1) + 2**-45 (about 300x the rounding bound of the formula)",
    ]
    trusted_base_extra = ["Mathlib (Real.sqrt facts, tactics) for the real-valued selection theorems"]

    # -- generation ---------------------------------------------------------------------------
    @staticmethod
    def _fit(rng):
        return rng.choice(FIT_RARE) if rng.random() < 0.06 else rng.choice(FIT_POOL)

    def _sols(self, rng, m, lo=0):
        style = rng.choice(["random", "random", "random", "chain", "antichain", "dups", "few-values", "big"])
        r = rng.random()
        if style == "big":
            n = rng.randint(20, 64)
        elif r < 0.05:
            n = lo
        else:
            n = rng.randint(max(lo, 1), rng.choice([2, 3, 4, 6, 8, 12, 16]))
        fits: dict[int, list[float]] = {}
        sols = []
        for i in range(n):
            if sols and (style == "dups" and rng.random() < 0.5 or rng.random() < 0.08):
                src = rng.choice(sols)
                same_len = rng.random() < 0.6
                sols.append({"sid": src["sid"], "len": src["len"] if same_len else rng.randint(1, 4),
                             "fit": src["fit"]})
                continue
            sid = i + 1
            if style == "chain":
                lvl = float(rng.randint(0, 5))
                fit = [lvl + (rng.choice([0.0, 0.0, 0.5])) for _ in range(m)]
            elif style == "antichain" and m >= 2:
                k = rng.randint(0, 6)
                fit = [float(k if g % 2 == 0 else 6 - k) for g in range(m)]
            elif style == "few-values":
                fit = [rng.choice([0.0, 1.0]) for _ in range(m)]
            else:
                fit = [self._fit(rng) for _ in range(m)]
            fits[sid] = fit
            sols.append({"sid": sid, "len": rng.randint(1, 4), "fit": [fx(v) for v in fit]})
        self.count("style:" + style)
        return sols

    @staticmethod
    def _goals(rng, m):
        if rng.random() < 0.05:
            return []
        g = list(range(m))
        rng.shuffle(g)
        return g[:rng.randint(1, m)]

    def _gen_sel(self, rng):
        kind = rng.choice(["exact", "exact", "adversarial", "adversarial", "random", "mass"])
        n = rng.choice([1, 1, 2, 3, 5, 7, 10, 16, 50, 50, 64, rng.randint(1, 64)])
        if kind == "exact":
            for _ in range(50):
                if rng.random() < 0.15:
                    b = Fraction(1)
                    g = Fraction(rng.randrange(0, 2 ** 10), 2 ** 10)
                    r = g
                else:
                    a = rng.randint(0, 12)
                    p = rng.randint(1, 2 ** a * rng.choice([1, 1, 1, 2, 4]))
                    b = 1 + Fraction(p, 2 ** a)
                    c = rng.randint(0, 10)
                    lim = min(Fraction(1), 1 / (b - 1))
                    g = Fraction(rng.randrange(0, 2 ** c + 1), 2 ** c)
                    if rng.random() < 0.3 and n > 1:  # index boundary: n*g is an integer
                        g = Fraction(rng.randrange(0, n), n) if n & (n - 1) == 0 else g
                    if g >= lim:
                        continue
                    r = b * g - (b - 1) * g * g
                if 0 <= r < 1 and Fraction(float(r)) == r and Fraction(float(b)) == b:
                    return {"op": "sel", "kind": "exact", "bias": fx(float(b)), "r": fx(float(r)), "n": n}
            kind = "adversarial"
        if kind == "mass":
            bias = rng.choice(BIASES) if rng.random() < 0.6 else rng.uniform(1.0, 2.2)
            return {"op": "sel", "kind": "mass", "bias": fx(bias), "r": fx(rng.random()),
                    "n": rng.choice([1, 2, 3, 5, 8, 10, 17, 50, 64])}
        if kind == "adversarial":
            bias = rng.choice(BIASES)
            if rng.random() < 0.3:
                bias = math.nextafter(bias, rng.choice([0.0, 9.0]))
                if bias < 1.0:
                    bias = 1.0
            r = rng.choice(DRAWS)
            if rng.random() < 0.3:  # a draw next to an index threshold of the ideal formula
                i = rng.randint(0, n)
                g = i / n
                r = bias * g - (bias - 1.0) * g * g
                for _ in range(rng.randint(0, 3)):
                    r = math.nextafter(r, rng.choice([0.0, 1.0]))
            r = min(max(r, 0.0), ONE_BELOW)
            return {"op": "sel", "kind": "adversarial", "bias": fx(bias), "r": fx(r), "n": n}
        bias = rng.choice([rng.uniform(1.0, 2.0), rng.uniform(1.0, 2.0), rng.uniform(2.0, 5.0),
                           1.0 + 10.0 ** rng.uniform(-16, 0)])
        return {"op": "sel", "kind": "random", "bias": fx(bias), "r": fx(rng.random()), "n": n}

    def gen_case(self, rng):
        op = rng.choice(["rank", "rank", "rank", "rank", "zero", "nondom", "cmp", "crowd", "crowd",
                         "sel", "sel", "sel"])
        self.count("op:" + op)
        if op == "sel":
            c = self._gen_sel(rng)
            self.count("sel:" + c["kind"])
            return c
        m = rng.randint(1, 6)
        case = {"op": op, "m": m}
        if op == "cmp":
            case["sols"] = self._sols(rng, m)[:8]
            case["goals"] = self._goals(rng, m)
            return case
        case["sols"] = self._sols(rng, m)
        case["goals"] = self._goals(rng, m)
        n = len(case["sols"])
        if op in ("rank", "zero"):
            case["flips"] = [rng.random() < 0.5 for _ in range(rng.randint(0, 2 * n + 2))]
        if op == "rank":
            case["population"] = rng.choice([1, 2, 3, 5, 10, 10, 50, 50, 100, max(1, n // 2), max(1, n)])
        if op == "crowd":
            if n == 0 and rng.random() < 0.8:
                case["sols"] = self._sols(rng, m, lo=1)
        return case

    # -- real objects --------------------------------------------------------------------------
    @staticmethod
    def _mk_chromosome(sid, size):
        """A real TestCaseChromosome: `size` statements `var_i = sid*100+i`."""
        import libcst as cst
        import pynguin.ga.testcasechromosome as tcc
        import pynguin.testcase.testcase as tc
        t = tc.TestCase()
        for i in range(size):
            code = f"var_{i} = {sid * 100 + i}\n"
            node = _NODES.get(code)
            if node is None:
                node = _NODES[code] = cst.parse_module(code).body[0]  # libcst nodes are immutable
            t.add_statement(tc.Statement(node=node, bound_variable=f"var_{i}", bound_type=int))
        return tcc.TestCaseChromosome(t)

    _goal_cls = None

    @classmethod
    def _goal_class(cls):
        if cls._goal_cls is not None:
            return cls._goal_cls
        import pynguin.ga.computations as ff

        class FakeGoal(ff.TestCaseFitnessFunction):
            """Real-typed fitness function; the value is a pure function of the test case (its first statement)."""

            def __init__(self, gid, tables):
                super().__init__(None, 0)
                self.gid = gid
                self.tables = tables

            def compute_fitness(self, individual):
                first = individual.test_case.to_code().split("\n")[0]
                sid = int(first.split("=")[1]) // 100
                return self.tables[sid][self.gid]

            def compute_is_covered(self, individual):
                return self.compute_fitness(individual) == 0.0

            def is_maximisation_function(self):
                return False

            def __repr__(self):
                return f"goal{self.gid}"

        cls._goal_cls = FakeGoal
        return FakeGoal

    def _setup(self, case):
        from pynguin.utils.orderedset import OrderedSet
        tables: dict[int, list[float]] = {}
        goal_cls = self._goal_class()
        goals = [goal_cls(g, tables) for g in range(case["m"])]
        chroms, keys = [], {}
        for s in case["sols"]:
            c = self._mk_chromosome(s["sid"], s["len"])
            tables[s["sid"]] = [float.fromhex(x) for x in s["fit"]]
            for g in goals:
                c.add_fitness_function(g)
            chroms.append(c)
            keys[id(c)] = [s["sid"], s["len"]]
        uncovered = OrderedSet(goals[g] for g in case["goals"])
        return chroms, uncovered, keys

    @staticmethod
    def _key(keys, c):
        return keys.get(id(c), [-1, -1])

    # -- implementation adapter -----------------------------------------------------------------
    def impl(self, case):
        op = case["op"]
        if op == "sel":
            return self._impl_sel(float.fromhex(case["bias"]), float.fromhex(case["r"]), case["n"])
        import pynguin.configuration as config
        import pynguin.ga.operators.ranking as rk
        from pynguin.ga.operators.comparator import DominanceComparator, PreferenceSortingComparator
        from pynguin.utils import randomness
        chroms, uncovered, keys = self._setup(case)
        flips = list(case.get("flips", []))

        def next_bool():
            return flips.pop(0) if flips else False

        saved_bool = randomness.next_bool
        saved_pop = config.configuration.search_algorithm.population
        randomness.next_bool = next_bool
        try:
            if op == "rank":
                config.configuration.search_algorithm.population = case["population"]
                try:
                    rf = rk.RankBasedPreferenceSorting().compute_ranking_assignment(chroms, uncovered)
                except Exception as e:  # noqa: BLE001
                    return {"err": type(e).__name__}
                if rf.fronts is None:
                    return {"fronts": None}
                return {"fronts": [[self._key(keys, c) for c in f] for f in rf.fronts], "flipsLeft": len(flips)}
            if op == "zero":
                try:
                    zf = rk.RankBasedPreferenceSorting._get_zero_front(chroms, uncovered)
                except Exception as e:  # noqa: BLE001
                    return {"err": type(e).__name__}
                return {"front": [self._key(keys, c) for c in zf], "flipsLeft": len(flips)}
            if op == "nondom":
                try:
                    fr = rk.RankBasedPreferenceSorting._get_non_dominated_solutions(
                        chroms, DominanceComparator(goals=uncovered), 1)
                except Exception as e:  # noqa: BLE001
                    return {"err": type(e).__name__}
                return {"front": [self._key(keys, c) for c in fr]}
            if op == "cmp":
                opts = [None, *chroms]
                try:
                    dc = DominanceComparator(goals=uncovered)
                    dom = [[dc.compare(a, b) for b in opts] for a in opts]
                    pref = []
                    for g in uncovered:
                        pc = PreferenceSortingComparator(g)
                        pref.append([[pc.compare(a, b) for b in opts] for a in opts])
                except Exception as e:  # noqa: BLE001
                    return {"err": type(e).__name__}
                return {"dom": dom, "pref": pref}
            if op == "crowd":
                try:
                    rk.fast_epsilon_dominance_assignment(chroms, uncovered)
                    ds = [c.distance for c in chroms]
                except Exception as e:  # noqa: BLE001
                    return {"err": type(e).__name__}
                return {"dist": [q(float(d)) if not (isinstance(d, float) and (math.isnan(d) or math.isinf(d)))
                                 else str(d) for d in ds]}
        finally:
            randomness.next_bool = saved_bool
            config.configuration.search_algorithm.population = saved_pop
        raise ValueError(f"unknown op {op}")

    @staticmethod
    def _impl_sel(bias, r, n):
        from pynguin.ga.operators.selection import RankSelection
        from pynguin.utils import randomness
        saved = randomness.next_float
        randomness.next_float = lambda: r
        try:
            try:
                i = RankSelection(bias).get_index([None] * n)
            except Exception as e:  # noqa: BLE001
                return {"err": type(e).__name__}
            if type(i) is not int:
                return {"err": "not-an-int:" + type(i).__name__}
            return {"idx": i}
        finally:
            randomness.next_float = saved

    # -- model ----------------------------------------------------------------------------------
    @staticmethod
    def _sel_exact(bias: float, r: float, n: int) -> bool:
        """Is every float operation of `get_index` exact on this input (then floats = rationals)?"""
        F = Fraction
        try:
            if bias == 1.0:
                prod = n * r
                return F(prod) == n * F(r)
            b2 = bias ** 2
            t1 = bias - 1.0
            t3 = 4.0 * t1 * r
            rad = b2 - t3
            if rad < 0:
                return True
            s = math.sqrt(rad)
            num = bias - s
            p = num / 2.0 / t1
            prod = n * p
            return (F(b2) == F(bias) ** 2 and F(t1) == F(bias) - 1 and F(4.0 * t1) == 4 * F(t1)
                    and F(t3) == 4 * F(t1) * F(r) and F(rad) == F(b2) - F(t3) and F(s) ** 2 == F(rad)
                    and F(num) == F(bias) - F(s) and F(p) == F(num) / 2 / F(t1) and F(prod) == n * F(p))
        except (OverflowError, ZeroDivisionError, ValueError):
            return False

    def model_line(self, case):
        if case["op"] == "sel":
            return vcommon.jdump({"op": "sel", "bias": q(case["bias"]), "r": q(case["r"]), "n": case["n"]})
        c = {k: v for k, v in case.items() if k not in ("m", "sols")}
        c["sols"] = [{"sid": s["sid"], "len": s["len"], "fit": [q(x) for x in s["fit"]]} for s in case["sols"]]
        if case["op"] == "crowd":
            c["fmax"] = q(FMAX)
        return vcommon.jdump(c)

    def compare(self, case, io, mo):
        if "bad-op" in mo or "unparsable" in mo:
            return False
        if case["op"] == "sel":
            if mo.get("inexact"):
                self.count("sel-model:abstains")
                return True
            bias, r = float.fromhex(case["bias"]), float.fromhex(case["r"])
            if not self._sel_exact(bias, r, case["n"]):
                self.count("sel-model:float-rounds")
                return True
            self.count("sel-model:compared")
            return io == mo
        if case["op"] == "crowd" and "dist" in io and "dist" in mo:
            if len(io["dist"]) != len(mo["dist"]):
                return False
            for a, b in zip(io["dist"], mo["dist"]):
                if isinstance(a, str) or Fraction(*a) != Fraction(b[0] / b[1]):  # int/int: correctly rounded
                    return False
            return True
        return io == mo

    # -- oracle: the property itself on the implementation's behaviour -----------------------------
    @staticmethod
    def _fitmap(case):
        return {(s["sid"], s["len"]): [float.fromhex(x) for x in s["fit"]] for s in case["sols"]}

    def _check_zero_front(self, case, front, op):
        fs = []
        fit = self._fitmap(case)
        pop = Counter((s["sid"], s["len"]) for s in case["sols"])
        members = [tuple(k) for k in front]
        if any(k not in pop for k in members):
            return [Failure({"op": op, "class": "front-member-not-in-population"},
                            f"first front contains an individual that is not in the population: {front}")]
        for g in case["goals"]:
            best = min(fit[k][g] for k in pop)
            if not any(fit[k][g] == best for k in members):
                fs.append(Failure({"op": op, "class": "zero-front-misses-best-for-goal"},
                                  f"goal {g}: minimal fitness {best} in the population, first front {front} "
                                  f"holds no individual with it"))
                break
        return fs

    def _oracle_rank(self, case, io):
        if "err" in io:
            return [Failure({"op": "rank", "class": "exception:" + io["err"]},
                            f"compute_ranking_assignment raised {io['err']}")]
        if io["fronts"] is None:
            if case["sols"]:
                return [Failure({"op": "rank", "class": "no-fronts-for-nonempty-population"},
                                "RankedFronts() for a non-empty population")]
            return []
        fronts = io["fronts"]
        fs = self._check_zero_front(case, fronts[0], "rank") if fronts else [
            Failure({"op": "rank", "class": "no-first-front"}, "no first front")]
        if fs:
            return fs
        fit = self._fitmap(case)
        goals = case["goals"]
        remaining = Counter((s["sid"], s["len"]) for s in case["sols"])
        remaining.subtract(Counter(tuple(k) for k in fronts[0]))
        remaining = +remaining
        for k, front in enumerate(fronts[1:], 1):
            keys = list(remaining)
            expect = Counter({a: remaining[a] for a in keys
                              if not any(dominates(fit[b], fit[a], goals) for b in keys)})
            got = Counter(tuple(x) for x in front)
            if got != expect:
                if (len(fronts[0]) >= case["population"] and k == 1 and len(fronts) == 2 and got == remaining):
                    return [Failure({"op": "rank", "class": "zero-front-fills-population-rest-unsorted"},
                                    f"len(first front)={len(fronts[0])} >= population={case['population']}: front 1 is "
                                    f"all {sum(got.values())} remaining individuals although only "
                                    f"{sum(expect.values())} of them are non-dominated")]
                return [Failure({"op": "rank", "class": "front-not-the-nondominated-set"},
                                f"front {k} = {sorted(got.elements())}, non-dominated among the not yet ranked = "
                                f"{sorted(expect.elements())}")]
            remaining.subtract(got)
            remaining = +remaining
        return []

    def _oracle_sel(self, case, io):
        bias, r, n = float.fromhex(case["bias"]), float.fromhex(case["r"]), case["n"]
        if "err" in io:
            cls = "bias-1-exception" if bias == 1.0 else "exception"
            return [Failure({"op": "sel", "class": cls},
                            f"RankSelection({bias!r}).get_index(population of {n}) with draw {r!r} raised {io['err']}")]
        if not 0 <= io["idx"] < n:
            return [Failure({"op": "sel", "class": "index-out-of-range"},
                            f"RankSelection({bias!r}).get_index(population of {n}) with draw {r!r} returned "
                            f"{io['idx']}")]
        if case.get("kind") == "mass":
            return self._oracle_mass(bias, n)
        return []

    def _oracle_mass(self, bias, n):
        """Exact probability mass of every index under random.random() (k * 2**-53): non-increasing in the index."""
        key = (bias, n, str(vcommon.REPO))
        if key in _MASS_CACHE:
            return []
        _MASS_CACHE[key] = True
        top = 2 ** 53
        probes: dict[int, int] = {}

        def f(k):
            if k not in probes:
                out = self._impl_sel(bias, k / top, n)
                probes[k] = out.get("idx") if "err" not in out else None
            return probes[k]

        thresholds = [0]
        for i in range(1, n):
            lo, hi = thresholds[-1], top  # smallest k with f(k) >= i lies in [lo, hi]
            while lo < hi:
                mid = (lo + hi) // 2
                v = f(mid)
                if v is None or not 0 <= v < n:
                    return [Failure({"op": "sel", "class": "exception" if v is None else "index-out-of-range"},
                                    f"RankSelection({bias!r}).get_index(population of {n}) with draw {mid / top!r} "
                                    f"gave {v}")]
                if v >= i:
                    hi = mid
                else:
                    lo = mid + 1
            thresholds.append(lo)
        thresholds.append(top)
        self.count("sel:mass-probes", len(probes))
        ks = sorted(probes)
        for a, b in zip(ks, ks[1:]):
            if probes[a] > probes[b]:
                return [Failure({"op": "sel", "class": "index-not-monotone-in-draw"},
                                f"RankSelection({bias!r}), population {n}: draw {a / top!r} -> {probes[a]} but larger "
                                f"draw {b / top!r} -> {probes[b]}")]
        mass = [Fraction(thresholds[i + 1] - thresholds[i], top) for i in range(n)]
        tol = Fraction(2) ** -45 + (Fraction(2) ** -40 * Fraction(bias) ** 2 / (Fraction(bias) - 1) if bias > 1 else 0)
        best_later = Fraction(0)
        for i in range(n - 1, -1, -1):  # mass[i] must be >= every later mass
            if best_later > mass[i] + tol:
                j = max(range(i + 1, n), key=lambda x: mass[x])
                return [Failure({"op": "sel", "class": "prefers-worse-rank"},
                                f"RankSelection({bias!r}), population {n}: P(index={j}) = {float(mass[j])!r} > "
                                f"P(index={i}) = {float(mass[i])!r}")]
            best_later = max(best_later, mass[i])
        return []

    def oracle(self, case, io):
        op = case["op"]
        if op == "rank":
            return self._oracle_rank(case, io)
        if op == "sel":
            return self._oracle_sel(case, io)
        if op == "zero":
            if "err" in io:
                if not case["sols"] and case["goals"]:
                    return []  # documented assert of the private helper on an empty population
                return [Failure({"op": "zero", "class": "exception:" + io["err"]}, f"_get_zero_front raised {io['err']}")]
            return self._check_zero_front(case, io["front"], "zero")
        if op == "nondom":
            if "err" in io:
                return [Failure({"op": "nondom", "class": "exception:" + io["err"]},
                                f"_get_non_dominated_solutions raised {io['err']}")]
            fit = self._fitmap(case)
            pop = Counter((s["sid"], s["len"]) for s in case["sols"])
            expect = Counter({a: pop[a] for a in pop if not any(dominates(fit[b], fit[a], case["goals"]) for b in pop)})
            got = Counter(tuple(x) for x in io["front"])
            if got != expect:
                return [Failure({"op": "nondom", "class": "front-not-the-nondominated-set"},
                                f"_get_non_dominated_solutions = {sorted(got.elements())}, non-dominated = "
                                f"{sorted(expect.elements())}")]
            return []
        if op == "crowd":
            if "err" in io:
                return [Failure({"op": "crowd", "class": "exception:" + io["err"]},
                                f"fast_epsilon_dominance_assignment raised {io['err']}")]
            for i, d in enumerate(io["dist"]):
                if isinstance(d, str) or not 0 <= Fraction(*d) < 1:
                    return [Failure({"op": "crowd", "class": "distance-outside-unit-interval"},
                                    f"crowding distance of front member {i} is {d}")]
            return []
        if op == "cmp" and "err" in io:
            return [Failure({"op": "cmp", "class": "exception:" + io["err"]}, f"comparator raised {io['err']}")]
        return []

    def classify(self, case, io):
        op = case["op"]
        if op == "sel":
            return vcommon.jdump([case["bias"], case["r"], case["n"]])
        if len(case["sols"]) < 2 or "err" in io:
            return None
        if op == "rank" and (io["fronts"] is None or len(io["fronts"]) < 2):
            return None
        if op == "crowd" and all(d == [0, 1] for d in io["dist"]):
            return None
        return vcommon.jdump([op, case["sols"], case["goals"], case.get("population"), case.get("flips")])

    # -- known-finding witness ---------------------------------------------------------------------
    def witnesses(self):
        case = {"op": "rank", "m": 1, "population": 1, "flips": [], "goals": [0],
                "sols": [{"sid": 1, "len": 1, "fit": [fx(0.0)]}, {"sid": 2, "len": 1, "fit": [fx(1.0)]},
                         {"sid": 3, "len": 1, "fit": [fx(2.0)]}]}
        fs = self._oracle_rank(case, self.impl(case))
        for f in fs:
            f.case = case
        return fs


if __name__ == "__main__":
    run_main(C14)
