"""C15 — variation operators keep every test case well-formed (DESIGN §5 C15).

One case = one history: a population of real `TestCaseChromosome`s over a generated test cluster, driven
through the REAL `TestFactory`, `TestCaseMutation`, crossover, local search, chop, forward-dependency
removal, `append_test_case`, `remove_unused_variables` ... with pynguin's RNG seeded from the case.
A recorder around the `TestCase` primitives and the name-based composites turns the run into an event
trace; `Driver/C15.lean` replays the trace on the Lean model (`Model/TestCase.lean`) and must reproduce
every observation (sizes, counters, fresh names, closures, removed index sets, full abstractions
`(bound, type, reads, assertions, registry, counter)` after every composite and after every top-level
operation, the factory contracts `InsertOK`/`ReplaceOK` at every insertion/replacement).
The oracle is independent of the model: after every top-level operation the source text of every touched
test case is compiled and analysed with `ast` (reads bound earlier, unique binders, registry, metadata),
and the length clause is checked around crossover and insertion.
"""
from __future__ import annotations

import ast
import builtins
import dataclasses
import json
import os
import re
import shutil
import sys
import tempfile
import zlib

import vcommon
from vcommon import Failure, PropertyCheck, run_main

SUT_A = '''
import enum
from typing import Callable, Any


class Color(enum.Enum):
    RED = 1
    GREEN = 2
    BLUE = 3


class Point:
    def __init__(self, x: int, y: int = 0) -> None:
        self.x = x
        self.y = y

    def dist(self, other: "Point") -> float:
        return float(abs(self.x - other.x) + abs(self.y - other.y))

    def scale(self, f: float, *more: int, **kw: str) -> "Point":
        return Point(int(self.x * f), int(self.y * f))

    def name(self) -> str:
        return f"{self.x},{self.y}"


class Box:
    def __init__(self, corner: Point, size: tuple[int, int], tags: list[str]) -> None:
        self.corner = corner
        self.size = size
        self.tags = tags
        self.color = Color.RED

    def paint(self, c: Color) -> None:
        self.color = c

    def corners(self) -> list[Point]:
        return [self.corner]

    def lookup(self, table: dict[str, Point], key: str) -> Point:
        return table.get(key, self.corner)


class Sub(Point):
    def __init__(self, x: int) -> None:
        super().__init__(x, x)

    def extra(self, b: Box, items: set[int]) -> int:
        return len(items)


def make_adder(n: int) -> Callable[[int], int]:
    def add(m):
        return n + m
    return add


def apply(f: Callable[[int], int], v: int) -> int:
    return f(v)


def untyped(a, b=None, *args, **kwargs):
    return a


def area(b: Box, kind: type, data: bytes, flag: bool) -> float:
    return float(b.size[0] * b.size[1])


def positional(a: int, b: str, /, c: float, *, d: complex = 1j) -> str:
    return b * a
'''

SUT_B = '''
import enum
from typing import Iterable, Optional


class Mode(enum.Enum):
    FAST = "f"
    SLOW = "s"


class Account:
    bank: str = "b"
    limit: int = 100
    rate: float = 0.5

    def __init__(self, owner: str, balance: int) -> None:
        self.owner = owner
        self.balance = balance

    @property
    def label(self) -> str:
        return self.owner

    @property
    def twin(self) -> "Account":
        return self

    def deposit(self, amount: int) -> int:
        self.balance += amount
        return self.balance

    def transfer(self, other: "Account", amount: int, mode: Mode) -> bool:
        return amount <= self.balance

    def history(self) -> list[int]:
        return [self.balance]


class Ledger:
    count: int = 0

    def __init__(self, accounts: list[Account], index: dict[str, Account]) -> None:
        self.accounts = accounts
        self.index = index

    def biggest(self) -> Account:
        return self.accounts[0]

    def totals(self, extra: Iterable[int], bonus: Optional[int] = None) -> int:
        return sum(a.balance for a in self.accounts)

    def pair(self) -> tuple[Account, Mode]:
        return self.accounts[0], Mode.FAST


def merge(a: Ledger, b: Ledger, strict: bool) -> Ledger:
    return a


def audit(accts: set[str], depth: int = 3, *names: str) -> float:
    return 0.0


def pick(table: dict[int, list[str]], which: Mode):
    return table
'''

SUT_C = '''
def f(x: int, y: int) -> int:
    return x + y


def g(s: str, t: bytes = b"") -> str:
    return s


def h(flag: bool, z: float) -> float:
    return z


def cb(fn, seed):
    return fn


class Lone:
    def __init__(self) -> None:
        self.v = 0

    def bump(self, by: int) -> "Lone":
        self.v += by
        return self

    def get(self) -> int:
        return self.v
'''

SUTS = {"a": ("c15sut_a", SUT_A, False), "b": ("c15sut_b", SUT_B, True), "c": ("c15sut_c", SUT_C, False)}
_VAR = re.compile(r"var_(0|[1-9][0-9]*)\Z")
_BUILTINS = set(dir(builtins))


def enc(name):
    """`var_k` -> k (int), any other identifier -> itself (str); the model's `Name`."""
    m = _VAR.match(name)
    return int(m.group(1)) if m else name


def nkey(n):
    return (0, n, "") if isinstance(n, int) else (1, 0, n)


def canon_full(full):
    """Canonical form of a full abstraction: reads are a set."""
    return {"counter": full["counter"], "registry": full["registry"],
            "stmts": [[s[0], s[1], sorted(set(s[2]), key=nkey), s[3], s[4]] for s in full["stmts"]]}


class RecorderError(Exception):
    """The recorder met a situation it does not model (machinery error, never swallowed)."""


class Recorder:
    """Observes the real objects; builds the event list for the model and the expected trace."""

    def __init__(self, check):
        self.check = check
        self.events = []
        self.expected = []
        self.depth = 0
        self.ids = {}
        self.keep = []
        self.types = {}
        self.pending_clone = None       # (src object, new object) of the last clone made inside a composite
        self.last_clone = None          # (event index, src object, new object) of the last depth-0 clone
        self.await_backup = None        # (event index, tc) for the chop prediction of mutate()
        self.draws = None               # list collecting the draws of randomness.choice in append_test_case_from
        self.touched = set()
        self.violations = []

    # -- ids / abstraction ---------------------------------------------------------------------
    def tid(self, t):
        if t is None:
            return None
        if t not in self.types:
            self.types[t] = len(self.types)
        return self.types[t]

    def known(self, tc):
        return id(tc) in self.ids

    def oid(self, tc):
        k = id(tc)
        if k not in self.ids:
            if tc.size() != 0 or tc._var_counter != 0:
                raise RecorderError("recorder met an unknown non-empty TestCase")
            self.ids[k] = len(self.ids)
            self.keep.append(tc)
            self.emit({"new": {"id": self.ids[k]}}, {"l": self.light(tc)})
        self.touched.add(self.ids[k])
        return self.ids[k]

    def register(self, tc):
        self.ids[id(tc)] = len(self.ids)
        self.keep.append(tc)
        self.touched.add(self.ids[id(tc)])
        return self.ids[id(tc)]

    def stmt(self, tc, s, iteration_order=False):
        asserts = [enc(a.source.split(".", 1)[0].strip()) for a in s.assertions if isinstance(getattr(a, "source", None), str)]
        return {"bound": None if s.bound_variable is None else enc(s.bound_variable),
                "btype": self.tid(s.bound_type),
                "uses": [enc(n) for n in (self.check.head_reference_order(s) if iteration_order else s.used_variables())],
                "asserts": asserts, "simpleAssign": tc._transform_assign_to_expr(s.node) is not s.node}

    def stmts(self, tc, iteration_order=False):
        return [self.stmt(tc, s, iteration_order) for s in tc._statements]

    def full(self, tc):
        return canon_full({
            "counter": tc._var_counter,
            "registry": [[self.tid(t), [enc(v) for v in vs]] for t, vs in tc._type_registry.items()],
            "stmts": [[d["bound"], d["btype"], d["uses"], d["asserts"], d["simpleAssign"]] for d in self.stmts(tc)]})

    def wf_abs(self, tc):
        """WF on the abstraction (second implementation of the specification, in Python)."""
        seen, reg = [], {}
        for s in tc._statements:
            for u in s.used_variables():
                if _VAR.match(u) and u not in seen:
                    return False
            b = s.bound_variable
            if b is not None:
                m = _VAR.match(b)
                if b in seen or not m or int(m.group(1)) >= tc._var_counter:
                    return False
                seen.append(b)
                if s.bound_type is not None:
                    reg.setdefault(s.bound_type, []).append(b)
        return list(reg.items()) == [(t, list(v)) for t, v in tc._type_registry.items()]

    def light(self, tc):
        return [tc.size(), tc._var_counter, self.wf_abs(tc)]

    def emit(self, ev, exp):
        self.events.append(ev)
        self.expected.append(exp)
        self.check.count("ev:" + next(iter(ev)))
        return len(self.events) - 1

    def snap(self, tcs):
        tcs = [t for t in tcs if self.known(t)]
        if tcs:
            self.emit({"snap": {"ids": [self.ids[id(t)] for t in tcs]}}, {"snap": [self.full(t) for t in tcs]})


REC: Recorder | None = None
_PATCHED = False


def install_patches():
    """Wrap the real primitives / composites once per process; inert while REC is None."""
    global _PATCHED
    if _PATCHED:
        return
    _PATCHED = True
    import pynguin.ga.operators.crossover as xo
    import pynguin.ga.operators.mutation as mut
    import pynguin.testcase.testcase as tcm
    import pynguin.testcase.testfactory as tfm
    from pynguin.utils import randomness
    T = tcm.TestCase

    def nested(orig, *a, **k):
        REC.depth += 1
        try:
            return orig(*a, **k)
        finally:
            REC.depth -= 1

    def wrap(name, handler):
        orig = getattr(T, name)

        def w(self, *a, **k):
            if REC is None:
                return orig(self, *a, **k)
            if REC.depth > 0:
                return nested(orig, self, *a, **k)
            return handler(orig, self, *a, **k)
        w.__name__ = name
        setattr(T, name, w)

    def norm_index(n, i):  # list.insert semantics
        if i < 0:
            i = max(0, n + i)
        return min(i, n)

    def h_add(orig, self, stmt):
        i = REC.oid(self)
        nested(orig, self, stmt)
        REC.emit({"add": {"id": i, "s": REC.stmt(self, stmt)}}, {"ok": True, "l": REC.light(self)})

    def h_insert(orig, self, index, stmt):
        i = REC.oid(self)
        pos = norm_index(self.size(), index)
        nested(orig, self, index, stmt)
        REC.emit({"insert": {"id": i, "i": pos, "s": REC.stmt(self, stmt)}}, {"ok": True, "l": REC.light(self)})

    def h_replace(orig, self, index, stmt):
        i = REC.oid(self)
        if index < 0:
            raise RecorderError("replace_statement with a negative index is not modelled")
        try:
            nested(orig, self, index, stmt)
        except IndexError:
            REC.emit({"replace": {"id": i, "i": index, "s": REC.stmt(self, stmt)}}, {"err": "IndexError"})
            raise
        REC.emit({"replace": {"id": i, "i": index, "s": REC.stmt(self, stmt)}}, {"ok": True, "l": REC.light(self)})

    def h_remove(orig, self, index):
        i = REC.oid(self)
        if index < 0:
            raise RecorderError("remove_statement with a negative index is not modelled")
        try:
            s = nested(orig, self, index)
        except IndexError:
            REC.emit({"remove": {"id": i, "i": index}}, {"err": "IndexError"})
            raise
        d = REC.stmt(self, s)
        REC.emit({"remove": {"id": i, "i": index}},
                 {"r": [d["bound"], d["btype"], d["uses"], d["asserts"], d["simpleAssign"]], "l": REC.light(self)})
        return s

    def h_batch(orig, self, indices):
        i = REC.oid(self)
        idxs = sorted(indices)
        if idxs and idxs[0] < 0:
            raise RecorderError("negative index in remove_statements_batch is not modelled")
        nested(orig, self, indices)
        REC.emit({"batch": {"id": i, "idxs": idxs}}, {"l": REC.light(self)})

    def h_chop(orig, self, position):
        i = REC.oid(self)
        nested(orig, self, position)
        REC.emit({"chop": {"id": i, "pos": position}}, {"l": REC.light(self), "full": REC.full(self)})

    def h_fwd(orig, self, index):
        i = REC.oid(self)
        try:
            r = nested(orig, self, index)
        except IndexError:
            REC.emit({"fwd": {"id": i, "i": index}}, {"err": "IndexError"})
            raise
        REC.emit({"fwd": {"id": i, "i": index}}, {"r": sorted(r)})
        return r

    def h_remove_fwd(orig, self, index):
        i = REC.oid(self)
        try:
            r = nested(orig, self, index)
        except IndexError:
            REC.emit({"removeFwd": {"id": i, "i": index}}, {"err": "IndexError"})
            raise
        REC.emit({"removeFwd": {"id": i, "i": index}}, {"r": sorted(r), "l": REC.light(self), "full": REC.full(self)})
        return r

    def h_next_var(orig, self):
        i = REC.oid(self)
        name = nested(orig, self)
        REC.emit({"nextVar": {"id": i}}, {"r": enc(name), "l": REC.light(self)})
        return name

    def h_remove_unused(orig, self):
        i = REC.oid(self)
        nested(orig, self)
        REC.emit({"removeUnused": {"id": i, "keep": REC.check.keeps_assertions()}},
                 {"l": REC.light(self), "full": REC.full(self)})

    def with_draws(fn):
        """Run fn while recording the index every randomness.choice picks."""
        draws = []
        orig_choice = randomness.choice

        def choice(seq):
            x = orig_choice(seq)
            draws.append(list(seq).index(x))
            return x
        randomness.choice = choice
        try:
            fn()
        finally:
            randomness.choice = orig_choice
        return draws

    def h_append_from(orig, self, other, start):
        i = REC.oid(self)
        o = REC.oid(other)
        if start < 0:
            raise RecorderError("append_test_case_from with a negative start is not modelled")
        ostmts = REC.stmts(other, iteration_order=True)
        draws = with_draws(lambda: nested(orig, self, other, start))
        REC.emit({"appendFrom": {"id": i, "oid": o, "other": ostmts, "start": start, "draws": draws}},
                 {"otherOk": True, "l": REC.light(self), "full": REC.full(self)})

    orig_clone = T.clone

    def clone(self):
        if REC is None:
            return orig_clone(self)
        if REC.depth > 0:
            new = nested(orig_clone, self)
            REC.pending_clone = (self, new)
            return new
        i = REC.oid(self)
        if REC.await_backup is not None and REC.await_backup[1] is self:
            REC.expected[REC.await_backup[0]] = {"full": REC.full(self)}
            REC.await_backup = None
        new = nested(orig_clone, self)
        n = REC.register(new)
        idx = REC.emit({"clone": {"id": i, "nid": n}}, {"l": REC.light(new)})
        REC.last_clone = (idx, self, new)
        return new
    T.clone = clone

    for name, handler in (("add_statement", h_add), ("insert_statement", h_insert),
                          ("replace_statement", h_replace), ("remove_statement", h_remove),
                          ("remove_statements_batch", h_batch), ("chop", h_chop),
                          ("forward_dependencies", h_fwd),
                          ("remove_statement_with_forward_dependencies", h_remove_fwd),
                          ("next_var_name", h_next_var), ("remove_unused_variables", h_remove_unused),
                          ("append_test_case_from", h_append_from)):
        wrap(name, handler)

    orig_dg = tfm.TestFactory.delete_statement_gracefully

    def delete_statement_gracefully(test_case, position):
        if REC is None:
            return orig_dg(test_case, position)
        if REC.depth > 0:
            return nested(orig_dg, test_case, position)
        i = REC.oid(test_case)
        if position < 0:
            r = nested(orig_dg, test_case, position)
            if r:
                raise RecorderError("delete_statement_gracefully accepted a negative position")
            return r
        r = nested(orig_dg, test_case, position)
        REC.emit({"deleteGracefully": {"id": i, "pos": position}},
                 {"r": bool(r), "l": REC.light(test_case), "full": REC.full(test_case)})
        return r
    tfm.TestFactory.delete_statement_gracefully = staticmethod(delete_statement_gracefully)

    orig_splice = xo.splice_test_case_chromosomes

    def splice_test_case_chromosomes(parent, other, position1, position2):
        import pynguin.configuration as config
        if REC is None:
            return orig_splice(parent, other, position1, position2)
        if REC.depth > 0:
            return nested(orig_splice, parent, other, position1, position2)
        ptc, otc = parent.test_case, other.test_case
        i, o = REC.oid(ptc), REC.oid(otc)
        ostmts = REC.stmts(otc, iteration_order=True)
        size_before = ptc.size()
        REC.pending_clone = None
        draws = with_draws(lambda: nested(orig_splice, parent, other, position1, position2))
        if REC.pending_clone is None or REC.pending_clone[0] is not ptc:
            raise RecorderError("splice_test_case_chromosomes did not clone the parent's test case")
        off = REC.pending_clone[1]
        n = REC.register(off)
        length = config.configuration.search_algorithm.chromosome_length
        accepted = parent.test_case is off
        if not accepted and parent.test_case is not ptc:
            raise RecorderError("splice_test_case_chromosomes installed an unknown test case")
        REC.emit({"splice": {"id": i, "oid": o, "nid": n, "other": ostmts, "p1": position1, "p2": position2,
                             "draws": draws, "len": length}},
                 {"otherOk": True, "accepted": accepted, "resultIsOffspring": accepted, "l": REC.light(off),
                  "full": REC.full(off)})
        REC.check.count("crossover:accepted" if accepted else "crossover:rejected")
        after = parent.test_case.size()
        if after > length and after > size_before:
            REC.violations.append({"class": "crossover-length", "what":
                                   f"crossover grew a test case from {size_before} to {after} statements, "
                                   f"chromosome_length={length}"})
    xo.splice_test_case_chromosomes = splice_test_case_chromosomes

    M = mut.TestCaseMutation
    orig_mutate = M.mutate

    def mutate(self, chromosome):
        import pynguin.configuration as config
        if REC is None or REC.depth > 0:
            return orig_mutate(self, chromosome)
        tc = chromosome.test_case
        i = REC.oid(tc)
        sa = config.configuration.search_algorithm
        idx = REC.emit({"expectChop": {"id": i, "chopMax": bool(sa.chop_max_length), "len": sa.chromosome_length,
                                       "last": chromosome.get_last_mutatable_statement()}}, None)
        REC.await_backup = (idx, tc)
        try:
            return orig_mutate(self, chromosome)
        finally:
            if REC.expected[idx] is None:
                # the backup clone was never taken: whatever the test case is now stands in
                REC.expected[idx] = {"full": "no-backup-clone-observed"}
            REC.await_backup = None
    M.mutate = mutate

    orig_mi = M._mutation_insert

    def _mutation_insert(self, chromosome):
        import pynguin.configuration as config
        if REC is None or REC.depth > 0:
            return orig_mi(self, chromosome)
        factory = chromosome.test_factory
        length = config.configuration.search_algorithm.chromosome_length
        size_before = chromosome.size()
        state = {"pending": None}
        orig_irs = factory.insert_random_statement

        def settle():
            p = state["pending"]
            if p is None:
                return
            state["pending"] = None
            before_obj, after_obj = p
            now = chromosome.test_case
            if now is not before_obj and now is not after_obj:
                raise RecorderError("_mutation_insert installed an unknown test case")
            rolled = now is before_obj
            REC.emit({"guard": {"before": REC.ids[id(before_obj)], "after": REC.ids[id(after_obj)], "len": length}},
                     {"rolledBack": rolled, "size": now.size()})
            REC.check.count("guard:rolled-back" if rolled else "guard:kept")

        def hooked(test_case, position):
            lc = REC.last_clone
            backup = lc[2] if lc is not None and lc[1] is test_case and lc[0] == len(REC.events) - 1 else None
            settle()
            r = orig_irs(test_case, position)
            if backup is not None:
                state["pending"] = (backup, test_case)
            else:
                REC.check.count("guard:no-backup")
            return r
        factory.insert_random_statement = hooked
        try:
            r = orig_mi(self, chromosome)
            settle()
        finally:
            del factory.insert_random_statement
        after = chromosome.size()
        REC.check.count("insert:calls")
        if after > size_before:
            REC.check.count("insert:grew")
        if after > length and after > size_before:
            REC.violations.append({"class": "insert-length", "what":
                                   f"_mutation_insert grew a test case from {size_before} to {after} statements, "
                                   f"chromosome_length={length}"})
        return r
    M._mutation_insert = _mutation_insert


class StubTimer:
    def __init__(self, budget):
        self.budget = budget

    def limit_reached(self):
        self.budget -= 1
        return self.budget < 0


class StubObjective:
    """Deterministic stand-in for LocalSearchObjective (no execution): draws from pynguin's RNG."""

    def __init__(self, budget):
        self.budget = budget

    def has_improved(self, chromosome):
        from pynguin.utils import randomness
        self.budget -= 1
        return self.budget >= 0 and randomness.next_float() < 0.35

    def has_changed(self, chromosome):
        from pynguin.testcase.localsearchobjective import LocalSearchImprovement as Imp
        from pynguin.utils import randomness
        self.budget -= 1
        if self.budget < 0:
            return Imp.NONE
        return randomness.choice([Imp.IMPROVEMENT, Imp.DETERIORATION, Imp.NONE])


OPS = (["mutate"] * 10 + ["insert"] * 4 + ["delete"] * 2 + ["change"] * 4 + ["crossover"] * 5 + ["splice"] * 3
       + ["localsearch"] * 3 + ["chop"] * 2 + ["removeUnused"] * 2 + ["removeFwd"] * 2 + ["fwd"] + ["deleteAt"] * 2
       + ["append"] * 2 + ["typechange"] * 3 + ["mutvalue"] * 2 + ["mutcall"] * 2 + ["changecall"] * 2
       + ["changefield"] * 2 + ["fresh"] * 2 + ["result"] * 3 + ["assertion"] * 1 + ["insertAt"] * 3
       + ["appendFromMid"] * 2 + ["errors"] * 1)


class C15(PropertyCheck):
    prop_id = "C15"
    prop_modules = ["PynguinModel.Props.C15"]
    extra_modules = ["PynguinModel.Model.TestCase"]
    driver = "Driver/C15.lean"
    n_quick = 90
    n_thorough = 1000
    n_search = 400
    ops_quick = 40
    ops_thorough = 60
    rule = ("one case = one history of 40 (quick) / 60 (thorough) top-level operations (mutate, insert/delete/change "
            "mutation, relative crossover, direct splice, local search with a stub objective, chop, forward-dependency "
            "removal, graceful deletion, append_test_case(_from), change_statement_type, mutate_value/call, "
            "change_random_(field_)call, remove_unused_variables, fresh random test case, fake execution results) on a "
            "population of 3 real chromosomes over one of 3 generated clusters (classes, subclasses, methods, "
            "properties/fields, enums, higher-order callables, typed collections, *args/**kwargs, positional-only), "
            "chromosome_length in {4,6,10,48}; non-trivial = distinct history in which at least one statement was "
            "removed by a dependency closure, one crossover offspring was accepted, or one replacement happened")
    assumptions = [
        "identifiers of the module under test are not of the form var_<n> (such a keyword/attribute name would count "
        "as a read of that variable in used_variables())",
        "statements enter a test case through TestFactory (contracts InsertOK/ReplaceOK validated on every run); "
        "seeded / LLM-deserialised test cases are not part of the histories",
        "local search is driven with a stub objective (no execution); its statement strategies run unchanged",
        "the length clause is checked for the two operators the property names: crossover "
        "(splice_test_case_chromosomes) and insertion mutation (_mutation_insert)",
    ]
    trusted_base_extra = [
        "Model/TestCase.lean mirrors TestCase.{add,insert,remove,replace}_statement, remove_statements_batch, chop, "
        "forward_dependencies, remove_statement_with_forward_dependencies, append_test_case_from, "
        "_resolve_head_references, next_var_name, clone, remove_unused_variables, _register/_rebuild_registry, "
        "TestFactory.delete_statement_gracefully, splice_test_case_chromosomes, the chop of TestCaseMutation.mutate, "
        "the length guard of _mutation_insert",
        "the abstraction of a Statement is (bound_variable, bound_type, used_variables(), assertion sources, "
        "_transform_assign_to_expr applicable); libcst rendering is outside the model, exercised by compile()",
    ]

    def __init__(self, tier, seed):
        super().__init__(tier, seed)
        self._tmp = None
        self._clusters = {}
        self._store = {}
        self._keeps = None
        self._sorted_refs = None

    # -- generation ---------------------------------------------------------------------------
    def gen_case(self, rng):
        n = self.ops_quick if self.tier == "quick" else self.ops_thorough
        ops = [{"k": rng.choice(OPS), "c": rng.randrange(3), "d": rng.randrange(3), "r": rng.randrange(1 << 16),
                "q": rng.randrange(1 << 16)} for _ in range(n)]
        case = {"sut": rng.choice(["a", "a", "b", "b", "c"]), "seed": rng.randrange(1 << 30),
                "len": rng.choice([4, 6, 6, 10, 10, 48]), "chop": rng.random() < 0.8,
                "ls_diff": rng.random() < 0.5, "ops": ops}
        self.count("sut:" + case["sut"])
        self.count(f"len:{case['len']}")
        return case

    # -- real objects --------------------------------------------------------------------------
    def _cluster(self, key):
        import importlib
        import pynguin.configuration as config
        from pynguin.analyses.module import generate_test_cluster
        if key in self._clusters:
            return self._clusters[key]
        if self._tmp is None:
            self._tmp = tempfile.mkdtemp(prefix="c15-")
            sys.path.insert(0, self._tmp)
        name, src, fields = SUTS[key]
        with open(os.path.join(self._tmp, name + ".py"), "w") as f:
            f.write(src.lstrip())
        importlib.invalidate_caches()
        config.configuration.module_name = name
        config.configuration.test_creation.generate_field_statements = fields
        cl = generate_test_cluster(name)
        self._clusters[key] = (name, cl)
        return self._clusters[key]

    def keeps_assertions(self):
        """Which version of remove_unused_variables the tree has (behavioural probe, once per run): with
        proposed_fixes/C19-remove-unused-keeps-assertions.diff an asserted but unread variable stays bound.
        Both versions are modelled (`TC.removeUnusedV`) and proved to preserve WF."""
        if self._keeps is None:
            global REC
            import libcst as cst
            import pynguin.assertion.assertion as ass
            import pynguin.testcase.testcase as tcm
            saved, REC = REC, None
            try:
                t = tcm.TestCase()
                t.add_statement(tcm.Statement(node=cst.parse_module("var_0 = 5\n").body[0], bound_variable="var_0",
                                              bound_type=int, assertions=[ass.ObjectAssertion("var_0", 5)]))
                t.remove_unused_variables()
                self._keeps = t.get_statement(0).bound_variable == "var_0"
            finally:
                REC = saved
            self.count("tree:remove_unused_keeps_assertions" if self._keeps else "tree:remove_unused_drops_assertions")
        return self._keeps

    def head_reference_order(self, stmt):
        """The order in which `_resolve_head_references` visits `stmt.used_variables()` (the model consumes the
        random draws in that order): sorted since "crossover resolves head references in a deterministic
        order", the frozenset's own order before.  Behavioural probe, once per run: a tail statement reading two
        head variables whose set order differs from their sorted order; the loop variable is read off the frame
        of each `randomness.choice` call."""
        if self._sorted_refs is None:
            global REC
            import libcst as cst
            import pynguin.testcase.testcase as tcm
            from pynguin.utils import randomness
            saved, REC = REC, None
            orig_choice = randomness.choice
            try:
                verdict = True
                pairs = [(a, b) for a in range(12) for b in range(a + 1, 12)]
                for a, b in pairs:
                    names = [f"var_{a}", f"var_{b}"]
                    node = cst.parse_module(f"var_99 = [{names[0]}, {names[1]}]\n").body[0]
                    tail = tcm.Statement(node=node, bound_variable="var_99", bound_type=list)
                    if list(tail.used_variables()) == sorted(tail.used_variables()):
                        continue
                    other, me = tcm.TestCase(), tcm.TestCase()
                    for n in names:
                        lit = cst.parse_module(f"{n} = 1\n").body[0]
                        other.add_statement(tcm.Statement(node=lit, bound_variable=n, bound_type=int))
                    other.add_statement(tail)
                    me.add_statement(tcm.Statement(node=cst.parse_module("var_0 = 1\n").body[0],
                                                   bound_variable="var_0", bound_type=int))
                    me._var_counter = 1
                    seen = []

                    def choice(seq):
                        seen.append(sys._getframe(1).f_locals.get("name"))
                        return seq[0]
                    randomness.choice = choice
                    me.append_test_case_from(other, 2)
                    verdict = seen == sorted(names)
                    break
                self._sorted_refs = verdict
            finally:
                randomness.choice = orig_choice
                REC = saved
            self.count("tree:head_references_sorted" if self._sorted_refs else "tree:head_references_set_order")
        return sorted(stmt.used_variables()) if self._sorted_refs else list(stmt.used_variables())

    def _cleanup(self):
        if self._tmp is not None:
            if self._tmp in sys.path:
                sys.path.remove(self._tmp)
            shutil.rmtree(self._tmp, ignore_errors=True)
            self._tmp = None

    # -- independent oracle on the source text ---------------------------------------------------
    @staticmethod
    def text_check(tc, alias):
        """The property, evaluated on `to_code()` + the statement metadata; returns [(class, what)]."""
        out = []
        code = tc.to_code()
        try:
            compile(code, "<c15>", "exec")
            tree = ast.parse(code)
        except SyntaxError as e:
            return [("invalid-python", f"to_code() is not valid Python: {e.msg}: {code[:300]!r}")]
        body = tree.body
        if tc.size() == 0:
            if not (len(body) == 1 and isinstance(body[0], ast.Pass)):
                out.append(("invalid-python", "empty test case does not render as `pass`"))
            body = []
        if len(body) != tc.size():
            return out + [("statement-count", f"{tc.size()} statements render as {len(body)} top-level statements")]
        bound = []
        reg = {}
        for node, st in zip(body, tc._statements):
            loads = {n.id for n in ast.walk(node) if isinstance(n, ast.Name) and isinstance(n.ctx, ast.Load)}
            lam = {a.arg for n in ast.walk(node) if isinstance(n, ast.Lambda)
                   for a in ([n.args.vararg, n.args.kwarg] + n.args.args + n.args.kwonlyargs) if a is not None}
            free = {x for x in loads if x not in _BUILTINS and x != alias and x not in lam}
            for x in sorted(free):
                if x not in bound:
                    out.append(("read-before-bind", f"`{x}` is read by `{ast.unparse(node)}` but not bound by an "
                                                    f"earlier statement"))
            stores = [n.id for n in ast.walk(node) if isinstance(n, ast.Name) and isinstance(n.ctx, ast.Store)]
            want = [] if st.bound_variable is None else [st.bound_variable]
            if stores != want:
                out.append(("metadata", f"statement `{ast.unparse(node)}` binds {stores}, bound_variable={st.bound_variable}"))
            for x in stores:
                if x in bound:
                    out.append(("duplicate-binder", f"`{x}` is bound twice"))
                bound.append(x)
            if st.bound_variable is not None and st.bound_type is not None:
                reg.setdefault(st.bound_type, []).append(st.bound_variable)
        if {t: list(v) for t, v in tc._type_registry.items()} != reg:
            out.append(("registry", f"_type_registry {tc._type_registry} does not match the statements ({reg})"))
        return out

    # -- implementation adapter -----------------------------------------------------------------
    def impl(self, case):
        global REC
        import pynguin.configuration as config
        import pynguin.ga.testcasechromosome as tcc
        import pynguin.ga.testcasefactory as tcf
        import pynguin.testcase.testcase as tcm
        import pynguin.testcase.testfactory as tfm
        from pynguin.ga.operators.crossover import SinglePointRelativeCrossOver
        from pynguin.testcase.execution_result import ExecutionResult
        from pynguin.testcase.localsearch import TestCaseLocalSearch
        from pynguin.utils import randomness
        import pynguin.assertion.assertion as ass
        from pynguin.utils.naming import get_module_alias

        install_patches()
        name, cluster = self._cluster(case["sut"])
        config.configuration.module_name = name
        alias = get_module_alias(name)
        sa = config.configuration.search_algorithm
        ls = config.configuration.local_search
        saved = (sa.chromosome_length, sa.chop_max_length, ls.local_search_probability,
                 ls.local_search_different_datatype, ls.local_search_same_datatype,
                 config.configuration.test_creation.max_attempts)
        sa.chromosome_length = case["len"]
        sa.chop_max_length = case["chop"]
        ls.local_search_probability = 0.5
        ls.local_search_different_datatype = case["ls_diff"]
        ls.local_search_same_datatype = True
        config.configuration.test_creation.max_attempts = 20
        factory = tfm.TestFactory(cluster)
        tcfactory = tcf.RandomLengthTestCaseFactory(factory, cluster)
        randomness.RNG.seed(case["seed"])
        rec = Recorder(self)
        REC = rec
        stats = {"closure_removed": 0, "accepted": 0, "replaced": 0, "raised": 0, "max_size": 0}
        try:
            pop = [tcc.TestCaseChromosome(tcm.TestCase(), factory) for _ in range(3)]
            for c in pop:
                rec.oid(c.test_case)
            for n_op, op in enumerate(case["ops"]):
                k = op["k"]
                self.count("op:" + k)
                c, d = pop[op["c"]], pop[op["d"]]
                rec.touched = set()
                rec.touched.add(rec.ids[id(c.test_case)])
                tc = c.test_case
                size = tc.size()
                before_events = len(rec.events)
                try:
                    if k == "mutate":
                        c.mutate()
                    elif k == "insert":
                        c._mutation_insert()
                    elif k == "delete":
                        c._mutation_delete()
                    elif k == "change":
                        c._mutation_change()
                    elif k == "crossover":
                        if c is not d:
                            SinglePointRelativeCrossOver().cross_over(c, d)
                    elif k == "splice":
                        if c is not d:
                            c.cross_over(d.clone(), op["r"] % (size + 2), op["q"] % (d.size() + 2))
                    elif k == "localsearch":
                        if c.get_last_execution_result() is None:
                            c.set_last_execution_result(ExecutionResult())
                        TestCaseLocalSearch(None, None, StubTimer(150)).local_search(c, factory, StubObjective(30))
                        if c.size() > max(size, case["len"]):
                            # not a violation of C15's length clause (which names crossover and insertion); recorded
                            self.count("observation:local-search-grew-beyond-chromosome-length")
                    elif k == "chop":
                        tc.chop(op["r"] % (size + 3) - 2)
                    elif k == "removeUnused":
                        tc.remove_unused_variables()
                    elif k == "removeFwd":
                        if size:
                            tc.remove_statement_with_forward_dependencies(op["r"] % size)
                    elif k == "fwd":
                        if size:
                            tc.forward_dependencies(op["r"] % size)
                    elif k == "deleteAt":
                        factory.delete_statement_gracefully(tc, op["r"] % (size + 2))
                    elif k == "append":
                        tc.append_test_case(d.test_case.clone() if d is c else d.test_case)
                    elif k == "appendFromMid":
                        o = d.test_case.clone() if d is c else d.test_case
                        tc.append_test_case_from(o, op["r"] % (o.size() + 2))
                    elif k == "typechange":
                        if size:
                            factory.change_statement_type(tc, op["r"] % size)
                    elif k == "mutvalue":
                        if size:
                            factory.mutate_value(tc, op["r"] % size)
                    elif k == "mutcall":
                        if size:
                            factory.mutate_call(tc, op["r"] % size)
                    elif k == "changecall":
                        if size:
                            factory.change_random_call(tc, op["r"] % size)
                    elif k == "changefield":
                        if size:
                            factory.change_random_field_call(tc, op["r"] % size)
                    elif k == "insertAt":
                        factory.insert_random_statement(tc, op["r"] % (size + 1))
                    elif k == "fresh":
                        c.test_case = tcfactory.get_test_case()
                        c.remove_last_execution_result()
                    elif k == "result":
                        r = ExecutionResult()
                        if op["q"] % 3 and size:
                            r.report_new_thrown_exception(op["r"] % (size + 1), ValueError("c15"))
                        c.set_last_execution_result(r)
                    elif k == "assertion":
                        idx = [i for i, s in enumerate(tc._statements) if s.bound_variable is not None]
                        if idx:
                            i = idx[op["r"] % len(idx)]
                            s = tc.get_statement(i)
                            tc.replace_statement(i, dataclasses.replace(
                                s, assertions=[*s.assertions, ass.ObjectAssertion(s.bound_variable, op["q"] % 7)]))
                    elif k == "errors":
                        for fn in (lambda: tc.remove_statement(size + op["r"] % 2),
                                   lambda: tc.forward_dependencies(size + op["q"] % 2),
                                   lambda: tc.remove_statement_with_forward_dependencies(size)):
                            try:
                                fn()
                            except IndexError:
                                pass  # (a missing IndexError shows up as a model/implementation disagreement)
                except RecorderError:
                    raise
                except Exception as e:  # raised by pynguin's own operator: the history goes on
                    stats["raised"] += 1
                    self.count("raised:" + type(e).__name__)
                if rec.depth != 0:
                    raise RecorderError("recorder depth not restored")
                # the property, independently of the model, on every touched / current test case
                current = [x.test_case for x in pop]
                touched = [t for t in rec.keep if rec.ids[id(t)] in rec.touched]
                for t in {id(x): x for x in current + touched}.values():
                    for cls, what in self.text_check(t, alias):
                        rec.violations.append({"class": cls, "op": k, "what": f"after op #{n_op} `{k}`: {what}",
                                               "code": t.to_code()[:1500]})
                    stats["max_size"] = max(stats["max_size"], t.size())
                rec.snap(touched)
                for ev in rec.events[before_events:]:
                    kind = next(iter(ev))
                    if kind in ("deleteGracefully", "removeFwd"):
                        stats["closure_removed"] += 1
                    elif kind == "replace":
                        stats["replaced"] += 1
                    elif kind == "splice":
                        stats["accepted"] += 1
                if len(rec.violations) > 6:
                    break
        finally:
            REC = None
            (sa.chromosome_length, sa.chop_max_length, ls.local_search_probability,
             ls.local_search_different_datatype, ls.local_search_same_datatype,
             config.configuration.test_creation.max_attempts) = saved
        key = vcommon.jdump(case)
        self._store[key] = (zlib.compress(vcommon.jdump({"events": rec.events}).encode(), 1),
                            zlib.compress(json.dumps(rec.expected).encode(), 1))
        seen, viol = set(), []
        for v in rec.violations:
            if v["class"] not in seen:
                seen.add(v["class"])
                viol.append(v)
        return {"violations": viol, "events": len(rec.events), "stats": stats}

    # -- model side ----------------------------------------------------------------------------
    def model_line(self, case):
        z = self._store.get(vcommon.jdump(case))
        if z is None:
            return None
        return zlib.decompress(z[0]).decode()

    def compare(self, case, io, mo):
        key = vcommon.jdump(case)
        expected = json.loads(zlib.decompress(self._store[key][1]).decode())
        trace = mo.get("trace")
        if trace is None or len(trace) != len(expected):
            self.notes.append(f"model output: {str(mo)[:300]}")
            return False
        for n, (e, m) in enumerate(zip(expected, trace)):
            if "full" in m and isinstance(m["full"], dict):
                m["full"] = canon_full(m["full"])
            if "snap" in m:
                m["snap"] = [canon_full(x) for x in m["snap"]]
            if "r" in m and isinstance(m["r"], list) and len(m["r"]) == 5 and isinstance(m["r"][2], list) \
                    and isinstance(e.get("r"), list) and len(e["r"]) == 5:
                m["r"][2] = sorted(set(m["r"][2]), key=nkey)
                e["r"][2] = sorted(set(e["r"][2]), key=nkey)
            if e != m:
                ev = json.loads(self.model_line(case))["events"][n]
                self.notes.append(f"event #{n} {json.dumps(ev)[:400]}: implementation {json.dumps(e)[:600]} / "
                                  f"model {json.dumps(m)[:600]}")
                return False
        if self.tier == "thorough" or len(self._store) > 400:
            self._store.pop(key, None)
        return True

    # -- property oracle -----------------------------------------------------------------------
    def oracle(self, case, io):
        return [Failure({"class": v["class"]}, v["what"], detail=v.get("code")) for v in io["violations"]]

    def classify(self, case, io):
        st = io["stats"]
        if st["closure_removed"] or st["accepted"] or st["replaced"]:
            return vcommon.jdump(case)
        return None

    def witnesses(self):
        return []

    def extra_checks(self):
        self._cleanup()
        return []


if __name__ == "__main__":
    run_main(C15)
