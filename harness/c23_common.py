"""Shared helpers of the C23 / C20 checks: JSON encodings of Python values and libcst expressions.

Value JSON (`enc` / `dec`)                      Expression JSON (`cst2j` / `j2cst`)
  None → null, bool → true/false                  Name → {"n": id}
  int → {"i": hex string}                         Integer → {"I": digit text}
  float → {"f": [neg, "nan"|"inf"|"fin", bits]}   Float → {"F": bits of float(text)}
  complex → {"c": [float, float]}                 SimpleString(str) → {"s": [code points]}
  str → {"s": [code points]}                      SimpleString(bytes) → {"b": [bytes]}
  bytes → {"b": [byte values]}                    UnaryOperation(Minus, e) → {"neg": e}
  list → {"l": [...]}, tuple → {"t": [...]}       Call(Name f, args) → {"call": f, "a": [...]}
  set → {"S": [iteration order]}                  Attribute(e, Name a) → {"attr": e, "a": a}
  dict → {"d": [[k, v], ...]}                     List/Set → {"l"|"S": [...]}, Tuple → {"t": [...], "c": comma}
                                                  Dict → {"d": [[k, v], ...]}
Ints travel as hex (Python's `json`/`str` refuse > 4300 decimal digits); `bits` is the IEEE-754
pattern of the magnitude.  A token whose text is not of its kind becomes {"bad": text}.
"""
from __future__ import annotations

import math
import re
import struct

MASK63 = (1 << 63) - 1
INF_BITS = 0x7FF0000000000000


# ---- floats -----------------------------------------------------------------------------------
def fbits(x: float) -> int:
    return struct.unpack("<Q", struct.pack("<d", x))[0]


def enc_float(x: float) -> list:
    b = fbits(float(x))
    neg = bool(b >> 63)
    mag = b & MASK63
    if mag > INF_BITS:
        return [neg, "nan", 0]
    if mag == INF_BITS:
        return [neg, "inf", 0]
    return [neg, "fin", mag]


def dec_float(j) -> float:
    neg, kind, bits = j
    if kind == "nan":
        x = float("nan")
        return -x if neg else x
    if kind == "inf":
        return -math.inf if neg else math.inf
    return struct.unpack("<d", struct.pack("<Q", bits | ((1 << 63) if neg else 0)))[0]


# ---- values -----------------------------------------------------------------------------------
def enc(v):
    if v is None:
        return None
    if isinstance(v, bool):
        return bool(v)
    if isinstance(v, int):
        return {"i": hex(v)}
    if isinstance(v, float):
        return {"f": enc_float(v)}
    if isinstance(v, complex):
        return {"c": [enc_float(v.real), enc_float(v.imag)]}
    if isinstance(v, str):
        return {"s": [ord(c) for c in v]}
    if isinstance(v, bytes):
        return {"b": list(v)}
    if isinstance(v, list):
        return {"l": [enc(x) for x in v]}
    if isinstance(v, tuple):
        return {"t": [enc(x) for x in v]}
    if isinstance(v, (set, frozenset)):
        return {"S": [enc(x) for x in v]}
    if isinstance(v, dict):
        return {"d": [[enc(k), enc(x)] for k, x in v.items()]}
    return {"other": type(v).__name__}


def dec(j):
    if j is None or isinstance(j, bool):
        return j
    (k, x), = j.items()
    if k == "i":
        return int(x, 16)
    if k == "f":
        return dec_float(x)
    if k == "c":
        return complex(dec_float(x[0]), dec_float(x[1]))
    if k == "s":
        return "".join(chr(c) for c in x)
    if k == "b":
        return bytes(x)
    if k == "l":
        return [dec(y) for y in x]
    if k == "t":
        return tuple(dec(y) for y in x)
    if k == "S":
        return {dec(y) for y in x}
    if k == "d":
        return {dec(a): dec(b) for a, b in x}
    raise ValueError(f"dec: {j!r}")


def canon(j):
    """Canonical form of a value JSON: set elements sorted (iteration order is not semantic)."""
    import json
    if isinstance(j, dict):
        (k, x), = j.items()
        if k in ("l", "t"):
            return {k: [canon(y) for y in x]}
        if k == "S":
            return {k: sorted((canon(y) for y in x), key=lambda y: json.dumps(y, sort_keys=True))}
        if k == "d":
            return {k: [[canon(a), canon(b)] for a, b in x]}
        if k == "some":
            return {k: canon(x)}
    return j


def same(a, b) -> bool:
    """Identity of two Python values as the property means it: same type, same structure, floats
    equal incl. the sign of zero, NaN equal to NaN (sign bit of a NaN included)."""
    return type(a) is type(b) and canon(enc(a)) == canon(enc(b))


# ---- libcst <-> JSON --------------------------------------------------------------------------
_FLOAT_TOKEN = re.compile(r"^(\d(_?\d)*)?\.?(\d(_?\d)*)?([eE][+-]?\d(_?\d)*)?$")


def cst2j(node):
    import libcst as cst
    if isinstance(node, cst.Name):
        return {"n": node.value}
    if isinstance(node, cst.Integer):
        return {"I": node.value} if node.value.isascii() and node.value.isdigit() else {"bad": node.value}
    if isinstance(node, cst.Float):
        t = node.value
        if not _FLOAT_TOKEN.match(t) or not any(ch.isdigit() for ch in t):
            return {"bad": t}
        x = float(t)
        if not math.isfinite(x):
            return {"bad": t}
        return {"F": fbits(x)}
    if isinstance(node, cst.SimpleString):
        try:
            v = node.evaluated_value
        except Exception:
            return {"bad": node.value}
        if isinstance(v, str):
            return {"s": [ord(c) for c in v]}
        return {"b": list(v)}
    if isinstance(node, cst.UnaryOperation) and isinstance(node.operator, cst.Minus):
        return {"neg": cst2j(node.expression)}
    if isinstance(node, cst.Call) and isinstance(node.func, cst.Name) and all(
            a.keyword is None and a.star == "" for a in node.args):
        return {"call": node.func.value, "a": [cst2j(a.value) for a in node.args]}
    if isinstance(node, cst.Attribute):
        return {"attr": cst2j(node.value), "a": node.attr.value}
    if isinstance(node, cst.List):
        return {"l": [cst2j(e.value) for e in node.elements]}
    if isinstance(node, cst.Set):
        return {"S": [cst2j(e.value) for e in node.elements]}
    if isinstance(node, cst.Tuple):
        comma = len(node.elements) == 1 and isinstance(node.elements[0].comma, cst.Comma)
        return {"t": [cst2j(e.value) for e in node.elements], "c": comma}
    if isinstance(node, cst.Dict):
        return {"d": [[cst2j(e.key), cst2j(e.value)] for e in node.elements]}
    return {"other": type(node).__name__}


def float_token(bits: int) -> str:
    t = repr(dec_float([False, "fin", bits]))
    return t


def j2cst(j):
    import libcst as cst
    (k, x), *rest = sorted(j.items(), key=lambda kv: kv[0] in ("a", "c"))
    if k == "n":
        return cst.Name(x)
    if k == "I":
        return cst.Integer(x)
    if k == "F":
        return cst.Float(float_token(x))
    if k == "s":
        return cst.SimpleString(repr("".join(chr(c) for c in x)))
    if k == "b":
        return cst.SimpleString(repr(bytes(x)))
    if k == "neg":
        return cst.UnaryOperation(operator=cst.Minus(), expression=j2cst(x))
    if k == "call":
        return cst.Call(func=cst.Name(x), args=[cst.Arg(value=j2cst(a)) for a in j["a"]])
    if k == "attr":
        return cst.Attribute(value=j2cst(x), attr=cst.Name(j["a"]))
    if k == "l":
        return cst.List(elements=[cst.Element(value=j2cst(e)) for e in x])
    if k == "S":
        return cst.Set(elements=[cst.Element(value=j2cst(e)) for e in x])
    if k == "t":
        els = [cst.Element(value=j2cst(e)) for e in x]
        if j.get("c") and len(els) == 1:
            els = [els[0].with_changes(comma=cst.Comma(whitespace_after=cst.SimpleWhitespace("")))]
        return cst.Tuple(elements=els)
    if k == "d":
        return cst.Dict(elements=[cst.DictElement(key=j2cst(a), value=j2cst(b)) for a, b in x])
    raise ValueError(f"j2cst: {j!r}")


def code_of(node) -> str:
    import libcst as cst
    return cst.Module(body=[]).code_for_node(node)


# ---- random values ----------------------------------------------------------------------------
SPECIAL_FLOATS = [0.0, -0.0, math.inf, -math.inf, math.nan, -math.nan, 5e-324, -5e-324,
                  2.2250738585072014e-308, 1.7976931348623157e308, -1.7976931348623157e308,
                  1.0, -1.0, 0.1, 1e16, 1e22, 1e-7, 123456789012345680.0, 2.5, -3.25, 1e-5, 9007199254740993.0]


def rand_float(rng) -> float:
    r = rng.random()
    if r < 0.45:
        return rng.choice(SPECIAL_FLOATS)
    if r < 0.75:
        return struct.unpack("<d", struct.pack("<Q", rng.getrandbits(64)))[0]
    if r < 0.85:  # subnormals
        x = struct.unpack("<d", struct.pack("<Q", rng.getrandbits(52)))[0]
        return -x if rng.random() < 0.5 else x
    return round(rng.gauss(0, 1) * 2048, rng.randint(0, 8))


def rand_int(rng, huge_ok=True) -> int:
    r = rng.random()
    if r < 0.4:
        return rng.randint(-20, 20)
    if r < 0.7:
        return rng.randint(-10 ** 6, 10 ** 6)
    if r < 0.9:
        return rng.choice([-1, 1]) * rng.getrandbits(rng.choice([53, 64, 65, 128, 1024, 1025]))
    if r < 0.97 or not huge_ok:
        return rng.choice([-1, 1]) * (10 ** rng.randint(20, 400) + rng.randint(-5, 5))
    # around CPython's 4300-digit int<->str limit
    return rng.choice([-1, 1]) * (10 ** rng.choice([4298, 4299, 4300, 4301, 4500]) - rng.choice([0, 1]))


def rand_str(rng) -> str:
    n = rng.choice([0, 1, 1, 2, 3, 5, 8])
    out = []
    for _ in range(n):
        r = rng.random()
        if r < 0.4:
            out.append(chr(rng.randint(32, 126)))
        elif r < 0.6:
            out.append(rng.choice("'\"\\\n\r\t\x00\x7f{}% "))
        elif r < 0.8:
            out.append(chr(rng.randint(0, 0x2FF)))
        elif r < 0.9:
            out.append(chr(rng.randint(0xD800, 0xDFFF)))  # lone surrogates
        else:
            out.append(chr(rng.randint(0, 0x10FFFF)))
    return "".join(out)


def rand_bytes(rng) -> bytes:
    return bytes(rng.randint(0, 255) for _ in range(rng.choice([0, 1, 2, 3, 6])))


def rand_scalar(rng, kinds):
    k = rng.choice(kinds)
    if k == "none":
        return None
    if k == "bool":
        return rng.random() < 0.5
    if k == "int":
        return rand_int(rng)
    if k == "float":
        return rand_float(rng)
    if k == "complex":
        return complex(rand_float(rng), rand_float(rng))
    if k == "str":
        return rand_str(rng)
    return rand_bytes(rng)


def rand_value(rng, depth, kinds, hashable=False, coll=("list", "tuple", "set", "dict")):
    """A random nested value; `depth` = remaining nesting budget."""
    if depth <= 0 or rng.random() < 0.35:
        return rand_scalar(rng, kinds)
    k = rng.choice([c for c in coll if not hashable or c == "tuple"] or ["tuple"])
    n = rng.choice([0, 1, 1, 2, 3])
    if k == "list":
        return [rand_value(rng, depth - 1, kinds, False, coll) for _ in range(n)]
    if k == "tuple":
        return tuple(rand_value(rng, depth - 1, kinds, hashable, coll) for _ in range(n))
    if k == "set":
        return {rand_value(rng, depth - 1, kinds, True, coll) for _ in range(n)}
    return {rand_value(rng, depth - 1, kinds, True, coll): rand_value(rng, depth - 1, kinds, False, coll)
            for _ in range(n)}


def leaves(v):
    if isinstance(v, (list, tuple, set, frozenset)):
        for x in v:
            yield from leaves(x)
    elif isinstance(v, dict):
        for k, x in v.items():
            yield from leaves(k)
            yield from leaves(x)
    else:
        yield v


def is_negzero(x) -> bool:
    return isinstance(x, float) and x == 0 and math.copysign(1.0, x) < 0
