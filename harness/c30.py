"""C30 — test executions are isolated and restore process state (DESIGN §5 C30).

Correspondence: random *histories* of test cases are executed by the real `TestCaseExecutor` on an
instrumented module whose functions print, raise, close/rebind the standard streams, close and open
file descriptors, call `logging.disable`, reseed/consume `random` (module level and tracked
instances) and write a module global.  After every execution a snapshot of the process
(`sys.stdin/out/err` identity and closedness, which open file is behind descriptors 0/1/2, number of
open descriptors, `logging.root.manager.disable`, state of the module-level generator, of the tracked
instances and of `randomness.RNG`, `_null_file`) and the per-statement outcomes are compared with the
Lean model (`Driver/C30.lean`).  A second kind of case drives raw `OutputSuppressionContext` objects
(`enter`/`restore`/`restore`, `_make_deterministic`) from the harness thread.

Oracle (independent of the model): the property in its own words — after each execution the
snapshot equals the snapshot before it (streams, descriptors, logging level, Pynguin's generator),
and two executions of the same test case without hidden state in one history have the same result.

The process of the harness itself is protected: for every case descriptors 0/1/2 are pointed at three
scratch files (so "the same open file as before" is observable and nothing reaches the real
terminal), the real ones are parked at high numbers and put back afterwards.

Which variant of the code is modelled (`Cfg` of the Lean model: logging level / `sys.stdin` put
back by `execute`, closed `_null_file` reopened by `__enter__`) is probed on the implementation once
per run, so that the model/implementation comparison stays exact on the unrepaired tree as well; the
oracle does not depend on it.
"""
from __future__ import annotations

import atexit
import fcntl
import hashlib
import importlib
import io
import logging
import os
import random
import shutil
import sys
import tempfile
import textwrap

import vcommon
from vcommon import Failure, PropertyCheck, run_main

SUT_SRC = '''
import logging
import os
import random
import sys
import io

G = 0
R0 = random.Random(11)
R1 = random.Random(12)
INSTS = [R0, R1]
# observation channel of the harness (cleared before every execution)
LOG = []
START_OPEN = set()
NULL_FILENO = None


def _open_now():
    out = []
    for name in os.listdir("/proc/self/fd"):
        fd = int(name)
        try:
            os.fstat(fd)
        except OSError:
            continue
        out.append(fd)
    return sorted(out)


def act_print(is_err):
    LOG.append(["act", {"print": {"isErr": bool(is_err)}}])
    print("c30 says hello", file=sys.stderr if is_err else sys.stdout)
    LOG.append(["out", "ok"])


def act_raise():
    LOG.append(["act", "raise"])
    raise KeyError("c30")


def act_close(slot):
    LOG.append(["act", {"close": {"s": slot}}])
    {"inp": sys.stdin, "out": sys.stdout, "err": sys.stderr}[slot].close()
    LOG.append(["out", "ok"])


def act_bind(slot):
    LOG.append(["act", {"bind": {"s": slot}}])
    if slot == "inp":
        sys.stdin = io.StringIO("")
    elif slot == "out":
        sys.stdout = io.StringIO()
    else:
        sys.stderr = io.StringIO()
    LOG.append(["out", "ok"])


def act_close_fd(fd, via):
    LOG.append(["act", {"closeFd": {"fd": fd}}])
    if via == 0:
        os.close(fd)
    else:
        with open(fd, "w" if fd else "r"):
            pass
    LOG.append(["out", "ok"])


def act_close_new(j):
    null = NULL_FILENO()
    new = [fd for fd in _open_now() if fd not in START_OPEN and fd != null]
    fd = new[j] if j < len(new) else 150 + j
    LOG.append(["act", {"closeFd": {"fd": fd}}])
    os.close(fd)
    LOG.append(["out", "ok"])


def act_open_new():
    LOG.append(["act", "openNew"])
    fd = os.open(os.devnull, os.O_RDONLY)
    LOG.append(["out", {"fd": fd}])
    return fd


def act_log_disable(level):
    LOG.append(["act", {"logDisable": {"level": level}}])
    logging.disable(level)
    LOG.append(["out", "ok"])


def act_seed(x):
    LOG.append(["act", {"seed": {"x": x}}])
    random.seed(x)
    LOG.append(["out", "ok"])


def act_rand():
    LOG.append(["act", "rand"])
    v = random.random()
    LOG.append(["out", {"rnd": v.hex()}])
    return v


def act_inst_rand(i):
    LOG.append(["act", {"instRand": {"i": i}}])
    v = INSTS[i - 1].random()
    LOG.append(["out", {"rnd": v.hex()}])
    return v


def act_inst_seed(i, x):
    LOG.append(["act", {"instSeed": {"i": i, "x": x}}])
    INSTS[i - 1].seed(x)
    LOG.append(["out", "ok"])


def act_set_global(v):
    global G
    LOG.append(["act", {"setGlobal": {"v": v}}])
    G = v
    LOG.append(["out", "ok"])


def act_get_global():
    LOG.append(["act", "getGlobal"])
    LOG.append(["out", {"val": G}])
    return G
'''

STATEFUL = ("openNew", "closeNew", "setGlobal", "getGlobal")


def _h(state) -> str:
    return hashlib.sha1(repr(state).encode()).hexdigest()[:12]


def _open_fds() -> list[int]:
    out = []
    for name in os.listdir("/proc/self/fd"):
        fd = int(name)
        try:
            os.fstat(fd)
        except OSError:
            continue
        out.append(fd)
    return sorted(out)


def _name(a) -> str:
    return a if isinstance(a, str) else next(iter(a))


def _stateless(test) -> bool:
    return all(_name(a) not in STATEFUL for a in test)


class _Sandbox:
    """Point descriptors 0/1/2 at scratch files for one case; put the real ones back afterwards."""

    def __init__(self, chk: "C30"):
        self.chk = chk

    def __enter__(self):
        from pynguin.testcase.execution_isolation import OutputSuppressionContext as OSC
        self.h_in, self.h_out, self.h_err = sys.stdin, sys.stdout, sys.stderr
        for f in (sys.stdout, sys.stderr, sys.__stdout__, sys.__stderr__):
            try:
                f.flush()
            except Exception:  # noqa: BLE001
                pass
        if OSC._null_file.closed:
            OSC._null_file = open(os.devnull, mode="w")  # noqa: SIM115
        self.keep = [fcntl.fcntl(i, fcntl.F_DUPFD_CLOEXEC, 200) for i in (0, 1, 2)]
        self.ino = {}
        for i in (0, 1, 2):
            p = os.path.join(self.chk.tmp, f"std{i}")
            fd = os.open(p, (os.O_RDONLY if i == 0 else os.O_WRONLY | os.O_TRUNC) | os.O_CREAT, 0o600)
            os.dup2(fd, i)
            os.close(fd)
            st = os.fstat(i)
            self.ino[(st.st_dev, st.st_ino)] = i
        sys.stdin, sys.stdout, sys.stderr = sys.__stdin__, sys.__stdout__, sys.__stderr__
        logging.disable(logging.NOTSET)
        self.start_open = set(_open_fds())
        # descriptors of the harness process itself (everything else open at the end is closed again)
        self.base = self.start_open - {OSC._null_file.fileno()}
        return self

    def __exit__(self, *exc):
        from pynguin.testcase.execution_isolation import OutputSuppressionContext as OSC
        for f in (sys.__stdout__, sys.__stderr__):
            try:
                f.flush()
            except Exception:  # noqa: BLE001
                pass
        if not OSC._null_file.closed and OSC._null_file.fileno() <= 2:
            # an abnormal protocol (restore() before __enter__) left a standard descriptor closed and the
            # reopened sink landed on it: drop it before the real descriptors are put back over it
            try:
                OSC._null_file.close()
            except OSError:
                pass
        for i in (0, 1, 2):
            os.dup2(self.keep[i], i)
            os.close(self.keep[i])
        null = None if OSC._null_file.closed else OSC._null_file.fileno()
        for fd in _open_fds():
            if fd not in self.base and fd != null and fd > 2:
                try:
                    os.close(fd)
                except OSError:
                    pass
        if sys.__stdin__.closed:
            sys.__stdin__ = open(0, "r", closefd=False)  # noqa: SIM115
            if self.h_in.closed:
                self.h_in = sys.__stdin__
        for nm, mode in (("__stdout__", 1), ("__stderr__", 2)):
            if getattr(sys, nm).closed:
                new = open(mode, "w", closefd=False)  # noqa: SIM115
                if self.h_out is getattr(sys, nm):
                    self.h_out = new
                if self.h_err is getattr(sys, nm):
                    self.h_err = new
                setattr(sys, nm, new)
        sys.stdin, sys.stdout, sys.stderr = self.h_in, self.h_out, self.h_err
        logging.disable(logging.NOTSET)
        return False


class C30(PropertyCheck):
    prop_id = "C30"
    level = "proof"
    prop_modules = ["PynguinModel.Props.C30"]
    extra_modules = ["PynguinModel.Model.ExecIsolation"]
    driver = "Driver/C30.lean"
    n_quick = 120
    n_thorough = 2500
    n_search = 1500
    rule = ("80 % histories of 2-7 test cases (1-5 statements each: print, raise, close/rebind "
            "sys.stdin/stdout/stderr, os.close of 0/1/2 or of a descriptor created during the execution, "
            "os.open, logging.disable, random.seed/random(), tracked Random instances, module global) "
            "run by the real TestCaseExecutor, often ending with a repetition of an earlier test case; "
            "20 % raw OutputSuppressionContext protocols (enter/restore/restore, _make_deterministic); "
            "non-trivial = the history changes process state (close/bind/closeFd/logDisable/seed) and has "
            "at least two executions, or a protocol with a second restore")
    assumptions = [
        "Pynguin runs with sys.stdout/sys.stderr bound to the interpreter's own objects and descriptors "
        "0/1/2 open (normal command-line start)",
        "one execution at a time; a thread that outlives its time-out and keeps running is C32",
        "the module under test does not reach for sys.__stdout__/sys.__stderr__ or randomness.RNG itself",
    ]
    trusted_base_extra = [
        "harness/c30.py: the action interpreter module (SUT_SRC), the snapshot function and the "
        "descriptor sandbox; Python's random.Random as reference for (seed, draws) -> state",
    ]

    # -- set-up ---------------------------------------------------------------------------------
    _ready = False

    def _setup(self):
        if self._ready:
            return
        import pynguin.configuration as config
        from pynguin.generator import _patch_random
        from pynguin.instrumentation.machinery import install_import_hook
        from pynguin.instrumentation.tracer import SubjectProperties
        from pynguin.testcase.execution import TestCaseExecutor
        from pynguin.testcase.execution_isolation import OutputSuppressionContext as OSC
        from pynguin.utils import randomness

        for i in (0, 1, 2):  # the harness itself may have been started without a standard descriptor
            try:
                os.fstat(i)
            except OSError:
                fd = os.open(os.devnull, os.O_RDWR)
                if fd != i:
                    os.dup2(fd, i)
                    os.close(fd)
        self.tmp = tempfile.mkdtemp(prefix="verif-c30-")
        name = f"sutc30_{os.getpid()}"
        with open(os.path.join(self.tmp, name + ".py"), "w") as f:
            f.write(textwrap.dedent(SUT_SRC))
        sys.path.insert(0, self.tmp)
        self._saved_cfg = (config.configuration.module_name, config.configuration.project_path,
                           config.configuration.seeding.seed, config.configuration.filesystem_isolation)
        config.configuration.module_name = name
        config.configuration.project_path = self.tmp
        config.configuration.filesystem_isolation = False
        config.configuration.seeding.seed = 42
        _patch_random()  # as generator._setup_and_check does, before the module is imported
        self.sp = SubjectProperties()
        with install_import_hook(name, self.sp):
            with self.sp.instrumentation_tracer:
                self.sut = importlib.import_module(name)
        # an uninstrumented copy for the raw-context cases (called from the harness thread)
        pname = f"plainc30_{os.getpid()}"
        with open(os.path.join(self.tmp, pname + ".py"), "w") as f:
            f.write(textwrap.dedent(SUT_SRC))
        self.plain = importlib.import_module(pname)
        for m in (self.sut, self.plain):
            m.NULL_FILENO = lambda: None if OSC._null_file.closed else OSC._null_file.fileno()
        self.mod = self.sut
        atexit.register(self._teardown)
        self.executor = TestCaseExecutor(self.sp, maximum_test_execution_timeout=120,
                                         test_execution_time_per_statement=60)
        randomness.RNG.seed(5)  # as _setup_random_number_generator does: RNG is a tracked instance
        self.config, self.OSC, self.randomness = config, OSC, randomness
        self._states: dict = {}
        self._stash: dict = {}
        self._ready = True
        self.cfg = self._probe_variant()
        self.extra_coverage["variant_probed_on_implementation"] = self.cfg

    def _teardown(self):
        if not self._ready:
            return
        (self.config.configuration.module_name, self.config.configuration.project_path,
         self.config.configuration.seeding.seed, self.config.configuration.filesystem_isolation) = self._saved_cfg
        sys.modules.pop(self.sut.__name__, None)
        sys.modules.pop(self.plain.__name__, None)
        if self.tmp in sys.path:
            sys.path.remove(self.tmp)
        shutil.rmtree(self.tmp, ignore_errors=True)
        self._ready = False

    def _probe_variant(self) -> dict:
        """Which repairs does the tree under test contain? (observed behaviour, three executions)"""
        self.cfg = {"restoreLogging": True, "restoreStdin": True, "reopenNull": True}
        io_ = self._run_exec({"kind": "exec", "cfgSeed": 42, "gseed": 1, "tests": [
            [{"logDisable": {"level": 30}}], [{"bind": {"s": "inp"}}], [{"close": {"s": "out"}}],
            [{"print": {"isErr": False}}]]})
        t = io_["tests"]
        return {"restoreLogging": t[0]["snap"]["log"] == 0, "restoreStdin": t[1]["snap"]["inp"] == "orig",
                "reopenNull": t[3]["res"] == ["ok"]}

    # -- generation -----------------------------------------------------------------------------
    def _action(self, rng):
        k = rng.random()
        if k < 0.20:
            return {"print": {"isErr": rng.random() < 0.4}}
        if k < 0.25:
            return "raise"
        if k < 0.37:
            return {"close": {"s": rng.choice(["out", "err", "out", "err", "out", "inp"])}}
        if k < 0.47:
            return {"bind": {"s": rng.choice(["inp", "out", "err"])}}
        if k < 0.59:
            return {"closeFd": {"fd": rng.randint(0, 2), "via": rng.randint(0, 1)}}
        if k < 0.64:
            return {"closeNew": {"j": rng.randint(0, 4)}}
        if k < 0.69:
            return "openNew"
        if k < 0.77:
            return {"logDisable": {"level": rng.choice([10, 20, 30, 40, 50, 0])}}
        if k < 0.82:
            return {"seed": {"x": rng.randint(0, 5)}}
        if k < 0.89:
            return "rand"
        if k < 0.93:
            return {"instRand": {"i": rng.randint(1, 2)}}
        if k < 0.95:
            return {"instSeed": {"i": rng.randint(1, 2), "x": rng.choice([None, 3, 8])}}
        if k < 0.975:
            return {"setGlobal": {"v": rng.randint(-3, 3)}}
        return "getGlobal"

    def gen_case(self, rng):
        if rng.random() < 0.8:
            tests = [[self._action(rng) for _ in range(rng.randint(1, 5))]
                     for _ in range(rng.randint(1, 6))]
            if rng.random() < 0.75:  # the same test case again, later in the history
                pool = [t for t in tests if _stateless(t)] or tests
                tests.append(list(rng.choice(pool)))
            if rng.random() < 0.3:  # a probe that only prints / draws, first and last
                probe = [{"print": {"isErr": rng.random() < 0.5}}, "rand", {"instRand": {"i": 1}}]
                tests = [probe] + tests + [list(probe)]
            self.count("kind:exec")
            return {"kind": "exec", "cfgSeed": rng.choice([0, 7, 42]), "gseed": rng.randint(0, 9),
                    "tests": tests}
        ops = []
        for _ in range(rng.randint(1, 2)):
            ops.append("new")
            shape = rng.random()
            if shape < 0.1:
                ops += ["restore", "enter"]          # restore() before __enter__ (time-out race)
            elif shape < 0.2:
                ops += ["enter"]                     # entered twice
            ops.append("enter")
            if rng.random() < 0.5:
                ops.append("deterministic")
            for _ in range(rng.randint(0, 5)):
                a = self._action(rng)
                if _name(a) == "close" and a["close"]["s"] == "inp":
                    a = {"bind": {"s": "inp"}}
                ops.append({"act": {"a": a}})
            ops += ["restore"] * rng.choice([1, 2, 2, 3])
        self.count("kind:ctx")
        return {"kind": "ctx", "cfgSeed": rng.choice([0, 7, 42]), "gseed": rng.randint(0, 9), "ops": ops}

    # -- implementation adapter -------------------------------------------------------------------
    def _state_hash(self, seed: int, draws: int) -> str:
        key = (seed, draws)
        if key not in self._states:
            r = random.Random(seed)
            for _ in range(draws):
                r.random()
            self._states[key] = (_h(r.getstate()), r.random().hex())
        return self._states[key][0]

    def _draw(self, seed: int, draws: int) -> str:
        self._state_hash(seed, draws)
        return self._states[(seed, draws)][1]

    def _obj(self, cur, orig) -> str:
        if cur is orig:
            return "orig"
        if cur is self.OSC._null_file:
            return "null"
        return "otherClosed" if getattr(cur, "closed", False) else "other"

    def _snap(self, sb: _Sandbox) -> dict:
        fds = []
        for i in (0, 1, 2):
            try:
                st = os.fstat(i)
                fds.append(sb.ino.get((st.st_dev, st.st_ino), "x"))
            except OSError:
                fds.append(None)
        nf = self.OSC._null_file
        return {"inp": self._obj(sys.stdin, sys.__stdin__), "out": self._obj(sys.stdout, sys.__stdout__),
                "err": self._obj(sys.stderr, sys.__stderr__), "inClosed": sys.__stdin__.closed,
                "outClosed": sys.__stdout__.closed, "errClosed": sys.__stderr__.closed,
                "nullClosed": nf.closed, "nullFd": None if nf.closed else nf.fileno(), "fds": fds,
                "nopen": len(_open_fds()), "log": logging.root.manager.disable,
                "grng": _h(random.getstate()),
                "tracked": [_h(self.randomness.RNG.getstate()), _h(self.mod.R0.getstate()),
                            _h(self.mod.R1.getstate())],
                "glob": self.mod.G}

    def _reset(self, case, sb):
        self.config.configuration.seeding.seed = case["cfgSeed"]
        random.seed(case["gseed"])
        self.randomness.RNG.seed(5)
        self.mod.R0.seed(11)
        self.mod.R1.seed(12)
        self.mod.G = 0
        return {"openFds": sorted(sb.start_open), "nullFd": self.OSC._null_file.fileno(),
                "cfgSeed": case["cfgSeed"], "globalRng": {"seed": case["gseed"], "draws": 0},
                "tracked": [{"isPynguin": True, "rng": {"seed": 5, "draws": 0}},
                            {"isPynguin": False, "rng": {"seed": 11, "draws": 0}},
                            {"isPynguin": False, "rng": {"seed": 12, "draws": 0}}]}

    @staticmethod
    def _call(a) -> str:
        if a == "raise":
            return "act_raise()"
        if a == "openNew":
            return "act_open_new()"
        if a == "rand":
            return "act_rand()"
        if a == "getGlobal":
            return "act_get_global()"
        (k, v), = a.items()
        return {"print": lambda: f"act_print({v['isErr']})", "close": lambda: f"act_close({v['s']!r})",
                "bind": lambda: f"act_bind({v['s']!r})",
                "closeFd": lambda: f"act_close_fd({v['fd']}, {v.get('via', 0)})",
                "closeNew": lambda: f"act_close_new({v['j']})",
                "logDisable": lambda: f"act_log_disable({v['level']})", "seed": lambda: f"act_seed({v['x']})",
                "instRand": lambda: f"act_inst_rand({v['i']})",
                "instSeed": lambda: f"act_inst_seed({v['i']}, {v['x']})",
                "setGlobal": lambda: f"act_set_global({v['v']})"}[k]()

    def _collect(self, n_stmts, exceptions):
        """Concrete actions and outcomes of one execution from the module's LOG."""
        acts, res = [], []
        for kind, v in self.mod.LOG:
            (acts if kind == "act" else res).append(v)
        for idx in sorted(exceptions):
            if idx == len(res):
                res.append({"exc": type(exceptions[idx]).__name__})
        acts += [{"closeFd": {"fd": 250}}] * (n_stmts - len(acts))  # never executed (after the raise)
        return acts, res

    def _run_exec(self, case):
        import libcst as cst
        import pynguin.testcase.testcase as tc
        out = []
        self.mod = self.sut
        with _Sandbox(self) as sb:
            init = self._reset(case, sb)
            before = self._snap(sb)
            for test in case["tests"]:
                t = tc.TestCase()
                for j, a in enumerate(test):
                    node = cst.parse_module(f"var_{j} = {self._call(a)}\n").body[0]
                    t.add_statement(tc.Statement(node=node, bound_variable=f"var_{j}", bound_type=None))
                del self.sut.LOG[:]
                self.sut.START_OPEN = set(_open_fds())
                r = self.executor.execute(t)
                if r.timeout:
                    raise RuntimeError("test execution timed out (loaded machine?)")
                acts, res = self._collect(len(test), r.exceptions)
                out.append({"res": res, "acts": acts, "snap": self._snap(sb)})
        return {"init": init, "before": before, "tests": out}

    def _run_ctx(self, case):
        from pynguin.testcase.execution_isolation import _make_deterministic
        out = []
        self.mod = self.plain
        with _Sandbox(self) as sb:
            init = self._reset(case, sb)
            before = self._snap(sb)
            ctx = self.OSC()
            self.plain.START_OPEN = set(sb.start_open)
            for op in case["ops"]:
                res, act = None, None
                if op == "new":
                    ctx = self.OSC()
                elif op == "enter":
                    ctx.__enter__()
                elif op == "restore":
                    ctx.restore()
                elif op == "deterministic":
                    _make_deterministic()
                else:
                    del self.plain.LOG[:]
                    exc = {}
                    try:
                        eval(self._call(op["act"]["a"]), vars(self.plain))  # noqa: S307
                    except Exception as e:  # noqa: BLE001
                        exc = {0: e}
                    acts, rs = self._collect(1, exc)
                    res, act = rs[0], acts[0]
                out.append({"res": res, "act": act, "snap": self._snap(sb),
                            "saved": [[k, v] for k, v in ctx._saved_fds.items()]})
        return {"init": init, "before": before, "ops": out}

    def impl(self, case):
        self._setup()
        io_ = self._run_exec(case) if case["kind"] == "exec" else self._run_ctx(case)
        self._stash.setdefault(vcommon.jdump(case), []).append(io_)  # FIFO: equal cases may repeat
        return io_

    # -- model side ----------------------------------------------------------------------------
    def model_line(self, case):
        q = self._stash.get(vcommon.jdump(case))
        if q:
            io_ = q.pop(0)
        else:
            io_ = self.impl(case)
            self._stash[vcommon.jdump(case)].pop()
        line = {"cfg": self.cfg, "init": io_["init"]}
        if case["kind"] == "exec":
            line["tests"] = [t["acts"] for t in io_["tests"]]
        else:
            line["ops"] = [op if isinstance(op, str) else {"act": {"a": o["act"]}}
                           for op, o in zip(case["ops"], io_["ops"])]
        return vcommon.jdump(line)

    def _snap_eq(self, si, sm) -> bool:
        if not isinstance(sm, dict):
            return False
        for k in ("inp", "out", "err", "inClosed", "outClosed", "errClosed", "nullClosed", "nullFd",
                  "fds", "nopen", "log", "glob"):
            if si[k] != sm.get(k):
                return False
        g = sm.get("grng")
        if si["grng"] != self._state_hash(g[0], g[1]):
            return False
        tr = sm.get("tracked")
        return len(tr) == 3 and all(si["tracked"][i] == self._state_hash(tr[i][1][0], tr[i][1][1])
                                    for i in range(3))

    def _res_eq(self, ri, rm) -> bool:
        if isinstance(rm, dict) and "rnd" in rm:
            return ri == {"rnd": self._draw(rm["rnd"][0], rm["rnd"][1])}
        return ri == rm

    def compare(self, case, io_, mo):
        key = "tests" if case["kind"] == "exec" else "ops"
        mi = mo.get(key) if isinstance(mo, dict) else None
        if not isinstance(mi, list) or len(mi) != len(io_[key]):
            return False
        for a, b in zip(io_[key], mi):
            if not self._snap_eq(a["snap"], b.get("snap")):
                return False
            if key == "tests":
                if len(a["res"]) != len(b["res"]) or not all(map(self._res_eq, a["res"], b["res"])):
                    return False
            else:
                if not self._res_eq(a["res"], b["res"]) or a["saved"] != b["saved"]:
                    return False
        return True

    # -- the property itself, on the implementation's behaviour --------------------------------------
    @staticmethod
    def _closed_private(entry) -> bool:
        """Did this execution close a descriptor it did not open itself (one of Pynguin's)?"""
        own = set()
        for act, res in zip(entry["acts"], entry["res"]):
            if isinstance(res, dict) and "fd" in res:
                own.add(res["fd"])
            if isinstance(act, dict) and "closeFd" in act and res == "ok":
                fd = act["closeFd"]["fd"]
                if fd > 2 and fd not in own:
                    return True
        return False

    def oracle(self, case, io_):
        fs = []
        if case["kind"] == "ctx":
            return self._oracle_ctx(case, io_)
        prev = io_["before"]
        tainted = False
        for i, (test, e) in enumerate(zip(case["tests"], io_["tests"])):
            s = e["snap"]
            executed = e["acts"][:len(e["res"])]
            for slot in ("inp", "out", "err"):
                if s[slot] != prev[slot]:
                    nm = {"inp": "stdin", "out": "stdout", "err": "stderr"}[slot]
                    fs.append(Failure({"class": f"sys-{nm}-binding-not-restored"},
                                      f"after execution #{i} sys.{nm} is bound to a different object "
                                      f"({s[slot]}) than before ({prev[slot]})",
                                      detail={"test": test, "after": s}))
            if s["inClosed"] != prev["inClosed"]:
                cause = ("sut-closed-sys-stdin" if {"close": {"s": "inp"}} in executed else "other")
                fs.append(Failure({"class": "orig-stdin-object-closed", "cause": cause},
                                  f"after execution #{i} the interpreter's sys.stdin object is closed "
                                  f"(sys.stdin is not redirected during executions)",
                                  detail={"test": test}))
            if s["outClosed"] != prev["outClosed"] or s["errClosed"] != prev["errClosed"]:
                fs.append(Failure({"class": "orig-stdout-stderr-object-closed"},
                                  f"after execution #{i} sys.__stdout__/__stderr__ is closed",
                                  detail={"test": test}))
            if s["fds"] != prev["fds"] and not tainted:
                # (once a standard descriptor has been left closed — known finding — the process is
                # outside the normal state the property talks about; consequences are not re-reported)
                priv = self._closed_private(e)
                tainted = tainted or priv
                fs.append(Failure({"class": "std-fd-not-restored",
                                   "cause": "test-closed-private-duplicate" if priv else "other"},
                                  f"after execution #{i} descriptors 0/1/2 refer to {s['fds']} "
                                  f"instead of {prev['fds']}", detail={"test": test, "acts": e["acts"]}))
            if s["log"] != prev["log"]:
                fs.append(Failure({"class": "logging-disable-not-restored"},
                                  f"after execution #{i} logging.root.manager.disable is {s['log']} "
                                  f"instead of {prev['log']}", detail={"test": test}))
            if s["tracked"][0] != prev["tracked"][0]:
                fs.append(Failure({"class": "pynguin-rng-changed"},
                                  f"execution #{i} changed the state of randomness.RNG",
                                  detail={"test": test}))
            prev = s
            # result must not depend on the executions before it
            if _stateless(test) and not tainted:
                for j in range(i):
                    if case["tests"][j] == test and io_["tests"][j]["res"] != e["res"]:
                        start = io_["tests"][i - 1]["snap"]
                        cause = ("shared-null-file-closed" if start["nullClosed"]
                                 and {"exc": "ValueError"} in e["res"] else "other")
                        fs.append(Failure({"class": "result-depends-on-history", "cause": cause},
                                          f"test case {vcommon.jdump(test)} gives {io_['tests'][j]['res']} as "
                                          f"execution #{j} but {e['res']} as execution #{i} of the same history",
                                          detail={"history": case["tests"][:i]}))
                        break
        return fs

    def _oracle_ctx(self, case, io_):
        """restore() is idempotent; a plain enter/…/restore round trip puts the streams back."""
        fs = []
        ops, outs = case["ops"], io_["ops"]
        for k in range(1, len(ops)):
            if ops[k] == "restore" and ops[k - 1] == "restore" and outs[k]["snap"] != outs[k - 1]["snap"]:
                fs.append(Failure({"class": "restore-not-idempotent"},
                                  "a second restore() changed the process state",
                                  detail={"before": outs[k - 1]["snap"], "after": outs[k]["snap"]}))
        # well-formed round trips: new, enter, [deterministic], acts…, restore
        k = 0
        prev = io_["before"]
        while k < len(ops):
            if ops[k] == "new" and k + 1 < len(ops) and ops[k + 1] == "enter":
                j = k + 2
                while j < len(ops) and ops[j] not in ("new", "enter", "restore"):
                    j += 1
                if j < len(ops) and ops[j] == "restore":
                    s = outs[j]["snap"]
                    private = any(isinstance(o["act"], dict) and "closeFd" in o["act"]
                                  and o["act"]["closeFd"]["fd"] > 2 and o["res"] == "ok"
                                  for o in outs[k + 2:j])
                    if (s["out"], s["err"]) != (prev["out"], prev["err"]):
                        fs.append(Failure({"class": "sys-stdout-binding-not-restored"},
                                          "after enter/…/restore sys.stdout/sys.stderr are not the original "
                                          "objects", detail={"after": s}))
                    if s["fds"] != prev["fds"] and not private:
                        fs.append(Failure({"class": "std-fd-not-restored", "cause": "other"},
                                          f"after enter/…/restore descriptors 0/1/2 refer to {s['fds']}",
                                          detail={"ops": ops[k:j + 1]}))
                    if s["tracked"][0] != prev["tracked"][0]:
                        fs.append(Failure({"class": "pynguin-rng-changed"},
                                          "_make_deterministic changed the state of randomness.RNG"))
                    if s["fds"] != prev["fds"]:
                        break
                    prev = s
                    k = j
                else:
                    break
            elif ops[k] == "new":
                break
            k += 1
        return fs

    def classify(self, case, io_):
        if case["kind"] == "ctx":
            ops = case["ops"]
            return vcommon.jdump(case) if any(ops[k] == ops[k - 1] == "restore"
                                              for k in range(1, len(ops))) else None
        names = {_name(a) for t in case["tests"] for a in t}
        if len(case["tests"]) >= 2 and names & {"close", "closeFd", "closeNew", "bind", "logDisable", "seed"}:
            for n in sorted(names):
                self.count(f"action:{n}")
            return vcommon.jdump(case)
        return None

    # -- known-finding witnesses ----------------------------------------------------------------------
    W_STDIN = {"kind": "exec", "cfgSeed": 42, "gseed": 1,
               "tests": [[{"close": {"s": "inp"}}], [{"print": {"isErr": False}}]]}
    W_PRIVATE = {"kind": "exec", "cfgSeed": 42, "gseed": 1,
                 "tests": [[{"closeFd": {"fd": 1, "via": 0}}, {"closeNew": {"j": 1}}],
                           [{"closeFd": {"fd": 1, "via": 0}}]]}

    def witnesses(self):
        fs = []
        for nm, w in (("stdin_object_cex", self.W_STDIN), ("fds_restored_cex", self.W_PRIVATE)):
            io_ = self.impl(w)
            self._stash[vcommon.jdump(w)].pop()
            got = self.oracle(w, io_)
            for f in got:
                f.case = w
                f.what = f"witness of {nm}: " + f.what
            self.extra_coverage[f"witness_{nm}_reproduces"] = bool(got)
            fs += got
        return fs


if __name__ == "__main__":
    run_main(C30)
