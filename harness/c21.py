"""C21 — kept assertions hold on the original module and preserve mutant kills (DESIGN §5 C21).

Correspondence (model `Driver/C21.lean` vs the real code, same inputs), four case kinds:

* ``select``   random kill maps → the real ``_select_minimal_assertions``
* ``score``    random ``_MutationMetrics`` → the real ``get_score``
* ``summary``  random per-test/per-mutant result grids of real ``ExecutionResult`` objects → the real
               ``MutationAnalysisAssertionGenerator.__compute_mutation_summary`` + ``_MutationSummary``
* ``pipeline`` the real ``_handle_add_assertions`` (column collection, ``_abort_after_first_timeout``,
               summary, report, ``__build_kill_map``, ``__minimize_assertions`` /
               ``__remove_non_relevant_assertions``) on real ``TestCase``/``Statement``/assertion
               objects; only the mutant *execution* is replaced by a stub executor/controller that
               replays generated per-mutant result columns.

* ``filter``   the real ``AssertionGenerator.__remove_non_holding_assertions`` on real
               ``TestCase``/``ObjectAssertion`` objects and real ``ExecutionResult`` traces: several
               assertions per statement, some reported failed and some errored (either order, both on
               one statement), several filtering rounds.

The oracle evaluates the property on the implementation's output without the model.  The history
part (`extra_checks`) runs the real `MutationAnalysisAssertionGenerator` end to end on tiny modules
with first- and higher-order mutant generators and re-executes every test on the unmutated module
and on every mutant; flaky modules (construction-counter dependent values, attributes that only the
first-built objects have) go through the real `AssertionGenerator` (capture + filtering executions) and
every kept assertion is re-executed on the unmutated module.
"""
from __future__ import annotations

import importlib
import os
import shutil
import sys
import tempfile
import textwrap
import types
from fractions import Fraction

import vcommon
from vcommon import Failure, PropertyCheck, run_main


def _frac(x):
    f = Fraction(x)
    return [f.numerator, f.denominator]


# ----------------------------------------------------------------------------------------------
# stubs that replace mutant execution only
# ----------------------------------------------------------------------------------------------
class _Prov:
    def __init__(self):
        self.cur = None

    def add_mutated_version(self, module_name, mutated_module):
        self.cur = mutated_module


class _Ctl:
    """Stands in for MutationController: yields one token module (or None) per stream entry."""

    def __init__(self, stream, extra_created):
        self.stream = stream
        self.extra = extra_created

    def mutant_count(self):
        return len(self.stream) + self.extra

    def create_mutants(self):
        for i, col in enumerate(self.stream):
            if col is None:
                yield None, []
            else:
                m = types.ModuleType(f"c21_mutant_{i}")
                m.idx = i
                yield m, []


# ----------------------------------------------------------------------------------------------
# tiny SUT modules for the history part
# ----------------------------------------------------------------------------------------------
SUTS = {
    "c21_arith": ("""
        LIMIT = 10


        def clamp(x: int) -> int:
            if x < 0:
                return 0
            if x > LIMIT:
                return LIMIT
            return x


        def area(w: int, h: int) -> int:
            return w * h + 1
        """, [
        [("int_0", "7", int), ("int_1", "M.clamp(int_0)", int), ("int_2", "M.area(int_0, int_1)", int)],
        [("int_0", "-3", int), ("int_1", "M.clamp(int_0)", int)],
        [("int_0", "25", int), ("int_1", "M.clamp(int_0)", int), ("int_2", "M.area(int_1, int_1)", int)],
    ]),
    "c21_acct": ("""
        class Account:
            rate = 2

            def __init__(self, start: int):
                self.balance = start
                self.count = 0

            def deposit(self, amount: int) -> int:
                if amount <= 0:
                    raise ValueError("amount")
                self.balance = self.balance + amount * Account.rate
                self.count += 1
                return self.balance


        def describe(n: int) -> str:
            if n % 2 == 0:
                return "even"
            return "odd" + str(n)
        """, [
        [("int_0", "5", int), ("account_0", "M.Account(int_0)", None), ("int_1", "account_0.deposit(int_0)", int),
         ("str_0", "M.describe(int_1)", str)],
        [("int_0", "0", int), ("account_0", "M.Account(int_0)", None), ("int_1", "account_0.deposit(int_0)", int)],
        [("int_0", "3", int), ("str_0", "M.describe(int_0)", str), ("int_1", "len(str_0)", int)],
    ]),
    "c21_seq": ("""
        def total(xs: list) -> int:
            acc = 0
            for x in xs:
                if x > 2:
                    acc += x
                else:
                    acc -= 1
            return acc


        def first_or(xs: list, default: int) -> int:
            if not xs:
                return default
            return xs[0]
        """, [
        [("list_0", "[1, 5, 3]", list), ("int_0", "M.total(list_0)", int), ("int_1", "M.first_or(list_0, int_0)", int)],
        [("list_0", "[]", list), ("int_0", "4", int), ("int_1", "M.first_or(list_0, int_0)", int),
         ("int_2", "M.total(list_0)", int)],
    ]),
    "c21_flt": ("""
        def ratio(a: float, b: float) -> float:
            if b == 0.0:
                return 0.0
            return a / b


        def sign(x: float) -> bool:
            return x >= 0.0 and x < 100.0
        """, [
        [("float_0", "3.0", float), ("float_1", "1.5", float), ("float_2", "M.ratio(float_0, float_1)", float),
         ("bool_0", "M.sign(float_2)", bool)],
        [("float_0", "3.0", float), ("float_1", "0.0", float), ("float_2", "M.ratio(float_0, float_1)", float)],
        [("float_0", "250.5", float), ("bool_0", "M.sign(float_0)", bool)],
    ]),
    "c21_loop": ("""
        def count_up(n: int) -> int:
            i = 0
            steps = 0
            while i < n:
                i += 1
                steps += 2
            return steps
        """, [
        [("int_0", "3", int), ("int_1", "M.count_up(int_0)", int)],
        [("int_0", "0", int), ("int_1", "M.count_up(int_0)", int)],
    ]),
}

# (strategy name, order) — None = the first-order generator
STRATEGIES = [("FIRST_ORDER_MUTANTS", 1), ("FIRST_TO_LAST", 2), ("EACH_CHOICE", 2),
              ("BETWEEN_OPERATORS", 2), ("RANDOM", 2), ("FIRST_TO_LAST", 3)]


class C21(PropertyCheck):
    prop_id = "C21"
    prop_modules = ["PynguinModel.Props.C21"]
    extra_modules = ["PynguinModel.Model.SetCover", "PynguinModel.Model.AssertFilter"]
    driver = "Driver/C21.lean"
    n_quick = 6000
    n_thorough = 120000
    n_search = 30000
    rule = ("select: random kill maps (≤12×15 mostly, up to 40×60; empty sets, duplicate sets, ties, chains, "
            "greedy-suboptimal families, shuffled key order); score: random int triples; summary/pipeline: "
            "random per-test × per-mutant grids of real ExecutionResult objects (timeouts, failed/error "
            "entries, test exceptions, skipped mutants, budget cut) through the real private methods; filter: "
            "tests with 1-4 statements × 0-6 assertions and 1-3 filtering traces (failed and errored positions "
            "on the same statement in either order, overlaps, empty sets, foreign statements; 4 % equal "
            "assertions, 3 % positions outside the list) through the real __remove_non_holding_assertions; "
            "non-trivial = select with ≥2 candidates, a grid with a kill or a timeout, or a filter trace that "
            "reports a position")
    assumptions = [
        "assertions of one statement are pairwise distinct objects/values (list.remove by value = by position)",
        "kill-map keys are unique (Python dict); mutants are non-negative ints",
        "history part: SUT modules of the mutation runs are deterministic and stateless across executions; the "
        "flaky modules differ between the capture execution and every later execution, never among later ones",
    ]
    trusted_base_extra = [
        "mutant execution itself (CPython, TestCaseExecutor threads) is exercised by the history runs, not modelled",
    ]

    # ------------------------------------------------------------------------------------------
    # generation
    # ------------------------------------------------------------------------------------------
    def gen_case(self, rng):
        x = rng.random()
        if x < 0.50:
            return self._gen_select(rng)
        if x < 0.57:
            return self._gen_score(rng)
        if x < 0.68:
            return self._gen_summary(rng)
        if x < 0.82:
            return self._gen_filter(rng)
        return self._gen_pipeline(rng)

    def _gen_filter(self, rng):
        """A test (assertion ids per statement) + the traces of 1-3 filtering executions.  Positions of a
        round refer to the assertion lists as the previous round left them (as a real execution would)."""
        n_st = rng.randint(1, 4)
        aid = 0
        test = []
        dup = rng.random() < 0.04  # equal assertions on one statement (outside the stated assumption)
        for _ in range(n_st):
            k = rng.randint(0, 6)
            st = list(range(aid, aid + k))
            aid += k
            if dup and k >= 2 and rng.random() < 0.6:
                st[rng.randrange(k)] = st[rng.randrange(k)]
            test.append(st)
        cur = [len(st) for st in test]
        oob = rng.random() < 0.03  # a position outside the list (never produced by an execution)
        rounds = []
        for _ in range(rng.choice([1, 1, 1, 2, 2, 3])):
            style = rng.choice(["both", "both", "both", "failed", "error", "overlap", "sparse"])
            failed, error = [], []
            order = list(range(n_st))
            rng.shuffle(order)
            for s in order:
                n = cur[s]
                if n == 0 or rng.random() < (0.6 if style == "sparse" else 0.2):
                    continue
                pos = list(range(n))
                rng.shuffle(pos)
                nf = rng.randint(0 if style != "both" else 1, max(1, n // 2))
                ne = rng.randint(0 if style != "both" else 1, max(1, n // 2))
                f, e = pos[:nf], pos[nf:nf + ne]
                if style == "failed":
                    e = []
                elif style == "error":
                    f = []
                elif style == "overlap" and f:
                    e = e + [rng.choice(f)]
                if oob and rng.random() < 0.5:
                    (f if rng.random() < 0.5 else e).append(n + rng.randint(0, 1))
                if f or rng.random() < 0.1:
                    failed.append([s, f])
                if e or rng.random() < 0.1:
                    error.append([s, e])
                cur[s] = max(0, n - len(set(f) | set(e)))
            if rng.random() < 0.1:  # an entry for a statement the test does not have
                (failed if rng.random() < 0.5 else error).append([n_st + rng.randint(0, 1), [0]])
            rounds.append({"failed": failed, "error": error})
        self.count("filter:" + ("dup" if dup else "oob" if oob else "plain"))
        return {"kind": "filter", "test": test, "rounds": rounds}

    def _gen_select(self, rng):
        big = rng.random() < 0.04
        n_a = rng.randint(0, 40 if big else 12)
        n_m = rng.randint(0, 60 if big else 15)
        smax, amax = (8, 8) if big else (4, 5)
        keys = set()
        while len(keys) < min(n_a, (smax + 1) * (amax + 1)):
            keys.add((rng.randint(0, smax), rng.randint(0, amax)))
        keys = sorted(keys)
        if rng.random() < 0.5:
            rng.shuffle(keys)
        style = rng.choice(["sparse", "dense", "dups", "ties", "chain", "suboptimal", "mixed", "mixed"])
        muts = list(range(n_m))
        sets = []
        for i, _ in enumerate(keys):
            if not muts or rng.random() < 0.15:
                sets.append([])
                continue
            if style == "sparse":
                s = rng.sample(muts, min(len(muts), rng.randint(0, 2)))
            elif style == "dense":
                s = [m for m in muts if rng.random() < 0.6]
            elif style == "dups" and sets and rng.random() < 0.6:
                s = list(rng.choice(sets))
            elif style == "ties":
                s = rng.sample(muts, min(len(muts), 2))
            elif style == "chain":
                s = muts[: rng.randint(0, len(muts))]
            elif style == "suboptimal" and len(muts) >= 6:
                # classic greedy trap: one big middle set, two halves that together cover it + extras
                k = len(muts) // 3
                fam = [muts[k // 2: 2 * k + k // 2], muts[: k + k // 2], muts[k + k // 2:]]
                s = list(fam[i % 3]) if rng.random() < 0.8 else rng.sample(muts, rng.randint(0, len(muts)))
            else:
                s = rng.sample(muts, rng.randint(0, len(muts)))
            rng.shuffle(s)
            sets.append(s)
        self.count("select:" + style)
        return {"kind": "select", "map": [[list(k), s] for k, s in zip(keys, sets)]}

    def _gen_score(self, rng):
        mode = rng.choice(["consistent", "consistent", "any", "big"])
        if mode == "consistent":
            c = rng.randint(0, 50)
            t = rng.randint(0, c)
            k = rng.randint(0, c - t)
        elif mode == "any":
            c, k, t = (rng.randint(-3, 20) for _ in range(3))
        else:
            c = rng.randint(0, 10 ** 18)
            t = rng.randint(0, c)
            k = rng.randint(0, c - t)
        self.count("score:" + mode)
        return {"kind": "score", "created": c, "killed": k, "timeout": t}

    def _gen_res(self, rng, n_stmts, n_asserts, p_timeout, p_none):
        """One ExecutionResult description (or None)."""
        if rng.random() < p_none:
            return None
        r = {"timeout": rng.random() < p_timeout, "failed": [], "error": [], "exc": rng.random() < 0.12}
        flavour = rng.random()
        if flavour < 0.45:
            return r
        for fld in ("failed", "error"):
            if rng.random() < (0.7 if fld == "failed" else 0.25):
                stmts = rng.sample(range(n_stmts + 1), rng.randint(1, min(2, n_stmts + 1)))  # may name a missing stmt
                for s in sorted(stmts) if rng.random() < 0.5 else stmts:
                    idxs = rng.sample(range(n_asserts + 1), rng.randint(0, min(3, n_asserts + 1)))
                    r[fld].append([s, idxs])  # possibly an empty OrderedSet: still `len(failed) > 0`
        return r

    def _gen_summary(self, rng):
        n = rng.randint(0, 8)
        n_tests = rng.randint(0, 5)
        p_t = rng.choice([0.0, 0.1, 0.3])
        rows = [[self._gen_res(rng, 2, 2, p_t, 0.15) for _ in range(n)] for _ in range(n_tests)]
        if rows and rng.random() < 0.05:  # zip(strict=True) → ValueError
            i = rng.randrange(len(rows))
            rows[i] = rows[i] + [None] if rng.random() < 0.5 or not rows[i] else rows[i][:-1]
            self.count("summary:ragged")
        self.count("summary")
        return {"kind": "summary", "n": n, "rows": rows}

    def _gen_pipeline(self, rng):
        n_tests = rng.randint(0, 3)
        tests = []
        aid = 0
        for _ in range(n_tests):
            stmts = []
            for _ in range(rng.randint(0, 4)):
                if rng.random() < 0.15:
                    asserts = [[aid, True]]  # exception-only statement
                    aid += 1
                else:
                    asserts = []
                    for _ in range(rng.randint(0, 4)):
                        asserts.append([aid, rng.random() < 0.04])  # rarely a mixed-in ExceptionAssertion
                        aid += 1
                stmts.append(asserts)
            tests.append(stmts)
        n_mut = rng.randint(0, 7)
        p_t = rng.choice([0.0, 0.08, 0.25])
        stream = []
        for _ in range(n_mut):
            if rng.random() < 0.15:
                stream.append(None)  # invalid module → skipped, unchecked
            else:
                stream.append([self._gen_res(rng, 4, 4, p_t, 0.0) for _ in range(n_tests)])
        case = {"kind": "pipeline", "minimize": rng.random() < 0.6, "lazy": rng.random() < 0.6,
                "budget0": rng.random() < 0.04, "extra_created": rng.randint(0, 3),
                "tests": tests, "stream": stream}
        if stream and n_tests and rng.random() < 0.03:  # malformed column (never produced by the executors)
            cols = [c for c in stream if c is not None]
            if cols:
                c = rng.choice(cols)
                if rng.random() < 0.5:
                    c.append(None)
                else:
                    c.pop()
                case["lazy"] = False
                self.count("pipeline:malformed")
        self.count("pipeline:min" if case["minimize"] else "pipeline:plain")
        return case

    # ------------------------------------------------------------------------------------------
    # implementation adapter
    # ------------------------------------------------------------------------------------------
    @staticmethod
    def _mkres(d):
        import pynguin.testcase.execution as ex
        if d is None:
            return None
        r = ex.ExecutionResult(timeout=d["timeout"])
        for s, xs in d["failed"]:
            r.assertion_verification_trace.failed[s].update(xs)
        for s, xs in d["error"]:
            r.assertion_verification_trace.error[s].update(xs)
        if d["exc"]:
            r.report_new_thrown_exception(0, ValueError("c21"))
        return r

    @staticmethod
    def _summary_out(summary):
        mt = summary.get_metrics()
        try:
            score = _frac(mt.get_score())
        except AssertionError:
            score = {"err": "AssertionError"}
        return {
            "killed": [i.mut_num for i in summary.get_killed()],
            "timeout": [i.mut_num for i in summary.get_timeout()],
            "survived": [i.mut_num for i in summary.get_survived()],
            "killed_by": [list(i.killed_by) for i in summary.mutant_information],
            "timed_out_by": [list(i.timed_out_by) for i in summary.mutant_information],
            "metrics": [mt.num_created_mutants, mt.num_killed_mutants, mt.num_timeout_mutants],
            "score": score,
        }

    def impl(self, case):
        import pynguin.assertion.assertiongenerator as ag
        kind = case["kind"]
        if kind == "select":
            km = {tuple(k): set(s) for k, s in case["map"]}
            keep = ag._select_minimal_assertions(km)
            if len(keep) < self._greedy_picks(km):  # statistics only: did the pruning pass matter?
                self.count("select:prune-active")
            if len(keep) >= 2:
                self.count("select:>=2-kept")
            return {"keep": sorted(list(k) for k in keep)}
        if kind == "score":
            try:
                return {"score": _frac(ag._MutationMetrics(case["created"], case["killed"], case["timeout"]).get_score())}
            except AssertionError:
                return {"score": {"err": "AssertionError"}}
        if kind == "summary":
            rows = [[self._mkres(d) for d in row] for row in case["rows"]]
            fn = ag.MutationAnalysisAssertionGenerator._MutationAnalysisAssertionGenerator__compute_mutation_summary
            try:
                return self._summary_out(fn(case["n"], rows))
            except ValueError:
                return {"err": "ValueError"}
        if kind == "filter":
            return self._impl_filter(case)
        return self._impl_pipeline(case)

    def _impl_filter(self, case):
        import libcst as cst
        import pynguin.assertion.assertion as ass
        import pynguin.assertion.assertiongenerator as ag
        import pynguin.testcase.execution as ex
        import pynguin.testcase.testcase as tc

        fn = ag.AssertionGenerator._AssertionGenerator__remove_non_holding_assertions
        t = tc.TestCase()
        ids = {}
        for i, st_ids in enumerate(case["test"]):
            node = cst.parse_module(f"v{i} = {i}\n").body[0]
            st = tc.Statement(node=node, bound_variable=f"v{i}", bound_type=int)
            for aid in st_ids:
                a = ass.ObjectAssertion(f"v{i}", aid)  # equal ids = equal assertions (list.remove is by value)
                ids[id(a)] = aid
                st.assertions.append(a)
            t.add_statement(st)
        keepalive = [a for s in t.statements() for a in s.assertions]
        out = []
        for rd in case["rounds"]:
            r = ex.ExecutionResult()
            for s, xs in rd["failed"]:
                r.assertion_verification_trace.failed[s].update(xs)
            for s, xs in rd["error"]:
                r.assertion_verification_trace.error[s].update(xs)
            if any(len(v) >= 1 for v in r.assertion_verification_trace.failed.values()) and any(
                    len(v) >= 1 for v in r.assertion_verification_trace.error.values()):
                self.count("filter:round-with-failed-and-error")
            try:
                fn(t, r)
            except (KeyError, ValueError):
                return {"err": "remove"}
            except IndexError:
                return {"err": "IndexError"}
            out.append([[ids[id(a)] for a in s.assertions] for s in t.statements()])
        del keepalive
        return {"rounds": out}

    @staticmethod
    def _greedy_picks(km):
        """Number of picks of a plain greedy set cover (max marginal cover, lowest key on ties); used for
        the input-distribution statistics only, never for a verdict."""
        cands = {k: v for k, v in km.items() if v}
        unc = set().union(*cands.values()) if cands else set()
        n = 0
        while unc:
            k = max(sorted(cands), key=lambda q: len(cands[q] & unc))
            unc -= cands.pop(k)
            n += 1
        return n

    def _impl_pipeline(self, case):
        import libcst as cst
        import pynguin.assertion.assertion as ass
        import pynguin.assertion.assertiongenerator as ag
        import pynguin.configuration as config
        import pynguin.testcase.execution as ex
        import pynguin.testcase.testcase as tc

        stream = [None if c is None else [self._mkres(d) for d in c] for c in case["stream"]]

        class StubExec:  # in-process flavour: a lazy generator, `_abort_after_first_timeout` applies
            def __init__(self):
                self.module_provider = _Prov()

            def execute_multiple(self, tests):
                yield from stream[self.module_provider.cur.idx]

        class StubSub(ex.SubprocessTestCaseExecutor):  # subprocess flavour: materialised list
            def __init__(self):  # noqa: super().__init__ deliberately not called (no subprocess wanted)
                self._c21_mp = _Prov()

            @property
            def module_provider(self):
                return self._c21_mp

            def execute_multiple(self, tests):
                return list(stream[self._c21_mp.cur.idx])

        tests = []
        ids = {}
        for stmts in case["tests"]:
            t = tc.TestCase()
            for i, asserts in enumerate(stmts):
                node = cst.parse_module(f"v{i} = {i}\n").body[0]
                st = tc.Statement(node=node, bound_variable=f"v{i}", bound_type=int)
                for aid, is_exc in asserts:
                    a = ass.ExceptionAssertion("builtins", f"E{aid}") if is_exc else ass.ObjectAssertion(f"v{i}", aid)
                    ids[id(a)] = aid
                    st.assertions.append(a)
                t.add_statement(st)
            tests.append(t)
        keepalive = [a for t in tests for s in t.statements() for a in s.assertions]  # ids stay unique

        gen = object.__new__(ag.MutationAnalysisAssertionGenerator)
        gen._mutation_controller = _Ctl(stream, case["extra_created"])
        gen._mutation_executor = StubExec() if case["lazy"] else StubSub()
        gen._testing = True
        gen._testing_mutation_summary = ag._MutationSummary()
        out_cfg = config.configuration.test_case_output
        saved = (out_cfg.assertion_minimization, out_cfg.maximum_mutation_time)
        out_cfg.assertion_minimization = case["minimize"]
        out_cfg.maximum_mutation_time = 0 if case["budget0"] else -1
        try:
            gen._handle_add_assertions(tests)
        except (IndexError, ValueError):
            return {"err": "shape"}
        finally:
            out_cfg.assertion_minimization, out_cfg.maximum_mutation_time = saved
        out = self._summary_out(gen._testing_mutation_summary)
        out["tests"] = [[[ids[id(a)] for a in s.assertions] for s in t.statements()] for t in tests]
        del keepalive
        return out

    # ------------------------------------------------------------------------------------------
    # model side
    # ------------------------------------------------------------------------------------------
    @staticmethod
    def _obs(d):
        if d is None:
            return None
        return {"timeout": d["timeout"], "violated": bool(d["failed"] or d["error"] or d["exc"])}

    @staticmethod
    def _res(d):
        if d is None:
            return None
        return {"timeout": d["timeout"], "exc": d["exc"],
                "trace": {"failed": C21._dict(d["failed"]), "error": C21._dict(d["error"])}}

    @staticmethod
    def _dict(pairs):
        """The dict the adapter builds with `d[s].update(xs)`: keys in first-insertion order, sets merged."""
        out = {}
        for s, xs in pairs:
            cur = out.setdefault(s, [])
            for x in xs:
                if x not in cur:
                    cur.append(x)
        return [[s, xs] for s, xs in out.items()]

    def model_line(self, case):
        kind = case["kind"]
        if kind == "select":
            return vcommon.jdump({"select": {"map": case["map"]}})
        if kind == "score":
            return vcommon.jdump({"score": {k: case[k] for k in ("created", "killed", "timeout")}})
        if kind == "summary":
            return vcommon.jdump({"summary": {"n": case["n"], "rows": [[self._obs(d) for d in row]
                                                                       for row in case["rows"]]}})
        if kind == "filter":
            return vcommon.jdump({"filter": {"test": case["test"],
                                             "rounds": [{"failed": self._dict(rd["failed"]),
                                                         "error": self._dict(rd["error"])} for rd in case["rounds"]]}})
        stream = [] if case["budget0"] else case["stream"]
        cols = []
        for c in stream:
            if c is None:
                cols.append(None)
                continue
            cols.append([self._res(d) for d in c])
        tests = [[[{"id": a, "isExc": e} for a, e in st] for st in t] for t in case["tests"]]
        return vcommon.jdump({"pipeline": {"lazy": case["lazy"], "minimize": case["minimize"], "tests": tests,
                                           "stream": cols}})

    def compare(self, case, io, mo):
        if case["kind"] == "score":
            ms = mo.get("score")
            isc = io["score"]
            if isinstance(ms, dict) or isinstance(isc, dict):
                return ms == isc
            # the implementation returns the float `killed / divisor`; the model the exact pair
            return Fraction(ms[0] / ms[1]) == Fraction(isc[0], isc[1])
        if "err" in io or "err" in mo:
            return io == mo
        io2, mo2 = dict(io), dict(mo)
        si, sm = io2.pop("score", None), mo2.pop("score", None)
        if si is not None or sm is not None:
            if isinstance(si, dict) or isinstance(sm, dict) or si is None or sm is None:
                if si != sm:
                    return False
            elif Fraction(sm[0] / sm[1]) != Fraction(si[0], si[1]):
                return False
        return io2 == mo2

    # ------------------------------------------------------------------------------------------
    # the property itself, on the implementation's output
    # ------------------------------------------------------------------------------------------
    def oracle(self, case, io):
        """Only what C21 states: kept ⊆ original, kept kills what the full set killed, score ∈ [0,1] and
        computed without timed-out and unchecked mutants.  (Irredundancy, "no empty kill set", the tie
        rule, untouched exception-only statements are theorems about the model and are tied to the code
        by the correspondence; a change there is reported through the disagreement, not from here.)"""
        kind = case["kind"]
        fs = []
        if kind == "select":
            km = {tuple(k): set(s) for k, s in case["map"]}
            keep = [tuple(k) for k in io["keep"]]
            universe = set().union(*km.values()) if km else set()
            if any(k not in km for k in keep):
                fs.append(Failure({"kind": "select", "class": "not-a-subset"}, "selected key is not in the kill map"))
                return fs
            covered = set().union(*(km[k] for k in keep)) if keep else set()
            if covered != universe:
                fs.append(Failure({"kind": "select", "class": "kill-lost"},
                                  f"kept assertions kill {sorted(covered)}, the full set kills {sorted(universe)}"))
            if not any(km[k] <= set().union(*(km[o] for o in keep if o != k)) for k in keep if len(keep) > 1):
                self.count("select:result-irredundant")
            return fs
        if kind == "score":
            c, k, t = case["created"], case["killed"], case["timeout"]
            sc = io["score"]
            if 0 <= t <= c and 0 <= k <= c - t:  # metrics a summary can produce
                if isinstance(sc, dict) or not (0 <= Fraction(*sc) <= 1):
                    fs.append(Failure({"kind": "score", "class": "out-of-unit"}, f"score {sc} for consistent metrics"))
                else:
                    exp = Fraction(1) if c - t == 0 else Fraction(k, c - t)
                    if Fraction(*sc) != Fraction(float(exp)):
                        fs.append(Failure({"kind": "score", "class": "score-counts-timeout-or-unchecked"},
                                          f"score {sc} but killed/(created-timeout) = {exp}"))
            return fs
        if "err" in io:
            return fs
        if kind == "filter":
            return self._oracle_filter(case, io)
        if kind == "summary":
            cols = [[row[j] for row in case["rows"]] for j in range(case["n"])]
            fs += self._oracle_score(cols, io, "summary")
            return fs
        # pipeline
        stream = [] if case["budget0"] else case["stream"]
        cols = [c for c in stream if c is not None]
        fs += self._oracle_score(cols, io, "pipeline")
        timed = set(io["timeout"]) | self._timed_out_columns(cols)
        for ti, (stmts, kept) in enumerate(zip(case["tests"], io["tests"])):
            for si, (st, kst) in enumerate(zip(stmts, kept)):
                ids = [a for a, _ in st]
                if len(set(kst)) != len(kst) or not set(kst) <= set(ids):
                    fs.append(Failure({"kind": "pipeline", "class": "not-a-subset"},
                                      f"test {ti} stmt {si}: kept {kst} is not a subset of {ids}"))
            for j, col in enumerate(cols):
                if j in timed:
                    continue
                d = col[ti]
                if d is None:
                    continue
                viol = {(s, a) for fld in ("failed", "error") for s, xs in d[fld] for a in xs}
                full = [(si, ai) for si, st in enumerate(stmts) for ai in range(len(st)) if (si, ai) in viol]
                keptpos = [(si, ai) for si, st in enumerate(stmts) for ai, (a, _) in enumerate(st)
                           if a in kept[si]]
                if full and not any(p in viol for p in keptpos):
                    fs.append(Failure({"kind": "pipeline", "class": "kill-lost",
                                       "minimize": case["minimize"]},
                                      f"test {ti}: mutant column {j} violated {full} of the full set, none of the kept "
                                      f"assertions {keptpos}"))
        return fs

    @staticmethod
    def _oracle_filter(case, io):
        """After a filtering execution no assertion the execution reported as failed or errored is left on
        the test (a kept assertion has to hold), and nothing is left that was not there before.  Judged
        round by round from the implementation's own lists; only for traces an execution can produce
        (positions inside the lists) and pairwise distinct assertions (the stated assumption)."""
        fs = []
        before = case["test"]
        for ri, (rd, after) in enumerate(zip(case["rounds"], io["rounds"])):
            if any(len(set(st)) != len(st) for st in before):
                break
            rep = {}
            for fld in ("failed", "error"):
                for s, xs in rd[fld]:
                    if s < len(before):
                        for x in xs:
                            rep.setdefault(s, {}).setdefault(x, fld)
            if any(x >= len(before[s]) for s, xs in rep.items() for x in xs):
                break
            for s, st in enumerate(before):
                kept = after[s]
                if len(set(kept)) != len(kept) or not set(kept) <= set(st):
                    fs.append(Failure({"kind": "filter", "class": "not-a-subset"},
                                      f"round {ri} stmt {s}: kept {kept} is not a subset of {st}"))
                    continue
                bad = [(p, st[p], fld) for p, fld in sorted(rep.get(s, {}).items()) if st[p] in kept]
                if bad:
                    both = len(set(rep[s].values())) == 2
                    fs.append(Failure({"kind": "filter", "class": "kept-assertion-does-not-hold",
                                       "stmt-has-failed-and-error": both},
                                      f"round {ri} stmt {s}: assertions {st}, execution reported "
                                      f"{sorted(rep[s].items())}; still on the test afterwards (position, id, "
                                      f"how): {bad}; kept {kept}"))
            before = after
        return fs

    @staticmethod
    def _timed_out_columns(cols):
        """A mutant is timed out when some test execution on it timed out."""
        return {j for j, col in enumerate(cols) if any(d is not None and d["timeout"] for d in col)}

    def _oracle_score(self, cols, io, kind):
        """score ∈ [0,1]; timed-out mutants are neither in the numerator nor in the denominator; mutants
        without a column (skipped, cut by the budget) are not in the denominator.  "Killed" is the
        implementation's own notion (its summary), "timed out" is read off the results."""
        fs = []
        timed = self._timed_out_columns(cols)
        killed = set(io["killed"]) - timed
        sc = io["score"]
        div = len(cols) - len(timed)
        exp = Fraction(1) if div == 0 else Fraction(len(killed), div)
        if isinstance(sc, dict) or not (0 <= Fraction(*sc) <= 1):
            fs.append(Failure({"kind": kind, "class": "out-of-unit"}, f"score {sc}"))
        elif Fraction(*sc) != Fraction(float(exp)):
            fs.append(Failure({"kind": kind, "class": "score-counts-timeout-or-unchecked"},
                              f"score {sc} but killed/(checked-timeout) = {exp}"))
        return fs

    def classify(self, case, io):
        kind = case["kind"]
        if kind == "select":
            return vcommon.jdump(case["map"]) if sum(1 for _, s in case["map"] if s) >= 2 else None
        if kind == "score":
            return None
        if "err" in io:
            return None
        if kind == "filter":
            return vcommon.jdump(case) if any(xs for rd in case["rounds"] for fld in ("failed", "error")
                                              for _, xs in rd[fld]) else None
        if io["killed"] or io["timeout"]:
            return vcommon.jdump(case)
        return None

    # ------------------------------------------------------------------------------------------
    # history part: real generator runs
    # ------------------------------------------------------------------------------------------
    def extra_checks(self):
        runs = self._history_plan()
        import logging
        tmp = tempfile.mkdtemp(prefix="c21-")
        sys.path.insert(0, tmp)
        fs = []
        plog = logging.getLogger("pynguin")
        saved_level = plog.level
        plog.setLevel(logging.CRITICAL)  # expected "timeout" warnings of looping mutants are not findings
        try:
            for name, (src, _) in SUTS.items():
                with open(os.path.join(tmp, name + ".py"), "w") as f:
                    f.write(textwrap.dedent(src).lstrip())
            for (name, strategy, order, minimize) in runs:
                fs += self._history_run(name, strategy, order, minimize)
            for k in range(3 if self.tier == "quick" else 12):
                fs += self._flaky_run(tmp, k)
        finally:
            plog.setLevel(saved_level)
            sys.path.remove(tmp)
            for name in list(SUTS) + [f"c21_flaky_{k}" for k in range(12)]:
                sys.modules.pop(name, None)
            shutil.rmtree(tmp, ignore_errors=True)
        return fs

    def _history_plan(self):
        if self.tier == "quick":
            return [("c21_arith", "FIRST_ORDER_MUTANTS", 1, True),
                    ("c21_acct", "FIRST_TO_LAST", 2, True),
                    ("c21_seq", "EACH_CHOICE", 2, False),
                    ("c21_flt", "FIRST_ORDER_MUTANTS", 1, False)]
        plan = [(n, s, o, m) for n in SUTS if n != "c21_loop" for (s, o) in STRATEGIES for m in (True, False)]
        # one run with mutants that never terminate (each costs the executor's timeout)
        return plan + [("c21_loop", "FIRST_ORDER_MUTANTS", 1, True)]

    def _history_run(self, name, strategy, order, minimize):
        """One real MutationAnalysisAssertionGenerator run + independent re-execution."""
        import inspect

        import libcst as cst
        import pynguin.assertion.assertiongenerator as ag
        import pynguin.assertion.assertiontraceobserver as ato
        import pynguin.configuration as config
        import pynguin.ga.testcasechromosome as tcc
        import pynguin.ga.testsuitechromosome as tsc
        import pynguin.generator as gen_mod
        import pynguin.testcase.testcase as tc
        from pynguin.assertion.mutation_analysis.controller import MutationController
        from pynguin.assertion.mutation_analysis.transformer import ParentNodeTransformer
        from pynguin.instrumentation.machinery import install_import_hook
        from pynguin.instrumentation.tracer import SubjectProperties
        from pynguin.testcase.execution import TestCaseExecutor
        from pynguin.utils import randomness
        from pynguin.utils.naming import get_module_alias

        fs = []
        tag = f"{name}/{strategy}/{order}/{'min' if minimize else 'plain'}"
        self.count("history:" + ("first-order" if strategy == "FIRST_ORDER_MUTANTS" else "higher-order"))
        out_cfg = config.configuration.test_case_output
        saved = (config.configuration.module_name, out_cfg.assertion_minimization, out_cfg.mutation_strategy,
                 out_cfg.mutation_order, config.configuration.seeding.seed)
        config.configuration.module_name = name
        out_cfg.assertion_minimization = minimize
        out_cfg.mutation_strategy = config.MutationStrategy[strategy]
        out_cfg.mutation_order = order
        config.configuration.seeding.seed = 1000 + self.seed
        randomness.RNG.seed(1000 + self.seed)
        alias = get_module_alias(name)
        sp = SubjectProperties()
        try:
            with install_import_hook(name, sp):
                with sp.instrumentation_tracer:
                    sys.modules.pop(name, None)
                    module = importlib.import_module(name)

                def build():
                    tests = []
                    for spec in SUTS[name][1]:
                        t = tc.TestCase()
                        for var, rhs, typ in spec:
                            node = cst.parse_module(f"{var} = {rhs.replace('M.', alias + '.')}\n").body[0]
                            t.add_statement(tc.Statement(node=node, bound_variable=var, bound_type=typ))
                        tests.append(t)
                    return tests

                tests = build()
                suite = tsc.TestSuiteChromosome()
                for t in tests:
                    suite.add_test_case_chromosome(tcc.TestCaseChromosome(t))
                mutant_generator = gen_mod._setup_mutant_generator()  # the pipeline's own factory
                module_ast = ParentNodeTransformer.create_ast(inspect.getsource(module))
                controller = MutationController(mutant_generator, module_ast, module)
                seen_mutants = []  # the mutant modules this very run executed (RANDOM strategies differ per call)
                orig_create = controller.create_mutants

                def recording_create():
                    for mutated, mutations in orig_create():
                        seen_mutants.append(mutated)
                        yield mutated, mutations

                controller.create_mutants = recording_create
                plain = TestCaseExecutor(sp)
                g = ag.MutationAnalysisAssertionGenerator(plain, controller, testing=True)
                full = {}
                orig_handle = g._handle_add_assertions

                def snapshot(test_cases):
                    full["tests"] = [[list(s.assertions) for s in t.statements()] for t in test_cases]
                    return orig_handle(test_cases)

                g._handle_add_assertions = snapshot
                suite.accept(g)
                summary = g._testing_mutation_summary
                n_full = sum(len(a) for t in full["tests"] for a in t)
                n_kept = sum(len(s.assertions) for t in tests for s in t.statements())
                self.count("history:assertions-full", n_full)
                self.count("history:assertions-kept", n_kept)
                self.count("history:mutants-checked", len(summary.mutant_information))
                self.count("history:mutants-killed", len(summary.get_killed()))
                self.count("history:mutants-timeout", len(summary.get_timeout()))

                # (a) every kept assertion holds on the unmutated module
                # (the instrumented original module reports to `sp`'s tracer, so the plain executor is used)
                with plain.temporarily_add_remote_observer(ato.RemoteAssertionVerificationObserver()):
                    reruns = list(plain.execute_multiple(tests))
                    for ti, t in enumerate(tests):  # a wall-clock timeout on the original module is not a verdict
                        for _ in range(2):
                            if reruns[ti].timeout:
                                reruns[ti] = plain.execute(t)
                        if reruns[ti].timeout:
                            raise RuntimeError(f"{tag}: test {ti} times out on the unmutated module (machine load?)")
                for ti, (t, res) in enumerate(zip(tests, reruns)):
                    tr = res.assertion_verification_trace
                    bad = {k: list(v) for k, v in list(tr.failed.items()) + list(tr.error.items()) if len(v)}
                    if bad:
                        fs.append(Failure({"kind": "history", "class": "kept-assertion-fails-on-original"},
                                          f"{tag}: test {ti} re-executed on the unmutated module: violated {bad}",
                                          case={"run": tag, "test": ti}))
                # kept ⊆ full (by identity)
                for ti, t in enumerate(tests):
                    for si, s in enumerate(t.statements()):
                        orig = [id(a) for a in full["tests"][ti][si]]
                        mine = [id(a) for a in s.assertions]
                        if len(set(mine)) != len(mine) or not set(mine) <= set(orig):
                            fs.append(Failure({"kind": "history", "class": "not-a-subset"},
                                              f"{tag}: test {ti} stmt {si} kept assertions are not a subset of the "
                                              f"generated ones", case={"run": tag, "test": ti}))

                # (b) the kept subset kills (by assertion violation) what the full set killed, mutant by mutant
                fulltests = build()
                for ti, t in enumerate(fulltests):
                    for si, s in enumerate(t.statements()):
                        s.assertions.extend(full["tests"][ti][si])
                timed = {i.mut_num for i in summary.get_timeout()}
                mexec = TestCaseExecutor(sp.sharing_registries())
                mexec.add_remote_observer(ato.RemoteAssertionVerificationObserver())
                col = -1
                for mutated in list(seen_mutants):
                    if mutated is None:
                        continue
                    col += 1
                    if col in timed or col >= len(summary.mutant_information):
                        continue
                    mexec.module_provider.add_mutated_version(module_name=name, mutated_module=mutated)
                    rf = list(mexec.execute_multiple(fulltests))
                    rk = list(mexec.execute_multiple(tests))
                    for ti in range(len(tests)):
                        if rf[ti].timeout or rk[ti].timeout:
                            continue
                        vf = self._violations(rf[ti], fulltests[ti], False)
                        vk = self._violations(rk[ti], tests[ti], False)
                        if vf and not vk:
                            fs.append(Failure({"kind": "history", "class": "kill-lost", "minimize": minimize},
                                              f"{tag}: mutant column {col}, test {ti}: full assertion set violated {vf}, "
                                              f"kept set not violated", case={"run": tag, "test": ti, "mutant": col}))
                self.count("history:runs")
        finally:
            (config.configuration.module_name, out_cfg.assertion_minimization, out_cfg.mutation_strategy,
             out_cfg.mutation_order, config.configuration.seeding.seed) = saved
            sys.modules.pop(name, None)
        return fs

    # ------------------------------------------------------------------------------------------
    # history part: flaky modules through the real AssertionGenerator (capture + filtering executions)
    # ------------------------------------------------------------------------------------------
    def _flaky_source(self, k):
        """A module whose objects differ between the capture execution (the first `n_first` constructions)
        and every later execution: `fail` attributes have another value later (the assertion fails
        cleanly), `error` attributes do not exist later (evaluating the assertion raises AttributeError),
        `stable` attributes never change.  Returns (source, attribute kinds, tests)."""
        import random
        rng = random.Random(7919 * (self.seed + 1) + k)
        if k == 0:
            kinds = ["stable", "fail", "stable", "error", "stable"]        # errored behind failed
        elif k == 1:
            kinds = ["error", "stable", "fail", "fail", "stable", "error"]  # errored before failed, then behind
        else:
            kinds = [rng.choice(["stable", "fail", "error"]) for _ in range(rng.randint(3, 7))]
            kinds += ["fail", "error"]
            rng.shuffle(kinds)
        two = k % 2 == 1  # two constructions per capture run
        n_first = 2 if two else 1
        body = []
        for i, kind in enumerate(kinds):
            if kind == "stable":
                body.append(f"self.a{i} = " + rng.choice(["gain", "'mV'", "True", "gain + 7", str(i)]))
            elif kind == "fail":
                body.append(f"self.a{i} = " + rng.choice(["_created", "_created * 3", "'s' + str(_created)",
                                                         "_created + gain"]))
            else:
                body.append(f"if _created <= {n_first}:\n            self.a{i} = " + rng.choice(["True", "gain", "'w'"]))
        src = ("_created = 0\n\n\nclass Probe:\n    def __init__(self, gain: int):\n        global _created\n"
               "        _created += 1\n        " + "\n        ".join(body) + "\n\n"
               "    def read(self, raw: int) -> int:\n        return raw * 2 + _created * 0\n\n\n"
               "def stamp(x: int) -> int:\n    return x + _created\n")
        t0 = [("int_0", "4", int), ("probe_0", "M.Probe(int_0)", None), ("int_1", "5", int),
              ("int_2", "probe_0.read(int_1)", int)]
        if two:
            t0 += [("probe_1", "M.Probe(int_1)", None), ("int_3", "M.stamp(int_1)", int)]
        return src, kinds, [t0]

    def _flaky_run(self, tmp, k):
        import libcst as cst
        import pynguin.assertion.assertiongenerator as ag
        import pynguin.assertion.assertiontraceobserver as ato
        import pynguin.configuration as config
        import pynguin.ga.testcasechromosome as tcc
        import pynguin.ga.testsuitechromosome as tsc
        import pynguin.testcase.testcase as tc
        from pynguin.instrumentation.machinery import install_import_hook
        from pynguin.instrumentation.tracer import SubjectProperties
        from pynguin.testcase.execution import TestCaseExecutor
        from pynguin.utils import randomness
        from pynguin.utils.naming import get_module_alias

        name = f"c21_flaky_{k}"
        src, kinds, specs = self._flaky_source(k)
        with open(os.path.join(tmp, name + ".py"), "w") as f:
            f.write(src)
        executions = 1 + k % 2
        tag = f"{name}/AssertionGenerator/filtering_executions={executions}/attrs={','.join(kinds)}"
        fs = []
        saved = (config.configuration.module_name, config.configuration.seeding.seed)
        config.configuration.module_name = name
        randomness.RNG.seed(2000 + self.seed + k)
        alias = get_module_alias(name)
        sp = SubjectProperties()
        try:
            with install_import_hook(name, sp):
                with sp.instrumentation_tracer:
                    sys.modules.pop(name, None)
                    importlib.import_module(name)
                tests = []
                for spec in specs:
                    t = tc.TestCase()
                    for var, rhs, typ in spec:
                        node = cst.parse_module(f"{var} = {rhs.replace('M.', alias + '.')}\n").body[0]
                        t.add_statement(tc.Statement(node=node, bound_variable=var, bound_type=typ))
                    tests.append(t)
                suite = tsc.TestSuiteChromosome()
                for t in tests:
                    suite.add_test_case_chromosome(tcc.TestCaseChromosome(t))
                plain = TestCaseExecutor(sp)
                full = {}
                g = ag.AssertionGenerator(plain, executions)
                orig_for = g._add_assertions_for

                def recording_for(test_case, result):
                    orig_for(test_case, result)
                    full[id(test_case)] = [len(s.assertions) for s in test_case.statements()]

                g._add_assertions_for = recording_for
                raised = None
                try:
                    suite.accept(g)
                except (IndexError, KeyError, ValueError) as e:  # the test keeps whatever was on it
                    raised = e
                n_full = sum(sum(v) for v in full.values())
                n_kept = sum(len(s.assertions) for t in tests for s in t.statements())
                self.count("history:flaky-runs")
                self.count("history:flaky-assertions-captured", n_full)
                self.count("history:flaky-assertions-filtered-out", n_full - n_kept)
                check = TestCaseExecutor(sp)
                check.add_remote_observer(ato.RemoteAssertionVerificationObserver())
                for rerun in range(2):
                    for ti, t in enumerate(tests):
                        res = check.execute(t)
                        for _ in range(2):
                            if res.timeout:
                                res = check.execute(t)
                        if res.timeout:
                            raise RuntimeError(f"{tag}: test {ti} times out on the unmutated module (machine load?)")
                        tr = res.assertion_verification_trace
                        bad = {fld: {s: list(v) for s, v in d.items() if len(v)}
                               for fld, d in (("failed", tr.failed), ("error", tr.error))}
                        if bad["failed"] or bad["error"]:
                            fs.append(Failure({"kind": "history", "class": "kept-assertion-fails-on-original",
                                               "flaky-module": True},
                                              f"{tag}: test {ti} re-executed (run {rerun}) on the unmutated module: "
                                              f"violated {bad}; kept per statement "
                                              f"{[len(s.assertions) for s in t.statements()]} of "
                                              f"{full.get(id(t))} captured"
                                              + (f"; filtering raised {type(raised).__name__}" if raised else ""),
                                              case={"run": tag, "test": ti, "module": src}))
                            break
                    if fs:
                        break
                if raised is not None and not fs:
                    raise raised
        finally:
            config.configuration.module_name, config.configuration.seeding.seed = saved
            sys.modules.pop(name, None)
        return fs

    @staticmethod
    def _violations(res, test, skip_exception_only):
        tr = res.assertion_verification_trace
        out = []
        for si, st in enumerate(test.statements()):
            if skip_exception_only and st.has_only_exception_assertion():
                continue
            for ai in range(len(st.assertions)):
                if tr.was_violated(si, ai):
                    out.append((si, ai))
        return out


if __name__ == "__main__":
    run_main(C21)
