"""C29 — filesystem isolation never modifies or deletes pre-existing paths (DESIGN §5 C29).

Correspondence: random operation sequences (open/write/append through builtins.open, io.open, Path.open,
os.open, Path.write_text, Path.touch; os.mkdir, os.makedirs, Path.mkdir; os.rename/replace,
Path.rename/replace; shutil.copyfile/copy/copy2/move; os.remove/unlink, Path.unlink, os.rmdir, Path.rmdir,
shutil.rmtree) are executed by the REAL `FilesystemIsolation` context manager inside a fresh `mkdtemp`
sandbox tree that contains pre-existing files and directories.  Per operation outcome (ok / refused by the
isolation / failed), the `_created` set before exit, the tree before exit and the tree after exit are
compared with the Lean model (`Driver/C29.lean`).

Names and spellings: file names are drawn per case from families in which one name is a proper STRING prefix
of another or differs only in case (`a/ab/abc`, `out/output/out.txt`, `report/report.bak`, `dir/dir2`, `data/Data`)
for pre-existing and created paths alike, and arguments are spelled the way real code spells them (`d/`, `d//x`,
`d/./x`, `d/sub/../x`, relative to the working directory); the model normalises the spelling itself (`normSegs`)
and decides whether the operating system resolves it like its normal form.  `_is_isolated` is probed directly on
sibling names before exit and compared with the model's string walk (`isIsolatedStr`).

Working directory: a case is one PROCESS.  Its operations run inside a `FilesystemIsolation`; `{"reenter": {}}`
exits it and enters a new one in the same process (pynguin runs one isolation per executed test case),
`{"chdir": …}` is `os.chdir` by the code under test (not patched, not undone by the isolation).  Arguments spelled
relative (`rel`/`relq`, bare `f` or `./f`, `../x`) are resolved against the working directory of THE CALL by the
operating system — and by the model (`Model/FsCwd.lean`: `resolve`); `_abspath` is probed on every spelled
argument and compared with that resolution.  The module's `lru_cache`s are emptied per case only (a case = a fresh
process), never between the isolations of a case; the process's working directory is restored after each case.

Oracle (independent of the model): for EVERY isolation of the case the tree after its exit equals the tree before
its entry, path by path and content by content — exactly the property.

Safety: every path handed to the implementation lies inside the sandbox; before `__exit__` runs, any
recorded path outside the sandbox is withdrawn (and reported), so the real cleanup can only touch the
sandbox tree (and the isolation's own TemporaryDirectory).
"""
from __future__ import annotations

import builtins
import io
import logging
import os
import shutil
import tempfile
from pathlib import Path

import vcommon
from vcommon import Failure, PropertyCheck, jdump, run_main

# unpatched originals, captured before any isolation is entered
_OPEN = io.open
_RMTREE = shutil.rmtree
_MKDIR = os.mkdir

MODES = {"r": "r", "w": "w", "a": "a", "x": "x", "rp": "r+", "wp": "w+", "ap": "a+",
         "rb": "rb", "wb": "wb", "ab": "ab"}
FLAGS = {
    "rdonly": os.O_RDONLY,
    "rdonlyDir": os.O_RDONLY | os.O_DIRECTORY,
    "wronly": os.O_WRONLY,
    "rdwr": os.O_RDWR,
    "creat": os.O_WRONLY | os.O_CREAT,
    "creatTrunc": os.O_WRONLY | os.O_CREAT | os.O_TRUNC,
    "creatExcl": os.O_WRONLY | os.O_CREAT | os.O_EXCL,
    "append": os.O_WRONLY | os.O_APPEND,
    "rdonlyCreat": os.O_RDONLY | os.O_CREAT,
    "wrTrunc": os.O_WRONLY | os.O_TRUNC,
}
FLAG_WRITES = {"wronly", "rdwr", "creat", "creatTrunc", "creatExcl", "append", "wrTrunc"}

#: the `patches` table of `_initialize_patches` that the model encodes (after the proposed repair)
EXPECTED_PATCHES = {
    "os.mkdir": {"record_arg_idx": 0},
    "os.makedirs": {"record_arg_idx": 0},
    "os.rename": {"forget_arg_idx": 0, "record_dst_idx": 1, "replaces_dst": True},
    "os.replace": {"forget_arg_idx": 0, "record_dst_idx": 1, "replaces_dst": True},
    "shutil.copyfile": {"record_dst_idx": 1},
    "shutil.copy": {"record_dst_idx": 1},
    "shutil.copy2": {"record_dst_idx": 1},
    "shutil.copytree": {"record_dst_idx": 1},
    "shutil.move": {"forget_arg_idx": 0, "record_dst_idx": 1},
    "Path.mkdir": {"record_arg_idx": 0},
    "Path.touch": {"record_arg_idx": 0},
    "Path.write_text": {"record_arg_idx": 0},
    "Path.write_bytes": {"record_arg_idx": 0},
    "os.remove": {"forget_arg_idx": 0},
    "os.unlink": {"forget_arg_idx": 0},
    "os.rmdir": {"forget_arg_idx": 0},
    "shutil.rmtree": {"forget_arg_idx": 0},
    "Path.unlink": {"forget_arg_idx": 0},
    "Path.rmdir": {"forget_arg_idx": 0},
}


class BadSpelling(RuntimeError):
    """an ill-formed case (adapter error, never a verdict): a spelling that does not denote its argument"""


#: name families: inside a family one name is a proper string prefix of another, or differs only in case
FAMILIES = [
    ["a", "ab", "abc"],
    ["out", "output", "out.txt"],
    ["report", "report.bak", "report.bak.1"],
    ["dir", "dir2", "dir.d"],
    ["d0", "d0x", "D0"],
    ["f0", "f0~", "F0"],
    ["n0", "n01", "N0"],
    ["data", "Data", "DATA"],
    ["x", "x y", "x.y"],
    ["tmp", "tmp1", "tmpfile"],
]


def spelled(root: str, comps: list, segs, rel: bool, bare: bool = False) -> str:
    """The path string handed to the code under test: `segs` (default: `comps`) below the sandbox root, or —
    `rel` — relative to the current working directory (`./a/b`, or `a/b` when `bare`)."""
    segs = comps if segs is None else segs
    tail = "".join("/" + s for s in segs)
    if not rel:
        return root + tail
    # a leading empty segment must never yield an absolute path: such a spelling always starts with "./"
    if bare and segs and segs[0] != "":
        return tail[1:]
    return "." + tail


def rel_segs(cwd: list, p: list):
    """segments spelling `p` relative to the directory `cwd` (at most two `..`), or None"""
    n = 0
    while n < len(cwd) and n < len(p) and cwd[n] == p[n]:
        n += 1
    ups = len(cwd) - n
    if ups > 2:
        return None
    return [".."] * ups + list(p[n:])


def below(root: str, path: str):
    """components of `path` below `root`, or None when it is not at or below root"""
    if path == root:
        return []
    if path.startswith(root + os.sep):
        return path[len(root) + 1:].split(os.sep)
    return None


def spelling_kinds(segs, rel) -> list:
    out = []
    if segs is not None:
        if ".." in segs:
            out.append("dotdot")
        if "." in segs:
            out.append("dot")
        if "" in segs[:-1]:
            out.append("dslash")
        if segs and segs[-1] == "":
            out.append("trailing")
    if rel:
        out.append("rel")
    return out


def text(data) -> str:
    return "".join(chr(97 + (n % 26)) for n in data)


def untext(s: str):
    if all("a" <= c <= "z" for c in s):
        return [ord(c) - 97 for c in s]
    return {"raw": s}


def op_kind(op: dict) -> str:
    (k, v), = op.items()
    for f in ("api", "mode", "flags"):
        if f in v:
            k += ":" + str(v[f])
    return k


def op_paths(op: dict) -> list:
    (_, v), = op.items()
    return [v[f] for f in ("p", "q") if f in v]


def snapshot(root: str) -> list:
    """Sorted [[components, node]…] of the tree below (and including) root; unpatched primitives only."""
    if not os.path.isdir(root):      # a broken isolation may let the code under test remove the root itself
        return []
    out = [[[], "dir"]]

    def walk(d: str, comps: list) -> None:
        with os.scandir(d) as it:
            entries = sorted(it, key=lambda e: e.name)
        for e in entries:
            c = comps + [e.name]
            if e.is_symlink():
                out.append([c, {"other": "symlink"}])
            elif e.is_dir(follow_symlinks=False):
                out.append([c, "dir"])
                walk(e.path, c)
            elif e.is_file(follow_symlinks=False):
                with _OPEN(e.path, "r", encoding="ascii", errors="replace") as f:
                    out.append([c, {"file": {"content": untext(f.read())}}])
            else:
                out.append([c, {"other": "special"}])

    walk(root, [])
    out.sort(key=lambda e: e[0])
    return out


class C29(PropertyCheck):
    prop_id = "C29"
    prop_modules = ["PynguinModel.Props.C29"]
    extra_modules = ["PynguinModel.Model.FsIsolation", "PynguinModel.Model.FsPathStr", "PynguinModel.Model.FsCwd"]
    driver = "Driver/C29.lean"
    n_quick = 1500
    n_thorough = 30000
    n_search = 6000
    rule = ("a case is a pre-existing tree + one process: a sequence of 3–14 operations with spelled arguments, in 45 % "
            "of the cases with os.chdir calls, cwd-relative names and 1–4 consecutive isolations; non-trivial = "
            "distinct sequence of (operation kind, outcome, did it denote a pre-existing path, kinds of spelling) with "
            "at least one successful operation")
    assumptions = [
        "paths are absolute, normalised and inside the sandbox; no symlinks, hard links, permissions, special files",
        "path components are real file names (non-empty, no separator, not '.'/'..'); arguments may be spelled with "
        "'.', '..', doubled and trailing separators or relative to the working directory as long as the operating "
        "system resolves the spelling like os.path.normpath (otherwise the case is judged by the oracle only)",
        "single-threaded code under test; a case is one process (lru_caches of fs_isolation emptied at its start) "
        "that starts in the sandbox root, may chdir inside the sandbox and runs its isolations one after the other; "
        "an operation that moves/deletes the working directory itself, a relative spelling in a deleted working "
        "directory or one that leaves the sandbox (never executed) make the case 'unmodelled' (oracle only)",
        "os.open descriptors are used for one write and closed; dir_fd-relative calls of the code under test, "
        "Path.unlink(missing_ok=True), rmtree(ignore_errors=True), copytree (also as the cross-device fallback of "
        "shutil.move) are outside the model",
    ]
    trusted_base_extra = [
        "CPython 3.12 library call structure (os.makedirs→os.mkdir, Path.*→os.*/io.open, shutil.copy*→copyfile→open, "
        "shutil.move→os.rename, shutil.rmtree→os.rmdir) and Linux rename/open semantics as modelled in "
        "Model/FsIsolation.lean (validated by the correspondence on every run)",
    ]

    # ---- generation ---------------------------------------------------------------------------
    def gen_case(self, rng):
        if rng.random() < 0.3:
            dnames, fnames, nnames = ["d0", "d1", "d2"], ["f0", "f1", "f2"], ["n0", "n1", "n2"]
            self.count("names:disjoint-pools")
        else:
            # one or two families of prefix-/case-related names, shared by pre-existing and created paths
            pool = [n for fam in rng.sample(FAMILIES, rng.choice([1, 1, 2])) for n in fam]
            if rng.random() < 0.3:
                pool.append(rng.choice(["d1", "f1", "n1"]))
            dnames = fnames = nnames = pool
            self.count("names:prefix-related-families")
        allnames = sorted(set(dnames) | set(fnames) | set(nnames))
        init = [[[], "dir"]]
        dirs, files = [[]], []

        def content():
            return [rng.randrange(26) for _ in range(rng.randrange(0, 5))]

        for _ in range(rng.randrange(1, 7)):
            parent = rng.choice(dirs)
            if len(parent) >= 3:
                continue
            if rng.random() < 0.45:
                p = parent + [rng.choice(dnames)]
                if p not in dirs and p not in files:
                    dirs.append(p)
                    init.append([p, "dir"])
            else:
                p = parent + [rng.choice(fnames)]
                if p not in dirs and p not in files:
                    files.append(p)
                    init.append([p, {"file": {"content": content()}}])
        # "process" cases: the code under test changes the working directory, names files relative to it, and
        # several isolations run one after the other; the same few names exist / are created in several directories
        proc = rng.random() < 0.45
        hot = []
        if proc:
            self.count("process:chdir-and-consecutive-isolations")
            while len(dirs) < 3:
                p = [rng.choice(dnames)]
                if p not in dirs and p not in files:
                    dirs.append(p)
                    init.append([p, "dir"])
                elif rng.random() < 0.2:
                    break
            hot = rng.sample(sorted(set(fnames) | set(nnames)), rng.choice([1, 2]))
            for d in list(dirs):
                for h in hot:
                    p = d + [h]
                    if rng.random() < 0.35 and p not in dirs and p not in files and len(p) <= 3:
                        if rng.random() < 0.8:
                            files.append(p)
                            init.append([p, {"file": {"content": content()}}])
                        else:
                            dirs.append(p)
                            init.append([p, "dir"])
        else:
            self.count("process:single-isolation-fixed-cwd")
        cwd = [[]]            # the generator's guess of the working directory (components below root)
        # a rough guess of what exists and what the isolation regards as created, to steer the choice of
        # arguments (the guess need not be right: every outcome is compared with the model anyway)
        made_files, made_dirs = [], []

        def live_dirs():
            return dirs + made_dirs

        def live_files():
            return files + made_files

        def new_path():
            r = rng.random()
            if r < 0.80:                                 # new name in a known directory
                return list(rng.choice(live_dirs())) + [rng.choice(nnames + fnames + dnames)]
            if r < 0.92:                                 # missing parent
                return list(rng.choice(live_dirs())) + [rng.choice(nnames), rng.choice(nnames)]
            if live_files():                             # below a file
                return list(rng.choice(live_files())) + [rng.choice(nnames)]
            return [rng.choice(nnames)]

        def target():
            """a path to write to / create: often pre-existing, often one made earlier, often new"""
            if proc and rng.random() < 0.5 and len(cwd[0]) < 3:     # one of the hot names in the working directory
                return list(cwd[0]) + [rng.choice(hot)]
            r = rng.random()
            if r < 0.30:
                return list(rng.choice(dirs + files))
            if r < 0.50 and (made_files or made_dirs):
                return list(rng.choice(made_files + made_dirs))
            return new_path()

        def source(want: str):
            """a path to move / delete / copy from: mostly one made earlier (others are refused)"""
            r = rng.random()
            cands = {"file": made_files, "dir": made_dirs, "any": made_files + made_dirs}[want]
            if r < 0.70 and cands:
                return list(rng.choice(cands))
            if r < 0.90:
                pre = {"file": files, "dir": dirs, "any": dirs + files}[want]
                if pre:
                    return list(rng.choice(pre))
            return target()

        def data():
            return [rng.randrange(26) for _ in range(rng.randrange(0, 4))]

        def note_made(p, is_dir):
            if p in dirs or p in files or p in made_files or p in made_dirs:
                return
            if p[:-1] in live_dirs():
                (made_dirs if is_dir else made_files).append(p)

        def note_gone(p):
            for l in (made_files, made_dirs):
                for q in [q for q in l if q[:len(p)] == p]:
                    l.remove(q)

        def respell(p):
            """another spelling of the normal form p (segments below root), or None for the plain one"""
            r = rng.random()
            if r < 0.72:
                return None
            if r < 0.80:                                  # "." or an empty segment (doubled separator)
                i = rng.randrange(len(p)) if p else 0
                return p[:i] + [rng.choice([".", ""])] + p[i:] if p else None
            if r < 0.93 and p:                            # a detour through a directory: x/sub/../y, x/../x/y
                i = rng.randrange(len(p))
                via = dirs + made_dirs if rng.random() < 0.2 else dirs     # mostly through pre-existing directories
                subs = [d[-1] for d in via if len(d) == i + 1 and d[:i] == p[:i]]
                if rng.random() < 0.25 and i >= 1 and (p[:i] in via or rng.random() < 0.05):
                    return p[:i] + ["..", p[i - 1]] + p[i:]
                if subs:
                    return p[:i] + [rng.choice(subs), ".."] + p[i:]
                return None
            if p in dirs or (p in made_dirs and rng.random() < 0.5) or rng.random() < 0.02:  # trailing separator
                return p + [""]
            return None

        def rel_spell(p):
            """a spelling of p relative to the (guessed) working directory, or None"""
            segs = rel_segs(cwd[0], p)
            if not segs or segs[-1] == "..":              # the working directory or an ancestor: no name to spell
                return None
            if rng.random() < 0.15 and len(segs) > 1:      # "." or an empty segment inside
                i = rng.randrange(1, len(segs))
                segs = segs[:i] + [rng.choice([".", ""])] + segs[i:]
            return segs

        def spell_op(op):
            (_, v), = op.items()
            e = {}
            if proc:
                # every argument on its own: relative to the working directory (mostly bare: `f`, `sub/f`, `../f`)
                # or absolute; the same relative string is thereby used under several working directories
                for f, sf, rf in (("p", "sp", "rel"), ("q", "sq", "relq")):
                    if f not in v:
                        continue
                    segs = rel_spell(v[f]) if rng.random() < 0.6 else None
                    if segs is not None:
                        e[sf], e[rf] = segs, True
                    else:
                        sp = respell(v[f])
                        if sp is not None:
                            e[sf] = sp
                        if f == "q" and e.get("rel"):
                            e["relq"] = False
                if (e.get("rel") or e.get("relq")) and rng.random() < 0.7:
                    e["bare"] = True
                return e
            sp = respell(v["p"])
            if sp is not None:
                e["sp"] = sp
            if "q" in v:
                sq = respell(v["q"])
                if sq is not None:
                    e["sq"] = sq
            if rng.random() < 0.15:
                e["rel"] = True
            return e

        def gen_chdir():
            r = rng.random()
            others = [d for d in dirs if d != cwd[0]]
            if r < 0.65 and others:
                p = list(rng.choice(others))
            elif r < 0.90 and made_dirs:
                p = list(rng.choice(made_dirs))
            elif r < 0.95:
                p = list(rng.choice(dirs))
            else:
                p = target()                               # a file, a missing path: the call fails
            e = {}
            segs = rel_segs(cwd[0], p)
            if segs is not None and rng.random() < 0.45:
                e = {"sp": segs, "rel": True}
                if rng.random() < 0.6:
                    e["bare"] = True
            if p in dirs or p in made_dirs:
                cwd[0] = p
            return {"chdir": {"p": p}}, e

        ops, spell = [], []
        for _ in range(rng.randrange(5, 15) if proc else rng.randrange(3, 13)):
            if proc:
                r = rng.random()
                if r < 0.15:
                    op, e = gen_chdir()
                    ops.append(op)
                    spell.append(e)
                    continue
                if r < 0.21 and ops:
                    # the next isolation of the process; mostly the working directory is a pre-existing directory
                    # by then (a created one is removed by the exit: `os.getcwd()` raises from then on)
                    if cwd[0] not in dirs and rng.random() < 0.85:
                        cwd[0] = list(rng.choice(dirs))
                        ops.append({"chdir": {"p": cwd[0]}})
                        spell.append({})
                    ops.append({"reenter": {}})
                    spell.append({})
                    made_files.clear()
                    made_dirs.clear()
                    continue
            k = rng.random()
            if k < 0.17:
                p = target()
                mode = rng.choice(list(MODES))
                op = {"fopen": {"api": rng.choice(["builtin", "io", "path"]), "p": p, "mode": mode, "data": data()}}
                if mode[0] in "wax":
                    note_made(p, False)
            elif k < 0.25:
                p = target()
                fl = rng.choice(list(FLAGS))
                op = {"osopen": {"p": p, "flags": fl, "data": data()}}
                if "reat" in fl:
                    note_made(p, False)
            elif k < 0.30:
                p = target()
                op = {"writeText": {"p": p, "data": data()}}
                note_made(p, False)
            elif k < 0.35:
                p = target()
                op = {"touch": {"p": p, "existOk": rng.random() < 0.7}}
                note_made(p, False)
            elif k < 0.42:
                p = target()
                op = {"mkdir": {"p": p}}
                note_made(p, True)
            elif k < 0.50:
                p = target()
                op = {"makedirs": {"p": p, "existOk": rng.random() < 0.6}}
                for i in range(1, len(p) + 1):
                    note_made(p[:i], True)
            elif k < 0.56:
                p = target()
                ps = rng.random() < 0.5
                op = {"pmkdir": {"p": p, "parents": ps, "existOk": rng.random() < 0.6}}
                for i in range(1 if ps else len(p), len(p) + 1):
                    note_made(p[:i], True)
            elif k < 0.68:
                p = source("any")
                q = p if rng.random() < 0.06 else target()
                op = {"rename": {"api": rng.choice(["osRename", "osReplace", "pathRename", "pathReplace"]),
                                 "p": p, "q": q}}
                if p in made_files + made_dirs and p != q:
                    isd = p in made_dirs
                    note_gone(p)
                    note_made(q, isd)
            elif k < 0.77:
                p = source("file") if rng.random() < 0.5 else list(rng.choice(files + made_files + [[rng.choice(nnames)]]))
                q = target()
                op = {"copy": {"api": rng.choice(["copyfile", "copy", "copy2"]), "p": p, "q": q}}
                if q in live_dirs() and op["copy"]["api"] != "copyfile":
                    note_made(q + p[-1:], False)
                else:
                    note_made(q, False)
            elif k < 0.84:
                p = source("any")
                q = p if rng.random() < 0.06 else target()
                op = {"move": {"p": p, "q": q}}
                if p in made_files + made_dirs and p != q:
                    isd = p in made_dirs
                    note_gone(p)
                    note_made(q + p[-1:] if q in live_dirs() else q, isd)
            elif k < 0.90:
                p = source("file")
                op = {"remove": {"api": rng.choice(["osRemove", "osUnlink", "pathUnlink"]), "p": p}}
                if p in made_files:
                    note_gone(p)
            elif k < 0.95:
                p = source("dir")
                op = {"rmdir": {"api": rng.choice(["os", "path"]), "p": p}}
            else:
                p = source("dir")
                op = {"rmtree": {"p": p}}
                if p in made_dirs:
                    note_gone(p)
            ops.append(op)
            spell.append(spell_op(op))
        # probes for `_is_isolated`: every named path and its siblings by name
        probes = {tuple(p) for p, _ in init}
        for op in ops:
            for p in op_paths(op):
                probes.add(tuple(p))
                for n in allnames:
                    probes.add(tuple(p[:-1] + [n]))
        probes = sorted(probes)
        if len(probes) > 40:
            probes = sorted(rng.sample(probes, 40))
        return {"init": init, "ops": ops, "spell": spell, "probes": [list(p) for p in probes]}

    # ---- the real implementation --------------------------------------------------------------
    @staticmethod
    def _prepare(op: dict, root: str, sp: dict | None):
        """The strings handed to the code under test for the path arguments of `op`, and the paths (components
        below root) they denote in the current working directory; None when a string does not denote a path
        inside the sandbox right now (then the operation is NOT executed)."""
        (_, v), = op.items()
        sp = sp or {}
        rel = bool(sp.get("rel"))
        relq = bool(sp.get("relq", rel))
        bare = bool(sp.get("bare"))
        try:
            cwd = os.getcwd()
        except OSError:                     # the working directory was deleted (by an exit cleanup)
            cwd = None
        if cwd is not None and below(root, cwd) is None:
            raise BadSpelling(f"the working directory {cwd!r} left the sandbox")
        strings, args = {}, []
        for f, sf, r in (("p", "sp", rel), ("q", "sq", relq)):
            if f not in v:
                continue
            s_ = spelled(root, v[f], sp.get(sf), r, bare)
            if r:
                if cwd is None:
                    return None
                den = os.path.normpath(os.path.join(cwd, s_))
            else:
                den = os.path.normpath(s_)
                want = os.path.join(root, *v[f]) if v[f] else root
                if den != want:             # well-formedness of the case: an absolute spelling denotes its argument
                    raise BadSpelling(f"spelling {s_!r} does not denote {want!r}")
            comps = below(root, den)
            if comps is None:               # safety: never leave the sandbox
                return None
            strings[f] = s_
            args.append(comps)
        return strings, args

    @staticmethod
    def _do(op: dict, strings: dict) -> None:
        (k, v), = op.items()

        def P(f):
            return strings[f]

        if k == "fopen":
            mode, d = MODES[v["mode"]], text(v["data"])
            path = P("p")
            if v["api"] == "builtin":
                f = builtins.open(path, mode)  # noqa: SIM115
            elif v["api"] == "io":
                f = io.open(path, mode=mode)  # noqa: SIM115
            else:
                f = Path(path).open(mode)  # noqa: SIM115
            try:
                if any(ch in mode for ch in "wax+"):
                    f.write(d.encode() if "b" in mode else d)
                else:
                    f.read()
            finally:
                f.close()
        elif k == "osopen":
            fd = os.open(P("p"), FLAGS[v["flags"]], 0o644)
            try:
                if v["flags"] in FLAG_WRITES:
                    os.write(fd, text(v["data"]).encode())
            finally:
                os.close(fd)
        elif k == "writeText":
            Path(P("p")).write_text(text(v["data"]))
        elif k == "touch":
            Path(P("p")).touch(exist_ok=v["existOk"])
        elif k == "mkdir":
            os.mkdir(P("p"))
        elif k == "makedirs":
            os.makedirs(P("p"), exist_ok=v["existOk"])
        elif k == "pmkdir":
            Path(P("p")).mkdir(parents=v["parents"], exist_ok=v["existOk"])
        elif k == "rename":
            a, p, q = v["api"], P("p"), P("q")
            if a == "osRename":
                os.rename(p, q)
            elif a == "osReplace":
                os.replace(Path(p), q)
            elif a == "pathRename":
                Path(p).rename(q)
            else:
                Path(p).replace(Path(q))
        elif k == "copy":
            getattr(shutil, v["api"])(P("p"), P("q"))
        elif k == "move":
            shutil.move(P("p"), P("q"))
        elif k == "remove":
            a, p = v["api"], P("p")
            if a == "osRemove":
                os.remove(p)
            elif a == "osUnlink":
                os.unlink(Path(p))
            else:
                Path(p).unlink()
        elif k == "rmdir":
            if v["api"] == "os":
                os.rmdir(P("p"))
            else:
                Path(P("p")).rmdir()
        elif k == "rmtree":
            shutil.rmtree(P("p"))
        elif k == "chdir":
            os.chdir(P("p"))
        else:
            raise ValueError(f"unknown op {k}")

    def impl(self, case):
        if "scenario" in case:             # replay of the private-tmp-dir scenario (see extra_checks)
            return {"scenario": True}
        import pynguin.configuration as config
        from pynguin.utils.fs_isolation import FilesystemIsolation

        logging.getLogger("pynguin.utils.fs_isolation").setLevel(logging.CRITICAL)  # cleanup warnings → stderr
        # A case is one PROCESS (several isolations, `chdir`s): it starts with empty memos (`lru_cache`s of the
        # module, e.g. `_normalize_path_cached`) like a fresh process; they are NOT emptied between its isolations.
        import pynguin.utils.fs_isolation as fsi
        for obj in list(vars(fsi).values()):
            if callable(obj) and hasattr(obj, "cache_clear") and getattr(obj, "__module__", None) == fsi.__name__:
                obj.cache_clear()
        sandbox = os.path.realpath(tempfile.mkdtemp(prefix="verif-c29-"))
        root = os.path.join(sandbox, "root")
        old_flag = config.configuration.filesystem_isolation
        old_cwd = os.getcwd()
        out: dict = {}
        res, args, abss, cwds, rounds, escaped = [], [], [], [], [], []

        def withdraw(iso):
            # safety net: the real cleanup may only ever touch the sandbox tree
            for c in list(iso._created):
                if below(root, c) is None:
                    iso._created.discard(c)
                    escaped.append(c)

        def close_round(iso):
            withdraw(iso)
            rd = {"created": sorted(below(root, c) for c in iso._created), "pre": snapshot(root)}
            probe = getattr(iso, "_is_isolated", None)
            rd["iso"] = ("absent" if probe is None else
                         [bool(probe(os.path.join(root, *p) if p else root)) for p in case.get("probes", [])])
            iso.__exit__(None, None, None)
            rd["post"] = snapshot(root)
            return rd

        def cwd_now():
            try:
                c = os.getcwd()
            except OSError:
                return None
            b = below(root, c)
            return {"raw": c} if b is None else b

        try:
            _MKDIR(root)
            for comps, node in case["init"]:
                if not comps:
                    continue
                path = os.path.join(root, *comps)
                if node == "dir":
                    _MKDIR(path)
                else:
                    with _OPEN(path, "w", encoding="ascii") as f:
                        f.write(text(node["file"]["content"]))
            out["before"] = snapshot(root)
            config.configuration.filesystem_isolation = True
            os.chdir(root)
            iso = None
            try:
                iso = FilesystemIsolation()
                iso.__enter__()
                spell = case.get("spell") or [None] * len(case["ops"])
                for op, sp in zip(case["ops"], spell):
                    k = next(iter(op))
                    if k == "reenter":
                        cur, iso = iso, None
                        rounds.append(close_round(cur))
                        iso = FilesystemIsolation()
                        iso.__enter__()
                        res.append("ok")
                        args.append([])
                        abss.append(None)
                        cwds.append(cwd_now())
                        continue
                    prep = self._prepare(op, root, sp)
                    if prep is None:
                        res.append("outside")
                        args.append(None)
                        abss.append(None)
                        cwds.append(cwd_now())
                        continue
                    strings, den = prep
                    try:
                        self._do(op, strings)
                        res.append("ok")
                    except PermissionError as e:
                        res.append("refused" if str(e).startswith("Attempted to") else "failed")
                    except Exception:  # noqa: BLE001
                        res.append("failed")
                    args.append(den)
                    # `_abspath` of every string just used, in the working directory it was used in
                    ab = getattr(iso, "_abspath", None)
                    if k == "chdir" or ab is None:
                        abss.append(None)
                    else:
                        got = []
                        for f in ("p", "q"):
                            if f in strings:
                                a_ = ab(strings[f])
                                b_ = below(root, a_) if isinstance(a_, str) else None
                                got.append({"raw": str(a_)} if b_ is None else b_)
                        abss.append(got)
                    cwds.append(cwd_now())
                cur, iso = iso, None
                rounds.append(close_round(cur))
            finally:
                if iso is not None:           # an adapter error: undo the patches, never clean outside the sandbox
                    withdraw(iso)
                    iso.__exit__(None, None, None)
                os.chdir(old_cwd)
            out.update(res=res, args=args, abs=abss, cwds=cwds, rounds=rounds, escaped=sorted(escaped))
            out["post"] = snapshot(root)
        finally:
            config.configuration.filesystem_isolation = old_flag
            _RMTREE(sandbox, ignore_errors=True)
        return out

    # ---- model --------------------------------------------------------------------------------
    def parse_model(self, line: str):
        import json
        mo = json.loads(line)
        for rd in mo.get("rounds", []):
            rd["created"] = [list(c) for c in sorted({tuple(c) for c in rd["created"]})]
            rd["pre"] = sorted(rd["pre"], key=lambda e: e[0])
            rd["post"] = sorted(rd["post"], key=lambda e: e[0])
        return mo

    def compare(self, case, impl_out, model_out) -> bool:
        if "res" not in model_out:
            return False
        if "unmodelled" in model_out["res"]:
            # shutil.move fell back to copytree, a spelling the operating system does not resolve like its normal
            # form (a detour through a missing directory, `file/`), a spelling that leaves the sandbox or is
            # relative to a deleted working directory, an operation that moves or deletes the working directory:
            # only the oracle judges the case
            i = model_out["res"].index("unmodelled")
            sp = (case.get("spell") or [{}] * len(case["ops"]))[i] or {}
            if impl_out["res"][i] == "outside":
                self.count("unmodelled:spelling-outside-sandbox-or-deleted-cwd")
            elif ("sp" in sp or "sq" in sp) and "move" not in case["ops"][i]:
                self.count("unmodelled:spelling-not-resolved-like-normal-form-or-cwd-clobbered")
            else:
                self.count("unmodelled:move-copytree-fallback-or-spelling")
            return True
        # `_abspath` of every spelled argument is the path the operating system (and the model) resolves it to
        abs_ok = all(a is None or a == g for a, g in zip(impl_out["abs"], impl_out["args"]))
        return (impl_out["res"] == model_out["res"] and impl_out["args"] == model_out.get("args")
                and impl_out["cwds"] == model_out.get("cwds") and impl_out["rounds"] == model_out.get("rounds")
                and abs_ok and not impl_out["escaped"])

    # ---- the property itself ------------------------------------------------------------------
    def model_line(self, case):
        return None if "scenario" in case else jdump(case)

    @staticmethod
    def round_spans(case) -> list:
        """[start, end) operation indices of every isolation of the case"""
        spans, start = [], 0
        for i, op in enumerate(case["ops"]):
            if "reenter" in op:
                spans.append((start, i))
                start = i + 1
        spans.append((start, len(case["ops"])))
        return spans

    def oracle(self, case, impl_out):
        if "scenario" in case:
            return self.extra_checks()
        fails = []
        seen = set()
        chdirs = [i for i, (op, r) in enumerate(zip(case["ops"], impl_out["res"])) if "chdir" in op and r == "ok"]
        for k, ((lo, hi), rd) in enumerate(zip(self.round_spans(case), impl_out["rounds"])):
            # every isolation on its own: the tree before ITS entry against the tree after ITS exit
            before = {tuple(p): n for p, n in (impl_out["before"] if k == 0 else impl_out["rounds"][k - 1]["post"])}
            after = {tuple(p): n for p, n in rd["post"]}

            def culprit(path):
                """(kind, index) of the last successful operation of this isolation acting on the path or one of
                its ancestors (by the paths its arguments DENOTED when it ran)"""
                best = ("none", hi)
                for i in range(lo, hi):
                    op, r, den = case["ops"][i], impl_out["res"][i], impl_out["args"][i]
                    if r == "ok" and "chdir" not in op and den and any(tuple(q) == path[:len(q)] for q in den):
                        best = (op_kind(op), i)
                return best

            def sig_of(cls, path):
                via, idx = culprit(path)
                sig = {"class": cls, "via": via}
                if any(c < idx for c in chdirs):
                    sig["after_chdir"] = True
                if k > 0:
                    sig["isolation"] = "later"
                return sig

            for p, n in before.items():
                if p not in after:
                    cls = "preexisting-deleted"
                elif after[p] != n:
                    cls = "preexisting-modified"
                else:
                    continue
                sig = sig_of(cls, p)
                if jdump(sig) not in seen:
                    seen.add(jdump(sig))
                    fails.append(Failure(sig, f"{cls}: {'/'.join(p) or '<root>'} was {jdump(n)} before isolation "
                                              f"#{k + 1} of the case and is {jdump(after.get(p))} after its exit "
                                              f"(via {sig['via']})"))
            for p in after:
                if p not in before:
                    sig = sig_of("created-left-behind", p)
                    if jdump(sig) not in seen:
                        seen.add(jdump(sig))
                        fails.append(Failure(sig, f"created-left-behind: {'/'.join(p)} did not exist before isolation "
                                                  f"#{k + 1} of the case and still exists after its exit "
                                                  f"(via {sig['via']})"))
        if impl_out["escaped"]:
            fails.append(Failure({"class": "recorded-outside-sandbox"},
                                 f"paths outside the sandbox were recorded for deletion: {impl_out['escaped'][:3]}"))
        return fails

    def classify(self, case, impl_out):
        if "scenario" in case:
            return None
        before = {tuple(p) for p, _ in impl_out["before"]}
        key = []
        spell = case.get("spell") or [{}] * len(case["ops"])
        used = {}             # relative string -> working directories it was used in
        cwd = []
        for op, r, sp, den, after in zip(case["ops"], impl_out["res"], spell, impl_out["args"], impl_out["cwds"]):
            sp = sp or {}
            rel = bool(sp.get("rel"))
            relq = bool(sp.get("relq", rel))
            pre = [tuple(q) in before for q in (den or [])]
            kinds = sorted(set(spelling_kinds(sp.get("sp"), rel) + spelling_kinds(sp.get("sq"), relq)))
            key.append([op_kind(op), r, pre, kinds])
            self.count(f"op:{next(iter(op))}:{r}")
            for kd in kinds:
                self.count(f"spelling:{kd}:{r}")
            if any(pre):
                self.count(f"names-preexisting:{r}")
            if r != "outside" and "reenter" not in op:
                (_, v), = op.items()
                for f, sf, rl in (("p", "sp", rel), ("q", "sq", relq)):
                    if f in v and rl:
                        used.setdefault(spelled("", v[f], sp.get(sf), True, bool(sp.get("bare"))), set()).add(jdump(cwd))
            cwd = after
        if any(len(c) > 1 for c in used.values()):
            self.count("shape:same-relative-string-under-several-working-directories")
        self.count(f"shape:isolations-per-case:{min(len(impl_out['rounds']), 4)}")
        # name relations between what was recorded and what existed before (the isolation must tell them apart)
        rel_ = set()
        n_iso = n_iso_true = 0
        for rd in impl_out["rounds"]:
            for c in rd["created"]:
                cs = "/" + "/".join(c)
                for b in before:
                    bs = "/" + "/".join(b)
                    if b and tuple(c) != b[:len(c)] and bs.startswith(cs):
                        rel_.add("recorded-name-is-string-prefix-of-preexisting")
                    if b and tuple(c) != b and len(c) == len(b) and cs.lower() == bs.lower():
                        rel_.add("recorded-name-differs-in-case-from-preexisting")
            if rd.get("iso") and rd["iso"] != "absent":
                n_iso += len(rd["iso"])
                n_iso_true += sum(1 for x in rd["iso"] if x)
        for x in rel_:
            self.count(f"shape:{x}")
        if n_iso:
            self.count("probes:is_isolated", n_iso)
            self.count("probes:is_isolated-true", n_iso_true)
        self.count("probes:abspath", sum(len(a) for a in impl_out["abs"] if a))
        self.count(f"kind:len{min(len(case['ops']) // 4 * 4, 12)}")
        if not any(r == "ok" and "reenter" not in op for op, r in zip(case["ops"], impl_out["res"])):
            return None
        return jdump(key)

    # ---- the isolation's own temporary directory and its name-prefixed siblings ------------------
    def extra_checks(self):
        """Outside the Lean model (which has no private tmp dir): pre-existing siblings of the isolation's own
        TemporaryDirectory whose names merely EXTEND its name (`<tmp>bak`, `<tmp>.d/`) are pre-existing paths
        like any other.  Oracle = the property: the sandbox without the tmp dir is the same before and after."""
        import pynguin.configuration as config
        from pynguin.utils.fs_isolation import FilesystemIsolation

        fails = []
        sandbox = os.path.realpath(tempfile.mkdtemp(prefix="verif-c29-tmp-"))
        old_flag, old_tmp, old_cwd = config.configuration.filesystem_isolation, tempfile.tempdir, os.getcwd()
        old_env = {k: os.environ.get(k) for k in ("TMP", "TEMP", "TMPDIR")}
        try:
            config.configuration.filesystem_isolation = True
            tempfile.tempdir = sandbox            # the isolation's TemporaryDirectory is created in here
            iso = FilesystemIsolation()
            tempfile.tempdir = old_tmp
            tmp = getattr(getattr(iso, "_tmp", None), "name", None)
            if not tmp or os.path.dirname(tmp) != sandbox:
                self.count("tmp-sibling:skipped")
                return fails
            sib_file, sib_dir = tmp + "bak", tmp + ".d"
            with _OPEN(sib_file, "w", encoding="ascii") as f:
                f.write("precious")
            _MKDIR(sib_dir)
            with _OPEN(os.path.join(sib_dir, "keep"), "w", encoding="ascii") as f:
                f.write("keep")

            def snap():
                return [e for e in snapshot(sandbox) if e[0][:1] != [os.path.basename(tmp)]]

            before = snap()
            attempts = [
                ("open-w", lambda: builtins.open(sib_file, "w").close()),
                ("path-write_text", lambda: Path(sib_file).write_text("x")),
                ("os.open-wronly-trunc", lambda: os.close(os.open(sib_file, os.O_WRONLY | os.O_TRUNC))),
                ("makedirs-exist_ok", lambda: os.makedirs(sib_dir, exist_ok=True)),
                ("open-a-inside-dir", lambda: builtins.open(os.path.join(sib_dir, "keep"), "a").close()),
                ("copy-onto", lambda: shutil.copyfile(os.path.join(tmp, "mine"), sib_file)),
                ("replace-onto", lambda: os.replace(os.path.join(tmp, "mine2"), sib_file)),
            ]
            done = []
            with iso:
                try:
                    for nm in ("mine", "mine2"):
                        with builtins.open(os.path.join(tmp, nm), "w") as f:
                            f.write("scratch")
                    for name, act in attempts:
                        try:
                            act()
                            done.append(name)
                        except Exception:  # noqa: BLE001
                            pass
                finally:
                    for c in list(iso._created):
                        if not c.startswith(sandbox + os.sep):
                            iso._created.discard(c)
            after = snap()
            self.count("tmp-sibling:scenario")
            if after != before:
                b, a = {tuple(p): n for p, n in before}, {tuple(p): n for p, n in after}
                for pth in sorted(set(b) | set(a)):
                    if b.get(pth) != a.get(pth):
                        cls = ("created-left-behind" if pth not in b else
                               "preexisting-deleted" if pth not in a else "preexisting-modified")
                        kind = "file" if len(pth) == 1 and pth[0].endswith("bak") else "dir"
                        fails.append(Failure(
                            {"class": cls, "via": f"sibling-of-private-tmp-dir:{kind}"},
                            f"{cls}: {'/'.join(pth)} (a sibling of the isolation's private tmp dir {os.path.basename(tmp)} "
                            f"whose name extends it) was {jdump(b.get(pth))} before and is {jdump(a.get(pth))} after; "
                            f"operations that were let through: {done}",
                            case={"scenario": "name-prefixed siblings of the private tmp dir", "let_through": done}))
                        break
        finally:
            tempfile.tempdir = old_tmp
            config.configuration.filesystem_isolation = old_flag
            os.chdir(old_cwd)
            for k, v in old_env.items():
                if v is None:
                    os.environ.pop(k, None)
                else:
                    os.environ[k] = v
            _RMTREE(sandbox, ignore_errors=True)
        return fails

    # ---- table check --------------------------------------------------------------------------
    def translate(self):
        """The `patches` table the model encodes must be the table the code installs (translator stand-in:
        nothing is generated, a difference is a broken obligation and triggers the failing-input search)."""
        import pynguin.configuration as config
        from pynguin.utils.fs_isolation import FilesystemIsolation

        old = config.configuration.filesystem_isolation
        config.configuration.filesystem_isolation = True
        seen = {}
        try:
            iso = FilesystemIsolation()
            orig = iso._create_tracked_method

            def spy(original_func, **kw):
                owner = {"posix": "os", "os": "os", "shutil": "shutil", "pathlib": "Path"}.get(
                    getattr(original_func, "__module__", "?"), getattr(original_func, "__module__", "?"))
                name = getattr(original_func, "__name__", "?")
                seen.setdefault(f"{owner}.{name}", []).append(kw)
                return orig(original_func, **kw)

            iso._create_tracked_method = spy
            with iso:
                pass
        finally:
            config.configuration.filesystem_isolation = old
        # os.remove and os.unlink are the same builtin: both rows show up under one name
        norm_expected = dict(EXPECTED_PATCHES)
        self.extra_coverage["patches_table_entries"] = sum(len(v) for v in seen.values())
        names_got = sorted((k, jdump(v)) for k, vs in seen.items() for v in vs)
        names_exp = []
        for k, v in norm_expected.items():
            kk = k
            if k == "os.unlink" and "os.unlink" not in seen:
                kk = "os.remove"
            if k == "os.remove" and "os.remove" not in seen:
                kk = "os.unlink"
            names_exp.append((kk, jdump(v)))
        if names_got != sorted(names_exp):
            diff = sorted(set(names_got) ^ set(names_exp))
            raise ValueError(f"_initialize_patches installs a table the model does not encode: {diff[:8]}")


if __name__ == "__main__":
    run_main(C29)
