import Lean.Data.Json
import Std.Data.HashMap
import PynguinModel.Model.MutantsCtl
/-! Line-protocol driver for C28: one JSON case per line in, one JSON result per line out.

case  = {"tree": T, "ops": [{"prone": b, "vis": [[path, [[name, T], …]], …]}, …],
         "mode": "hist" | "sel" | "hom", "cap": n | -1, "draws": [[i, …], …],
         "groups": [[[op, idx], …], …], "stop": k | -1,
         "calls": [c, …], "ctlGroups": [[[op, idx], …], …]}
calls = a history of calls on ONE MutationController wrapping the configured mutator: -2 = mutant_count(),
        -1 = create_mutants() consumed to the end, k ≥ 1 = create_mutants() abandoned after k mutants;
        ctlGroups = the groups the HOM strategy forms in a complete run (may be longer than "groups" when the
        recorded enumeration was abandoned)
T     = [label, [T, …]]  (a node; the kids are its child slots in field order, list entries by position)
      | [v]              (a non-node entry of a child list: `None` placeholder / identifier, v = interned repr)
out   = {"count": n, "yields": [[[[op, path, name], …], hash], …], "intact": b, "final": hash,
         "counts": […], "err": null | "…", "ctl": [n, …] | "error"}
`histStop / selStop / homStop` and the controller (`ctlRunF`) live in `Model/MutantsCtl.lean`.
`stop = k ≥ 0`: the consumer takes k mutants and then drops the generator (which closes it). -/
open Lean PynguinModel.Mutants

partial def treeOfJson (j : Json) : Except String Tree := do
  let a ← j.getArr?
  if a.size == 1 then return .hole (← a[0]!.getNat?)
  if a.size != 2 then throw "tree: expected [label, kids] or [placeholder]"
  let l ← a[0]!.getNat?
  let ks ← a[1]!.getArr?
  let ks' ← ks.toList.mapM treeOfJson
  pure (.node l ks')

instance : FromJson Tree := ⟨treeOfJson⟩

structure VisRow where
  path : List Nat
  reps : List (Nat × Tree)

instance : FromJson VisRow where
  fromJson? j := do
    let a ← j.getArr?
    if a.size != 2 then throw "vis row: expected [path, reps]"
    let p : List Nat ← fromJson? a[0]!
    let rs ← a[1]!.getArr?
    let reps ← rs.toList.mapM fun r => do
      let b ← r.getArr?
      if b.size != 2 then throw "rep: expected [name, tree]"
      let n ← b[0]!.getNat?
      let t ← treeOfJson b[1]!
      pure (n, t)
    pure ⟨p, reps⟩

structure OpJ where
  prone : Bool
  vis : List VisRow
  deriving FromJson

structure Case where
  tree : Tree
  ops : List OpJ
  mode : String
  cap : Int
  draws : List (List Nat)
  groups : List (List (Nat × Nat))
  stop : Int
  calls : List Int
  ctlGroups : List (List (Nat × Nat))
  deriving FromJson

def mkOp (o : OpJ) : Op :=
  let m : Std.HashMap (List Nat) (List (Nat × Tree)) :=
    o.vis.foldl (fun m r => m.insert r.path r.reps) {}
  { vis := fun p _ => m.getD p [] }

def mutJ (m : Mut) : Json := Json.arr #[toJson m.1, toJson m.2.path, toJson m.2.name]

def errJ : Err → Json
  | .notRegenerated => "notRegenerated"
  | .yieldedTwice => "yieldedTwice"
  | .badDraw => "badDraw"
  | .badRef => "badRef"

def callOf (c : Int) : Call :=
  if c == -2 then .count else if c < 0 then .create none else .create (some c.toNat)

def ctlJ (m : Option Mutator) (t : Tree) (calls : List Int) : Json :=
  match m with
  | none => "badRef"
  | some m =>
    match ctlRunF m t (calls.map callOf) Heap.clean with
    | .ok ns => toJson ns
    | .error e => errJ e

def result (ctl : Json) (count : Nat) (ys : List (List Mut × Tree)) (t : Tree) (hf : Heap) (counts : List Nat)
    (err : Json) : Json :=
  Json.mkObj [("ctl", ctl), ("count", toJson count),
    ("yields", Json.arr (ys.toArray.map fun (ms, m) => Json.arr #[Json.arr (ms.toArray.map mutJ), toJson m.hash])),
    ("intact", toJson ((read t hf).hash == t.hash)), ("final", toJson (read t hf).hash),
    ("counts", toJson counts), ("err", err)]

def runCase (c : Case) : Json :=
  let ops := c.ops.map mkOp
  let prone := c.ops.map (·.prone)
  let t := c.tree
  let h0 := Heap.clean
  let cnt := (mutationCountF t ops h0, h0)
  let per := (perOperatorF t ops h0, h0)
  let h1 := h0
  let sizes := per.1.map List.length
  let cap : Option Nat := if c.cap < 0 then none else some c.cap.toNat
  let counts := match cap with
    | some k => stratifiedCounts sizes k
    | none => sizes
  let single (ys : List (Mut × Tree)) := ys.map fun (m, tr) => ([m], tr)
  let resolve (g : List (Nat × Nat)) : Option (List Mut) :=
    g.mapM fun (o, i) => do
      let l ← per.1[o]?
      let info ← l[i]?
      pure ((o, info) : Mut)
  let mutator : Option Mutator := match c.mode with
    | "hist" => some (.hist ops)
    | "sel" => some (.sel ops prone cap c.draws)
    | _ => (c.ctlGroups.mapM resolve).map (Mutator.hom ops)
  let result := result (if c.calls.isEmpty then toJson ([] : List Nat) else ctlJ mutator t c.calls)
  match c.mode with
  | "hist" =>
    let r := if c.stop < 0 then (historicalF t ops 0 h1, h1) else histStop t ops 0 h1 c.stop.toNat
    result cnt.1 (single r.1) t r.2 counts Json.null
  | "sel" =>
    match selectMutations per.1 prone cap c.draws with
    | .error e => result cnt.1 [] t h1 counts (errJ e)
    | .ok sel =>
      let r := if c.stop < 0 then (selectedMutateF ops t sel h1).map (·, h1) else selStop ops t sel h1 c.stop.toNat
      match r with
      | .error e => result cnt.1 [] t h1 counts (errJ e)
      | .ok (ys, hf) => result cnt.1 (single ys) t hf counts Json.null
  | "hom" =>
    match c.groups.mapM resolve with
    | none => result cnt.1 [] t h1 counts (errJ .badRef)
    | some groups =>
      let r := if c.stop < 0 then (homMutateF ops t groups h1).map (·, h1) else homStop ops t groups h1 c.stop.toNat
      match r with
      | .error e => result cnt.1 [] t h1 counts (errJ e)
      | .ok (ys, hf) => result cnt.1 ys t hf counts Json.null
  | m => Json.mkObj [("bad-op", toJson m)]

partial def loop (h : IO.FS.Stream) : IO Unit := do
  let line ← h.getLine
  if line.isEmpty then return ()
  let out := match Json.parse line >>= fromJson? (α := Case) with
    | .ok c => (runCase c).compress
    | .error e => (Json.mkObj [("bad-op", e)]).compress
  IO.println out
  loop h

def main : IO Unit := do loop (← IO.getStdin)
