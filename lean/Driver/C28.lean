import Lean.Data.Json
import Std.Data.HashMap
import PynguinModel.Model.Mutants
/-! Line-protocol driver for C28: one JSON case per line in, one JSON result per line out.

case  = {"tree": T, "ops": [{"prone": b, "vis": [[path, [[name, T], …]], …]}, …],
         "mode": "hist" | "sel" | "hom", "cap": n | -1, "draws": [[i, …], …],
         "groups": [[[op, idx], …], …], "stop": k | -1}
T     = [label, [T, …]]  (a node; the kids are its child slots in field order, list entries by position)
      | [v]              (a non-node entry of a child list: `None` placeholder / identifier, v = interned repr)
out   = {"count": n, "yields": [[[[op, path, name], …], hash], …], "intact": b, "final": hash,
         "counts": […], "err": null | "…"}
`stop = k ≥ 0`: the consumer takes k mutants and then drops the generator (which closes it). -/
open Lean PynguinModel.Mutants

partial def treeOfJson (j : Json) : Except String Tree := do
  let a ← j.getArr?
  if a.size == 1 then return .hole (← a[0]!.getNat?)
  if a.size != 2 then throw "tree: expected [label, kids] or [placeholder]"
  let l ← a[0]!.getNat?
  let ks ← a[1]!.getArr?
  let ks' ← ks.toList.mapM treeOfJson
  pure (.node l ks')

instance : FromJson Tree := ⟨treeOfJson⟩

structure VisRow where
  path : List Nat
  reps : List (Nat × Tree)

instance : FromJson VisRow where
  fromJson? j := do
    let a ← j.getArr?
    if a.size != 2 then throw "vis row: expected [path, reps]"
    let p : List Nat ← fromJson? a[0]!
    let rs ← a[1]!.getArr?
    let reps ← rs.toList.mapM fun r => do
      let b ← r.getArr?
      if b.size != 2 then throw "rep: expected [name, tree]"
      let n ← b[0]!.getNat?
      let t ← treeOfJson b[1]!
      pure (n, t)
    pure ⟨p, reps⟩

structure OpJ where
  prone : Bool
  vis : List VisRow
  deriving FromJson

structure Case where
  tree : Tree
  ops : List OpJ
  mode : String
  cap : Int
  draws : List (List Nat)
  groups : List (List (Nat × Nat))
  stop : Int
  deriving FromJson

def mkOp (o : OpJ) : Op :=
  let m : Std.HashMap (List Nat) (List (Nat × Tree)) :=
    o.vis.foldl (fun m r => m.insert r.path r.reps) {}
  { vis := fun p _ => m.getD p [] }

def mutJ (m : Mut) : Json := Json.arr #[toJson m.1, toJson m.2.path, toJson m.2.name]

def errJ : Err → Json
  | .notRegenerated => "notRegenerated"
  | .yieldedTwice => "yieldedTwice"
  | .badDraw => "badDraw"
  | .badRef => "badRef"

def result (count : Nat) (ys : List (List Mut × Tree)) (t : Tree) (hf : Heap) (counts : List Nat)
    (err : Json) : Json :=
  Json.mkObj [("count", toJson count),
    ("yields", Json.arr (ys.toArray.map fun (ms, m) => Json.arr #[Json.arr (ms.toArray.map mutJ), toJson m.hash])),
    ("intact", toJson ((read t hf).hash == t.hash)), ("final", toJson (read t hf).hash),
    ("counts", toJson counts), ("err", err)]

/-- historical path with an early stop: the consumer takes `k` mutants and drops the generator, which
closes it (`closeEvs`); the heap at the yield of `i` is `h.set i.path (some i.repl)` (`mutant_heap_at_yield`) -/
def histStop (t : Tree) : List Op → Nat → Heap → Nat → List (Mut × Tree) × Heap
  | [], _, h, _ => ([], h)
  | op :: ops, o, h, k =>
    let ys := yields (mutateEvs op none h t)
    if ys.length < k then
      let rest := histStop t ops (o + 1) h (k - ys.length)
      ((enumOpF op t h).map (fun (i, m) => ((o, i), m)) ++ rest.1, rest.2)
    else
      let taken := ys.take k
      match taken.getLast? with
      | none => ([], h)
      | some i =>
        (taken.map (fun i => ((o, i), readRoot t (h.set i.path (some i.repl)))),
         applyWrites (closeEvs h i) (h.set i.path (some i.repl)))

/-- selected path with an early stop -/
def selStop (ops : List Op) (t : Tree) : List Mut → Heap → Nat → Except Err (List (Mut × Tree) × Heap)
  | [], h, _ => .ok ([], h)
  | _, h, 0 => .ok ([], h)
  | m :: ms, h, k + 1 =>
    if k = 0 then
      match ops[m.1]? with
      | none => .error .badRef
      | some op =>
        match next (mutateEvs op (some (m.2.path, m.2.name)) h t) h with
        | (none, _, _) => .error .notRegenerated
        | (some i, h1, _) => .ok ([((m.1, i), readRoot t h1)], applyWrites (closeEvs h i) h1)
    else do
      let (y, _) ← applyOne ops t m h
      let (ys, hf) ← selStop ops t ms h k
      pure (y :: ys, hf)

/-- starting the generators of one group, remembering for each the heap it captured -/
def startAllH (ops : List Op) (t : Tree) : List Mut → Heap → Except Err (Heap × List Mut × List (Heap × Info))
  | [], h => .ok (h, [], [])
  | m :: ms, h =>
    match ops[m.1]? with
    | none => .error .badRef
    | some op =>
      match next (mutateEvs op (some (m.2.path, m.2.name)) h t) h with
      | (none, _, _) => .error .notRegenerated
      | (some i, h1, _) => do
        let (hk, ms', caps) ← startAllH ops t ms h1
        pure (hk, (m.1, i) :: ms', (h, i) :: caps)

def homStop (ops : List Op) (t : Tree) : List (List Mut) → Heap → Nat → Except Err (List (List Mut × Tree) × Heap)
  | [], h, _ => .ok ([], h)
  | _, h, 0 => .ok ([], h)
  | g :: gs, h, k + 1 =>
    if k = 0 then do
      let (hk, ms, caps) ← startAllH ops t g h
      -- the suspended generators are closed newest first
      let hf := caps.reverse.foldl (fun acc (h0, i) => applyWrites (closeEvs h0 i) acc) hk
      pure ([(ms, readRoot t hk)], hf)
    else do
      let (hk, ms, gens) ← startAll ops t g h
      let _ ← finishAll gens.reverse hk
      let (ys, hf) ← homStop ops t gs h k
      pure ((ms, readRoot t hk) :: ys, hf)

def runCase (c : Case) : Json :=
  let ops := c.ops.map mkOp
  let prone := c.ops.map (·.prone)
  let t := c.tree
  let h0 := Heap.clean
  let cnt := (mutationCountF t ops h0, h0)
  let per := (perOperatorF t ops h0, h0)
  let h1 := h0
  let sizes := per.1.map List.length
  let cap : Option Nat := if c.cap < 0 then none else some c.cap.toNat
  let counts := match cap with
    | some k => stratifiedCounts sizes k
    | none => sizes
  let single (ys : List (Mut × Tree)) := ys.map fun (m, tr) => ([m], tr)
  match c.mode with
  | "hist" =>
    let r := if c.stop < 0 then (historicalF t ops 0 h1, h1) else histStop t ops 0 h1 c.stop.toNat
    result cnt.1 (single r.1) t r.2 counts Json.null
  | "sel" =>
    match selectMutations per.1 prone cap c.draws with
    | .error e => result cnt.1 [] t h1 counts (errJ e)
    | .ok sel =>
      let r := if c.stop < 0 then (selectedMutateF ops t sel h1).map (·, h1) else selStop ops t sel h1 c.stop.toNat
      match r with
      | .error e => result cnt.1 [] t h1 counts (errJ e)
      | .ok (ys, hf) => result cnt.1 (single ys) t hf counts Json.null
  | "hom" =>
    let resolve (g : List (Nat × Nat)) : Option (List Mut) :=
      g.mapM fun (o, i) => do
        let l ← per.1[o]?
        let info ← l[i]?
        pure ((o, info) : Mut)
    match c.groups.mapM resolve with
    | none => result cnt.1 [] t h1 counts (errJ .badRef)
    | some groups =>
      let r := if c.stop < 0 then (homMutateF ops t groups h1).map (·, h1) else homStop ops t groups h1 c.stop.toNat
      match r with
      | .error e => result cnt.1 [] t h1 counts (errJ e)
      | .ok (ys, hf) => result cnt.1 ys t hf counts Json.null
  | m => Json.mkObj [("bad-op", toJson m)]

partial def loop (h : IO.FS.Stream) : IO Unit := do
  let line ← h.getLine
  if line.isEmpty then return ()
  let out := match Json.parse line >>= fromJson? (α := Case) with
    | .ok c => (runCase c).compress
    | .error e => (Json.mkObj [("bad-op", e)]).compress
  IO.println out
  loop h

def main : IO Unit := do loop (← IO.getStdin)
