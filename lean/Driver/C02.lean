import Lean.Data.Json
import PynguinModel.Model.LineInstr
import PynguinModel.Model.LineTracer
import PynguinModel.Generated.C02Opcodes
/-! Line-protocol driver for C02: one JSON case per line in, one JSON result per line out.

case   = {"cos": [{"file": s, "nocover": [n…], "blocks": [[entry…]…]}…], "script": [event…]}
entry  = {"k": "pseudo"} | {"k": "art"} | {"k": "orig", "name": s, "line": n | null}
event  = {"e": "blk", "v": [co, blk, k]}            -- control runs through a prefix of an instrumented block
       | {"e": "predicate", "vs": [[co, blk, k]…]}  -- proxy.executed_*_predicate; its evaluation runs these blocks
       | {"e": "enable" | "disable" | "tdEnter" | "teEnter" | "cmExit" | "enter" | "exit"
                | "initTrace" | "storeImportTrace" | "reset" | "setFresh"}
The run starts from `SubjectProperties()` (a proxy around a fresh `ExecutionTracer`).
result = {"blocks": [[[item…]…]…], "registry": [[file, line]…], "calls": [id…] (of the blk events),
          "snaps": [[id…]…] (covered_line_ids before every new trace and at the end), "covered": [id…] (the last),
          "aborted": n, "enabled": bool, "entered": bool, "open": n,
          "metas": [[file, line]…] | null, "linenos": [n…] | null, "coverage": [num, den], "all": bool}
item   = "p" | "a" | ["o", name, line | null] | ["t", id]
-/
open Lean PynguinModel.LineInstr PynguinModel.LineTracer

structure JEntry where
  k : String
  name : Option String := none
  line : Option Nat := none
  deriving FromJson

structure JCo where
  file : String
  nocover : List Nat
  blocks : List (List JEntry)
  deriving FromJson

structure JEv where
  e : String
  v : Option (List Nat) := none
  vs : Option (List (List Nat)) := none
  deriving FromJson

structure JCase where
  cos : List JCo
  script : List JEv
  deriving FromJson

def toEntry (e : JEntry) : Except String Entry :=
  match e.k, e.name with
  | "pseudo", none => .ok .pseudo
  | "art", none => .ok .art
  | "orig", some n => .ok (.orig ⟨n, e.line⟩)
  | k, _ => .error s!"entry kind {k}"

def toCo (c : JCo) : Except String CodeObj := do
  let blocks ← c.blocks.mapM (fun b => b.mapM toEntry)
  let nocover := c.nocover
  pure ⟨⟨c.file, fun l => !nocover.contains l,
         fun n => PynguinModel.Generated.C02.skippedOpnames.contains n⟩, blocks⟩

def toVisit (v : List Nat) : Except String Visit :=
  match v with
  | [a, b, c] => .ok ⟨a, b, c⟩
  | _ => .error "visit"

def itemJ : OEntry → Json
  | .keep .pseudo => "p"
  | .keep .art => "a"
  | .keep (.orig i) => Json.arr #["o", toJson i.name, toJson i.line]
  | .tracker id => Json.arr #["t", toJson id]

def metaJ (m : LineMeta) : Json := Json.arr #[toJson m.file, toJson m.line]

def toEv (prog : List (List (List OEntry))) (e : JEv) : Except String Ev :=
  match e.e, e.v, e.vs with
  | "blk", some v, none => do pure (.blk (← toVisit v))
  | "predicate", none, some vs => do pure (.op (.predicate (runHistory prog (← vs.mapM toVisit))))
  | "enable", none, none => .ok (.op .enable)
  | "disable", none, none => .ok (.op .disable)
  | "tdEnter", none, none => .ok (.op .tdEnter)
  | "teEnter", none, none => .ok (.op .teEnter)
  | "cmExit", none, none => .ok (.op .cmExit)
  | "enter", none, none => .ok (.op .enter)
  | "exit", none, none => .ok (.op .exit)
  | "initTrace", none, none => .ok (.op .initTrace)
  | "storeImportTrace", none, none => .ok (.op .storeImportTrace)
  | "reset", none, none => .ok (.op .reset)
  | "setFresh", none, none => .ok (.op .setFresh)
  | k, _, _ => .error s!"event {k}"

def blkVisits : List Ev → List Visit
  | [] => []
  | .blk v :: es => v :: blkVisits es
  | _ :: es => blkVisits es

def runCase (c : JCase) : Except String Json := do
  let cos ← c.cos.mapM toCo
  let (r, prog) := instrumentProgram [] cos
  let evs ← c.script.mapM (toEv prog)
  let calls := runHistory prog (blkVisits evs)
  let fin := Run.init.run (flatten prog evs)
  let snaps := snapshots prog Run.init evs
  let cov := fin.trace
  let cv := lineCoverage r cov
  pure <| Json.mkObj [
    ("blocks", toJson (prog.map (fun obs => obs.map (fun ob => Json.arr (ob.map itemJ).toArray)))),
    ("registry", Json.arr (r.map metaJ).toArray),
    ("calls", toJson calls),
    ("snaps", toJson snaps),
    ("covered", toJson cov),
    ("aborted", toJson fin.aborted),
    ("enabled", toJson fin.proxy.tracer.enabled),
    ("entered", toJson fin.proxy.tracer.entered),
    ("open", toJson fin.stack.length),
    ("metas", match lineidsToMetas r cov with
              | some ms => Json.arr (ms.map metaJ).toArray
              | none => Json.null),
    ("linenos", match lineidsToLinenos r cov with
                | some ls => toJson ls
                | none => Json.null),
    ("coverage", Json.arr #[toJson cv.1, toJson cv.2]),
    ("all", toJson (allLinesCovered r cov))]

def bad (msg : String) : Json := Json.mkObj [("bad-op", msg)]

partial def loop (h : IO.FS.Stream) : IO Unit := do
  let line ← h.getLine
  if line.isEmpty then return
  let out : Json :=
    match Json.parse line.trimAscii.toString with
    | .error e => bad e
    | .ok j =>
      match (fromJson? j : Except String JCase) with
      | .error e => bad e
      | .ok c =>
        match runCase c with
        | .ok o => o
        | .error e => bad e
  IO.println out.compress
  loop h

def main : IO Unit := do
  loop (← IO.getStdin)
