import Lean.Data.Json
import PynguinModel.Model.LineInstr
import PynguinModel.Generated.C02Opcodes
/-! Line-protocol driver for C02: one JSON case per line in, one JSON result per line out.

case   = {"cos": [{"file": s, "nocover": [n…], "blocks": [[entry…]…]}…], "visits": [[co, blk, k]…]}
entry  = {"k": "pseudo"} | {"k": "art"} | {"k": "orig", "name": s, "line": n | null}
result = {"blocks": [[[item…]…]…], "registry": [[file, line]…], "calls": [id…], "covered": [id…],
          "metas": [[file, line]…] | null, "linenos": [n…] | null, "coverage": [num, den], "all": bool}
item   = "p" | "a" | ["o", name, line | null] | ["t", id]
-/
open Lean PynguinModel.LineInstr

structure JEntry where
  k : String
  name : Option String := none
  line : Option Nat := none
  deriving FromJson

structure JCo where
  file : String
  nocover : List Nat
  blocks : List (List JEntry)
  deriving FromJson

structure JCase where
  cos : List JCo
  visits : List (List Nat)
  deriving FromJson

def toEntry (e : JEntry) : Except String Entry :=
  match e.k, e.name with
  | "pseudo", none => .ok .pseudo
  | "art", none => .ok .art
  | "orig", some n => .ok (.orig ⟨n, e.line⟩)
  | k, _ => .error s!"entry kind {k}"

def toCo (c : JCo) : Except String CodeObj := do
  let blocks ← c.blocks.mapM (fun b => b.mapM toEntry)
  let nocover := c.nocover
  pure ⟨⟨c.file, fun l => !nocover.contains l,
         fun n => PynguinModel.Generated.C02.skippedOpnames.contains n⟩, blocks⟩

def toVisit (v : List Nat) : Except String Visit :=
  match v with
  | [a, b, c] => .ok ⟨a, b, c⟩
  | _ => .error "visit"

def itemJ : OEntry → Json
  | .keep .pseudo => "p"
  | .keep .art => "a"
  | .keep (.orig i) => Json.arr #["o", toJson i.name, toJson i.line]
  | .tracker id => Json.arr #["t", toJson id]

def metaJ (m : LineMeta) : Json := Json.arr #[toJson m.file, toJson m.line]

def runCase (c : JCase) : Except String Json := do
  let cos ← c.cos.mapM toCo
  let visits ← c.visits.mapM toVisit
  let (r, prog) := instrumentProgram [] cos
  let calls := runHistory prog visits
  let cov := covered calls
  let cv := lineCoverage r cov
  pure <| Json.mkObj [
    ("blocks", toJson (prog.map (fun obs => obs.map (fun ob => Json.arr (ob.map itemJ).toArray)))),
    ("registry", Json.arr (r.map metaJ).toArray),
    ("calls", toJson calls),
    ("covered", toJson cov),
    ("metas", match lineidsToMetas r cov with
              | some ms => Json.arr (ms.map metaJ).toArray
              | none => Json.null),
    ("linenos", match lineidsToLinenos r cov with
                | some ls => toJson ls
                | none => Json.null),
    ("coverage", Json.arr #[toJson cv.1, toJson cv.2]),
    ("all", toJson (allLinesCovered r cov))]

def bad (msg : String) : Json := Json.mkObj [("bad-op", msg)]

partial def loop (h : IO.FS.Stream) : IO Unit := do
  let line ← h.getLine
  if line.isEmpty then return
  let out : Json :=
    match Json.parse line.trimAscii.toString with
    | .error e => bad e
    | .ok j =>
      match (fromJson? j : Except String JCase) with
      | .error e => bad e
      | .ok c =>
        match runCase c with
        | .ok o => o
        | .error e => bad e
  IO.println out.compress
  loop h

def main : IO Unit := do
  loop (← IO.getStdin)
