import Lean.Data.Json
import PynguinModel.Generated.C27Visibility
/-! Line-protocol driver for C27: one JSON case per line in (configuration + the `inspect` view of the
project), one JSON result per line out (the accessibles under test predicted by the model, driven by the
predicates regenerated from the live source). -/
open Lean PynguinModel.ClusterFilter

structure JFunc where
  id : Nat
  module : String
  qualname : String
  isCoroutine : Bool
  isLambda : Bool
  lambdaName : Option String
  deriving FromJson

structure JMeth where
  name : String
  qualified : String
  definer : Option Nat
  isCoroutine : Bool
  deriving FromJson

structure JCls where
  id : Nat
  module : String
  qualname : String
  isAbstract : Bool
  isEnum : Bool
  enumNames : Nat
  methods : List JMeth
  bases : List Nat
  deriving FromJson

structure JMod where
  name : String
  classes : List Nat
  funcs : List JFunc
  submodules : List String
  deriving FromJson

structure JCase where
  root : String
  vis : String
  ignore_modules : List String
  ignore_methods : List String
  fuel : Nat
  classes : List JCls
  modules : List JMod
  deriving FromJson

def JFunc.toModel (f : JFunc) : Func :=
  { id := f.id, module := f.module.toList, qualname := f.qualname.toList, isCoroutine := f.isCoroutine,
    isLambda := f.isLambda, lambdaName := f.lambdaName.map String.toList }

def JCls.toModel (c : JCls) : Cls :=
  { id := c.id, module := c.module.toList, qualname := c.qualname.toList, isAbstract := c.isAbstract,
    isEnum := c.isEnum, enumNames := c.enumNames,
    methods := c.methods.map (fun m => { name := m.name.toList, qualified := m.qualified.toList,
                                         definer := m.definer, isCoroutine := m.isCoroutine }),
    bases := c.bases }

def JMod.toModel (m : JMod) : Mod :=
  { name := m.name.toList, classes := m.classes, funcs := m.funcs.map JFunc.toModel,
    submodules := m.submodules.map String.toList }

def parseVis : String → Option Vis
  | "PUBLIC" => some .PUBLIC
  | "PROTECTED" => some .PROTECTED
  | "ALL" => some .ALL
  | _ => none

def str (n : List Char) : Json := Json.str (String.ofList n)

def accJ : Acc → Json
  | .func f n => Json.arr #["func", str f.module, str n]
  | .ctor c => Json.arr #["ctor", str (c.module ++ '.' :: c.qualname)]
  | .enum c => Json.arr #["enum", str (c.module ++ '.' :: c.qualname)]
  | .meth c m => Json.arr #["meth", str (c.module ++ '.' :: c.qualname), str m.name]

def asciiOnly (c : JCase) : Bool :=
  let ok (s : String) : Bool := s.toList.all (fun ch => ch.toNat < 128)
  c.classes.all (fun k => ok k.module && ok k.qualname && k.methods.all (fun m => ok m.name && ok m.qualified))
    && c.modules.all (fun m => ok m.name && m.funcs.all (fun f => ok f.module && ok f.qualname
          && (match f.lambdaName with | some n => ok n | none => true)))
    && c.ignore_modules.all ok && c.ignore_methods.all ok

def runCase (c : JCase) : Json :=
  match parseVis c.vis with
  | none => Json.mkObj [("bad-op", Json.str ("visibility " ++ c.vis))]
  | some vis =>
    if !asciiOnly c then Json.mkObj [("bad-op", "non-ASCII name (outside the model)")]
    else
      let cfg : Cfg := { visibility := vis, ignoreModules := c.ignore_modules.map String.toList,
                         ignoreMethods := c.ignore_methods.map String.toList }
      let env : Env := { classes := c.classes.map JCls.toModel, modules := c.modules.map JMod.toModel }
      match underTest Generated.preds cfg env c.root.toList c.fuel with
      | none => Json.mkObj [("err", "fuel exhausted or unknown class / module id")]
      | some accs => Json.mkObj [("under_test", Json.arr (accs.map accJ).toArray)]

partial def loop (h : IO.FS.Stream) : IO Unit := do
  let line ← h.getLine
  if line.isEmpty then return ()
  let out := match Json.parse line >>= fromJson? (α := JCase) with
    | .ok c => (runCase c).compress
    | .error e => (Json.mkObj [("bad-op", e)]).compress
  IO.println out
  loop h

def main : IO Unit := do loop (← IO.getStdin)
