import Lean.Data.Json
import PynguinModel.Model.TestCaseAssert
/-! Line-protocol driver for C19: one JSON case per line in
(`{"stmts":[...],"ops":[...],"noXfail":b,"importOk":b,"outs":[...],"excs":null|[...]}`), one JSON line out:
the abstraction of the test case after every post-processing step (for a visit of
`UnusedStatementsTestCaseVisitor` also its `deleted_statement_indexes`), after the `remove_unused_variables()` of
`TestSuiteWriter.write`, the per-statement exception list and the emitted function body.
Names: JSON number `k` = `var_k`, JSON string = any other name. -/
open Lean PynguinModel.TestCase PynguinModel.TestCaseAssert

abbrev VName := PynguinModel.TestCase.Name

instance : FromJson VName where
  fromJson? j := match j.getNat? with
    | .ok k => .ok (.var k)
    | .error _ => match j.getStr? with
      | .ok s => .ok (.ext s)
      | .error e => .error e

instance : ToJson VName where
  toJson | .var k => toJson k | .ext s => toJson s

deriving instance FromJson for Assertion
deriving instance FromJson for AStmt
deriving instance FromJson for Op

/-- the scripted result of re-executing the statement with this `sid` -/
structure SOutcome where
  sid : Nat
  finished : Bool
  exc : Option Nat
  deriving FromJson

structure Case where
  stmts : List AStmt
  ops : List Op
  noXfail : Bool
  importOk : Bool
  outs : List SOutcome
  /-- recorded return value of the real `_per_statement_exceptions` (write-level cases); `none`: use the model's -/
  excs : Option (List (Option Nat))
  deriving FromJson

def assertJ : Assertion → Json
  | .ref id root => Json.arr #[toJson id, toJson root]
  | .exc id => Json.arr #[toJson id, Json.null]

def stmtJ (s : AStmt) : Json :=
  Json.arr #[toJson s.sid, toJson s.bound, toJson s.btype, toJson s.uses,
             Json.arr (s.asserts.map assertJ).toArray, toJson s.simpleAssign, toJson s.expected]

def stmtsJ (l : List AStmt) : Json := Json.arr (l.map stmtJ).toArray

def itemJ : Item → Json
  | .stmt sid b _ => Json.arr #["stmt", toJson sid, toJson b, Json.null]
  | .raises sid b _ x => Json.arr #["stmt", toJson sid, toJson b, toJson x]
  | .assertion a => Json.arr #["assert", assertJ a]
  | .pass => Json.arr #["pass"]

def groupJ (g : Nat × List Assertion) : Json := Json.arr #[toJson g.1, Json.arr (g.2.map assertJ).toArray]

def stepJ (l : List AStmt) (op : Op) : List AStmt × Json :=
  let l' := applyOp l op
  let err := match op with
    | .removeFwd i => (removeFwd l i).isNone
    | _ => false
  -- `visitor.deleted_statement_indexes` after an `UnusedStatementsTestCaseVisitor` visit (`null` for other steps)
  let deleted : Json := match op with
    | .visitUnused => toJson (visitUnused l).2
    | _ => Json.null
  (l', Json.mkObj [("stmts", stmtsJ l'), ("indexError", toJson err), ("readsOK", toJson (readsOKb [] l')),
                   ("deleted", deleted)])

def runCase (c : Case) : Json :=
  let (l, tr) := c.ops.foldl (fun (acc : List AStmt × Array Json) op =>
      let r := stepJ acc.1 op
      (r.1, acc.2.push r.2)) (c.stmts, #[])
  let l' := (ruFix l).2
  let excs := match c.excs with
    | some e => e
    | none => perStmtExc c.importOk l'
        (l'.filterMap (fun s => (c.outs.find? (fun o => o.sid == s.sid)).map (fun o => ⟨o.finished, o.exc⟩)))
  let fn := buildFn c.noXfail l' excs
  Json.mkObj [
    ("readsOK0", toJson (readsOKb [] c.stmts)),
    ("trace", Json.arr tr),
    ("written", stmtsJ l'),
    ("excs", toJson excs),
    ("body", Json.arr (fn.body.map itemJ).toArray),
    ("xfail", toJson fn.xfail),
    ("groups", Json.arr ((groups fn.body).map groupJ).toArray),
    ("itemsOK", toJson (itemsOKb [] fn.body))]

partial def loop (h : IO.FS.Stream) : IO Unit := do
  let line ← h.getLine
  if line.isEmpty then return ()
  let out := match Json.parse line >>= fromJson? (α := Case) with
    | .ok c => (runCase c).compress
    | .error e => (Json.mkObj [("bad-op", e)]).compress
  IO.println out
  loop h

def main : IO Unit := do loop (← IO.getStdin)
