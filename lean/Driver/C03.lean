import Lean.Data.Json
import PynguinModel.Model.BranchInstr
import PynguinModel.Generated.C03Jumps
/-! Line-protocol driver for C03: one JSON case per line in, one JSON result per line out.
The version table is the one regenerated from the live pynguin modules (`Generated.liveTable`). -/
open Lean PynguinModel.BranchInstr PynguinModel.Distances

deriving instance FromJson, ToJson for CmpOp
deriving instance FromJson, ToJson for Ins
deriving instance FromJson, ToJson for Snip
deriving instance FromJson, ToJson for Entry
deriving instance FromJson, ToJson for Blk
deriving instance ToJson for St
deriving instance ToJson for Pool

/-- An exact float: `{"k":"fin","n":num,"d":den}` / `{"k":"inf"}` / `{"k":"ninf"}` / `{"k":"nan"}`. -/
structure NumJ where
  k : String
  n : Int := 0
  d : Nat := 1
  deriving FromJson

def NumJ.toNum? (x : NumJ) : Option Num :=
  if x.k == "fin" then (if x.d == 0 then none else some (.fin (mkRat x.n x.d)))
  else if x.k == "inf" then some .pinf
  else if x.k == "ninf" then some .ninf
  else if x.k == "nan" then some .nan
  else none

inductive EvJ where
  | enter (coid : Nat)
  | pred (p : Nat) (dT dF : NumJ)
  deriving FromJson

structure CfgCase where
  blocks : List Blk
  coid : Nat
  order : List Nat
  deriving FromJson

structure TraceCase where
  evs : List EvJ
  npreds : Nat
  coids : List Nat
  deriving FromJson

/-- How a recorded predicate callback ended (`Res`). -/
inductive ResJ where
  | skipped
  | raised
  | ok (dT dF : NumJ)
  deriving FromJson

/-- One recorded tracer callback with the callbacks made while it ran (`Call`). -/
inductive CallJ where
  | enter (coid : Nat)
  | pred (p : Nat) (body : List CallJ) (res : ResJ)
  deriving FromJson

structure CallsCase where
  calls : List CallJ
  npreds : Nat
  coids : List Nat
  deriving FromJson

inductive Case where
  | cfg (c : CfgCase)
  | trace (c : TraceCase)
  | calls (c : CallsCase)
  deriving FromJson

def t := PynguinModel.BranchInstr.Generated.liveTable

/-- The jump (if the block ends in a conditional jump) is the last raw entry of the block. -/
def wfBlock (b : Blk) : Bool :=
  match lastInstr b.entries with
  | some (.orig j) => if t.versionCond j.opc then b.entries.getLast? == some (.orig j) else true
  | _ => true

def runCfg (c : CfgCase) : Json :=
  let edges := c.blocks.map (fun b => (edgesOf t b).map dedupEdges)
  let st := instrument t c.blocks c.coid c.order
  Json.mkObj [
    ("edges", toJson edges),
    ("wf", toJson (c.blocks.map wfBlock)),
    ("st", match st with | some s => toJson s | none => Json.null),
    ("pool", match st with | some s => toJson (mkPool c.coid s.preds) | none => Json.null),
    ("decisions", toJson (c.blocks.map (fun b => reprStr (decideAction t b))))]

def evOf (e : EvJ) : Option Ev :=
  match e with
  | .enter c => some (.enter c)
  | .pred p a b => do
    let x ← a.toNum?
    let y ← b.toNum?
    pure (.pred p x y)

def optB : Option Bool → Json
  | some b => toJson b
  | none => Json.mkObj [("err", "KeyError")]

def runTrace (c : TraceCase) : Json :=
  match c.evs.mapM evOf with
  | none => Json.mkObj [("bad-op", "bad number")]
  | some evs =>
    let tr := Trace.empty.run evs
    Json.mkObj [
      ("branch", Json.arr ((List.range c.npreds).map (fun p =>
          Json.arr #[toJson p, optB (branchCovered tr p true), optB (branchCovered tr p false)])).toArray),
      ("entered", toJson (c.coids.map (fun i => (i, codeObjectCovered tr i)))),
      ("executed", toJson tr.executed)]

def traceJson (tr : Trace) (npreds : Nat) (coids : List Nat) : List (String × Json) := [
  ("branch", Json.arr ((List.range npreds).map (fun p =>
      Json.arr #[toJson p, optB (branchCovered tr p true), optB (branchCovered tr p false)])).toArray),
  ("entered", toJson (coids.map (fun i => (i, codeObjectCovered tr i)))),
  ("executed", toJson tr.executed)]

def resOf : ResJ → Option Res
  | .skipped => some .skipped
  | .raised => some .raised
  | .ok a b => do
    let x ← a.toNum?
    let y ← b.toNum?
    pure (.ok x y)

partial def callOf : CallJ → Option Call
  | .enter c => some (.enter c)
  | .pred p body res => do
    let b ← body.mapM callOf
    let r ← resOf res
    pure (.pred p b r)

/-- Replay the recorded top-level callbacks one by one on the model tracer (the tree's code:
`restore = true`): the flag after each, the first record the model cannot accept, the final trace. -/
def runCalls (c : CallsCase) : Json :=
  match c.calls.mapM callOf with
  | none => Json.mkObj [("bad-op", "bad number")]
  | some cs =>
    let step := fun (acc : TState × List Bool × Option Nat × Nat) (call : Call) =>
      let (s, flags, bad, i) := acc
      match bad with
      | some _ => (s, flags, bad, i + 1)
      | none =>
        match TState.call true s call with
        | some s' => (s', flags ++ [s'.enabled], none, i + 1)
        | none => (s, flags, some i, i + 1)
    let (s, flags, bad, _) := cs.foldl step (TState.init, [], none, 0)
    Json.mkObj ([
      ("rejected", match bad with | some i => toJson i | none => Json.null),
      ("flags", toJson flags),
      ("enabled", toJson s.enabled)] ++ traceJson s.trace c.npreds c.coids)

def runCase : Case → Json
  | .cfg c => runCfg c
  | .trace c => runTrace c
  | .calls c => runCalls c

partial def loop (h : IO.FS.Stream) : IO Unit := do
  let line ← h.getLine
  if line.isEmpty then return ()
  let out := match Json.parse line >>= fromJson? (α := Case) with
    | .ok c => (runCase c).compress
    | .error e => (Json.mkObj [("bad-op", e)]).compress
  IO.println out
  loop h

def main : IO Unit := do loop (← IO.getStdin)
