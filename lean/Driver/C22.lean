import Lean.Data.Json
import PynguinModel.Model.Minimize
/-! Line-protocol driver for C22: one JSON case per line in, one JSON result per line out. -/
open Lean PynguinModel.TestCase PynguinModel.Minimize

structure JStmt where
  bound : Option Nat
  uses : List String
  asserts : List String
  deriving FromJson

structure JTest where
  stmts : List JStmt
  chop : Option Int
  ru : Option (List JStmt)
  deriving FromJson

structure JClause where
  tag : String
  pos : List String
  neg : List String
  deriving FromJson

structure Case where
  op : String
  strategy : String
  forward : Bool
  tests : List JTest
  raising : List String
  covs : List (List (List JClause))
  deriving FromJson

/-- `var_<canonical decimal>` is a test-case variable, every other identifier is external -/
abbrev TName := PynguinModel.TestCase.Name

def decodeName (s : String) : TName :=
  if s.startsWith "var_" then
    let d := s.drop 4
    match d.toNat? with
    | some k => if toString k == d then .var k else .ext s
    | none => .ext s
  else .ext s

def encodeName : TName → String
  | .var k => "var_" ++ toString k
  | .ext s => s

def toStmt (j : JStmt) : Stmt :=
  { bound := j.bound.map (fun k => PynguinModel.TestCase.Name.var k), btype := j.bound.map (fun _ => 0), uses := j.uses.map decodeName,
    asserts := j.asserts.map decodeName, simpleAssign := j.bound.isSome }

def toTC (l : List JStmt) : TC := TC.empty.withStmts (l.map toStmt) |> fun t => { t with counter := 1000 }

def stmtJ (s : Stmt) : Json :=
  Json.mkObj [("b", match s.bound with | some n => toJson (encodeName n) | none => Json.null),
    ("u", toJson (s.uses.map encodeName)), ("a", toJson (s.asserts.map encodeName))]

def suiteJ (s : Suite) : Json := Json.arr (s.map (fun t => Json.arr (t.stmts.map stmtJ).toArray)).toArray

def toGoals (c : Case) : List (List Goal) :=
  c.covs.map (fun f => f.map (fun g => g.map (fun (cl : JClause) => (⟨cl.tag, cl.pos, cl.neg⟩ : Clause))))

/-- the conditions C22 needs from `remove_unused_variables` (checked on the handed-over result) -/
def unbB (a s : Stmt) : Bool := decide (a = s) || (a.bound.isNone && decide (a.uses = s.uses))

def assertedB (l : List Stmt) (st : Stmt) : Bool :=
  match st.bound with
  | some v => decide (v ∈ directAsserted l)
  | none => false

def ruOKB (t t' : TC) : Bool :=
  decide (t'.stmts.length = t.stmts.length) && (List.zipWith unbB t'.stmts t.stmts).all id &&
    t.stmts.all (fun st => !assertedB t.stmts st || (decide (st ∈ t'.stmts) && assertedB t'.stmts st))

def run (c : Case) : Json :=
  let cov := covVec c.raising (toGoals c)
  let s : Suite := c.tests.map (fun t => toTC t.stmts)
  let bad := Json.mkObj [("ok", false)]
  match c.op with
  | "minimize" =>
    let chops := c.tests.map (·.chop)
    let s0 := truncate chops s
    let table : List (TC × TC) := (s0.zip c.tests).filterMap (fun p => p.2.ru.map (fun r => (p.1, toTC r)))
    let ru : TC → TC := fun t => match table.find? (fun p => decide (p.1 = t)) with
      | some p => p.2
      | none => t
    let strat? : Option Strategy := match c.strategy with
      | "CASE" => some .case | "SUITE" => some .suite | "COMBINED" => some .combined | _ => none
    match strat? with
    | none => Json.mkObj [("bad-op", toJson c.strategy)]
    | some strat =>
      match minimize cov ru strat c.forward true true chops s with
      | none => bad
      | some r =>
        Json.mkObj [("ok", true), ("final", suiteJ r.final), ("restored", r.restored), ("orig", toJson r.orig),
          ("minimized", toJson r.minimized), ("removedStmts", r.removedStmts), ("removedTests", r.removedTests),
          ("ruOK", table.all (fun p => ruOKB p.1 p.2))]
  | "iter" =>
    match casePhase cov id c.forward s with
    | none => bad
    | some r => Json.mkObj [("ok", true), ("final", suiteJ r.1), ("removedStmts", r.2)]
  | "suite" =>
    match suiteMin cov s with
    | none => bad
    | some r => Json.mkObj [("ok", true), ("final", suiteJ r.1), ("removedTests", r.2)]
  | "combined" =>
    match combinedMin cov true s with
    | none => bad
    | some r => Json.mkObj [("ok", true), ("final", suiteJ r.1), ("removedStmts", r.2)]
  | "protected" =>
    Json.mkObj [("ok", true), ("protected", Json.arr (s.map (fun t =>
      match protectedVars t.stmts with
      | some p => toJson (p.map encodeName)
      | none => Json.null)).toArray)]
  | other => Json.mkObj [("bad-op", other)]

partial def loop (h : IO.FS.Stream) : IO Unit := do
  let line ← h.getLine
  if line.isEmpty then return
  let t := line.trimAscii.toString
  if t.isEmpty then
    IO.println "{\"bad-op\":\"empty\"}"
  else
    match Json.parse t >>= fromJson? (α := Case) with
    | .ok c => IO.println (run c).compress
    | .error e => IO.println (Json.mkObj [("bad-op", e)]).compress
  loop h

def main : IO Unit := do
  loop (← IO.getStdin)
